"""C16 — Templates evaluate like Python and never act on stale values."""
import ast
import json
import math
import os

from vlib import Suite, zlit, zlist, coqlist, blit

ID = "C16"
READY = True
RULE = ("ops: operator x operand pairs over all type combinations of None/bool/int/float/str/tuple (binary, unary, the six "
        "comparisons, in / not in, and/or, subscripts), boundary ints (0, +-1, 2^31, 2^53+-1, 10^18), floats that round "
        "(0.1, 1/3, 2^53+1, 1e22), empty/equal/prefix strings and tuples; CPython's own operators are the observed side, "
        "MPF's evaluate of 'a <op> b' is checked by the oracle.  expr: random expressions (<= 25 nodes, incl. float "
        "literals, tuple displays, constant / negative / computed subscripts, IfExp, in/not in) over parameters, machine "
        "variables, settings, monitored device attributes (switch state, flipper 'enabled' = aliased attribute), "
        "current_player.x, players[i].x, mode.m.a, game.a, inside a 2-player game or outside a game, printed with "
        "ast.unparse, evaluated by raw/bool/int/float templates with evaluate and evaluate_and_subscribe; non-trivial = "
        "at least 3 operator nodes or a store read; distinct by case hash.  ext (oracle only): the same plus inf / "
        "overflowing / subnormal floats and list parameters.  hist: a template subscribed through the real "
        "ConfigPlayer._update_subscription, then 1-8 changes: machine variables (set/remove), settings (directly or "
        "through the backing variable), switch states, flipper enable/disable, any player's variables, game start, add "
        "player, ball end (turn hand-over), game end (optionally with a queue handler delaying mode_game_stopping); "
        "non-trivial = at least one change of something the template reads.  cond: 2-5 handlers registered with "
        "add_handler('ev[.N]{condition}', priority, **kwargs) (ties in priority, '.N' suffix, handler kwargs overriding the "
        "post's) on a plain / boolean / relay / queue event posted with kwargs; conditions compare cells of a small pool "
        "(machine variables, settings, device attributes, player variables, mode.* / game.*) with the value they have or get; "
        "every handler writes 0-2 of those cells when called, queue handlers hold the queue (queue.wait()) while the harness "
        "changes variables / switches / the flipper and then clears it, relay handlers return replacement kwargs, boolean "
        "handlers return False; non-trivial = the set of called handlers differs between 'decided at the handler's turn' and "
        "'decided at post time' (about 20 % of the cases, kept high by rejection).  subs: 2-7 '{condition}:' entries of the "
        "real event_player / variable_player in machine-wide groups and in the modes m1 / m2, conditions over 1-2 shared cells "
        "(40 % device attributes), then 2-8 steps: a change of a shared cell, a group unloaded (mode stop / "
        "unload_player_events), a group (re)registered (mode start / register_player_events); non-trivial = a group is "
        "unloaded while another entry reading the same cell lives on and that cell changes afterwards")
TRUSTED_BASE = [
    "Coq 8.16.1 kernel (coqc); vm_compute for evaluating the model in the correspondence run; no native_compute",
    "axioms: none (every Print Assumptions is 'Closed under the global context')",
    "translator harness/props/c16.py::translate (Python ast of the three operator dict literals and of "
    "BasePlaceholderManager.__init__'s _eval_methods -> coq/C16/gen/Tables.v), fail-closed",
    "hand-written model coq/C16/{Syntax,Model}.v tied to the working tree by correspondence on every run: py_* (incl. the "
    "binary64 rounding function rnd53 and CPython's float_divmod) against CPython's own operators, "
    "tmpl_eval/evaluate/evaluate_and_subscribe and the subscriber loop against the real PlaceholderManager on a booted machine",
    "CPython 3.12 as the definition of 'Python's operator semantics'; ast.parse/ast.unparse (the expression tree handed "
    "to the model is the tree MPF parses: checked by dump equality on every generated case); float.as_integer_ratio",
    "MpfFakeGameTestCase for starting games / draining balls; the game-state after every lifecycle step is compared with "
    "the harness's own bookkeeping (harness error otherwise)",
    "hand-written models coq/C16/Cond.v (EventManager._run_handlers / _run_handlers_sequential: sorted handler list, "
    "merged kwargs, condition evaluated immediately before each call, boolean stop, relay kwargs, queue waits) and "
    "coq/C16/Multi.v (population of config-player entries, register / unload) tied by the suites cond and subs; the "
    "observation of the entries' consumers is a wrapper put on EventPlayer/VariablePlayer.handle_subscription_change "
    "for the duration of a case (the players use __slots__), the real consumer still runs",
]
ASSUMPTIONS = [
    "floats: finite binary64 values, zero or of magnitude in [2^-500, 2^500), as exact rationals with explicit rounding; "
    "inf, nan, overflow, subnormals, float ** (C pow()), int ** negative int and '%' string formatting are outside the Coq "
    "model (oracle-only: suite 'ext' and the excluded part of 'ops'/'expr', counted in evidence)",
    "floats kept in machine / player variables by the hist generator are small dyadic values (value - prev is exact); "
    "the model's announcement rule is the code's (truthiness of value - prev), the theorem's guard covers the rest",
    "conditional handlers: the state changes made by a handler while it is called are machine / player variables and "
    "settings (switch and flipper changes only while a queue is held); _min_priority / blocking_facility, handlers added "
    "or removed while the event is dispatched, and conditions whose evaluation raises (ZeroDivisionError ...; the generator "
    "rejects such cases) are not covered; config-player entries: no game-lifecycle step while several entries live (suite "
    "hist covers those for one entry), text = key, one context per mode",
    "parameters are not named like the global placeholders (machine, settings, device, mode, current_player, players, game, true, false)",
    "a setting is changed through SettingsController.set_setting_value or by writing a VALID value to its backing machine variable (two of the three settings have machine_var: different from their name); invalid raw values and removal of a backing variable are not generated",
    "ZeroDivisionError / IndexError / operators not in the tables (in, not in, is, <<, ...) escape as AssertionError: not a value, outside the property's claim; mode.* and game.* cannot be subscribed (ModePlaceholder / Game have no subscribe()): evaluate_and_subscribe raises, modelled and proved, judged outside the claim",
    "a game-lifecycle step (start, add player, ball end, game end) is one atomic change of the model; evaluations the real "
    "loop performs in the transient states inside a step are not modelled (a history in which such an evaluation kills the "
    "loop is not fed to the model; counted); the machine variables player<N>_score written at game end, extra balls, "
    "tilt and machine.time are not modelled; players[i] only with a constant i >= 0; slices, dict / attribute access on "
    "parameter values and text templates ({...:d} formatting) are not covered",
]
LEVEL_TEXT = ("Machine-checked proof (Coq) over a deep embedding of the template expression grammar: MPF's walk, parameterised "
              "by the operator and dispatch tables regenerated from the source on every run, equals Python's evaluation for "
              "every expression and environment of the modelled domain (None/bool/int/float with explicit binary64 "
              "rounding/str/tuple; subscripts, IfExp, tuple displays), type errors and missing variables give the default, "
              "every cell read lies behind a subscribed channel (machine variables, settings, device attributes, player "
              "variables of any player, turn hand-over, player list), the outcome can only change when a cell behind a "
              "subscribed channel changes, and the re-evaluate/re-subscribe loop never holds a stale value after any history "
              "of announced changes incl. game start / add player / turn hand-over / game end - without any guard for int/str "
              "valued stores; the same for every living entry of a population of concurrently registered / unloaded entries, "
              "which provably do not interact.  Conditional event handlers (plain, boolean, relay, queue events): every "
              "handler that gets its turn is called iff its condition is true under Python's semantics on the state and "
              "kwargs of its own turn, which are the posted ones after all writes, queue waits and relay replacements of "
              "the turns before it; turns follow the priority-sorted list without gaps.")
LEVEL_NOTE = ("Trusted: Coq kernel + vm_compute; no axioms. Tables translated (T); walker, placeholders and event announcements "
              "hand-modelled (H), as are the event dispatcher's conditional-handler loop and the config-player entry population, and "
              "validated differentially against the working tree on every run; inf/nan/float pow/'%' "
              "formatting validated by the oracle only. Model = code with fixes/C16-*.patch (incl. "
              "C16-player-placeholder-game-end.patch).")
TECHNIQUE = "Coq proof over translated tables + hand-written executable model; differential correspondence (vm_compute); direct oracle against CPython"
DESIGN_REF = "DESIGN.md section 3, C16"

# ================================================================================================
# (T) translation of the operator tables
AST_KEYS = {"Add": "KAdd", "Sub": "KSub", "Mult": "KMult", "Div": "KDiv", "FloorDiv": "KFloorDiv", "Mod": "KMod",
            "Pow": "KPow", "BitXor": "KBitXor", "BitAnd": "KBitAnd", "BitOr": "KBitOr", "LShift": "KLShift",
            "RShift": "KRShift", "MatMult": "KMatMult", "USub": "KUSub", "Not": "KNot", "UAdd": "KUAdd",
            "Invert": "KInvert"}
CMP_KEYS = {"Eq": "CEq", "NotEq": "CNotEq", "Lt": "CLt", "LtE": "CLtE", "Gt": "CGt", "GtE": "CGtE", "Is": "CIs",
            "IsNot": "CIsNot", "In": "CIn", "NotIn": "CNotIn"}
BOOL_KEYS = {"And": "BAnd", "Or": "BOr"}
PRIMS = {"add": "P_add", "sub": "P_sub", "mul": "P_mul", "truediv": "P_truediv", "floordiv": "P_floordiv",
         "mod": "P_mod", "pow": "P_pow", "xor": "P_xor", "and_": "P_and_", "or_": "P_or_", "neg": "P_neg",
         "not_": "P_not_", "pos": "P_pos", "invert": "P_invert", "inv": "P_invert", "eq": "P_eq", "ne": "P_ne",
         "lt": "P_lt", "le": "P_le", "gt": "P_gt", "ge": "P_ge", "contains": "P_contains"}


def _table(tree, name, opmod):
    for node in tree.body:
        if isinstance(node, ast.Assign) and len(node.targets) == 1 and isinstance(node.targets[0], ast.Name) \
                and node.targets[0].id == name:
            if not isinstance(node.value, ast.Dict):
                raise ValueError("translate:placeholder_manager.py:%s is not a dict literal" % name)
            out = {}
            for k, v in zip(node.value.keys, node.value.values):
                if not (isinstance(k, ast.Attribute) and isinstance(k.value, ast.Name) and k.value.id == "ast"):
                    raise ValueError("translate:placeholder_manager.py:%s key %s" % (name, ast.dump(k) if k else k))
                if k.attr in out:
                    raise ValueError("translate:placeholder_manager.py:%s duplicate key %s" % (name, k.attr))
                out[k.attr] = _prim(v, name, opmod)
            return out
    raise ValueError("translate:placeholder_manager.py:%s not found" % name)


def _prim(v, name, opmod):
    if isinstance(v, ast.Attribute) and isinstance(v.value, ast.Name) and v.value.id == opmod and v.attr in PRIMS:
        return PRIMS[v.attr]
    if isinstance(v, ast.Lambda):
        a = v.args
        if len(a.args) == 2 and not (a.vararg or a.kwarg or a.kwonlyargs or a.defaults or a.posonlyargs) and \
                isinstance(v.body, ast.BoolOp) and len(v.body.values) == 2 and \
                all(isinstance(x, ast.Name) for x in v.body.values):
            p, q = a.args[0].arg, a.args[1].arg
            x, y = v.body.values[0].id, v.body.values[1].id
            kind = "and" if isinstance(v.body.op, ast.And) else "or"
            if (x, y) == (p, q) and p != q:
                return "B_" + kind
            if (x, y) == (q, p) and p != q:
                return "B_%s_flip" % kind
    raise ValueError("translate:placeholder_manager.py:%s unsupported entry %s" % (name, ast.unparse(v)))


def translate(repo, gendir):
    src = open(os.path.join(repo, "mpf", "core", "placeholder_manager.py")).read()
    tree = ast.parse(src)
    opmod = None
    for node in tree.body:
        if isinstance(node, ast.Import):
            for al in node.names:
                if al.name == "operator":
                    opmod = al.asname or "operator"
    if opmod is None:
        raise ValueError("translate:placeholder_manager.py: 'import operator' not found")
    ops = _table(tree, "OPERATORS", opmod)
    bops = _table(tree, "BOOL_OPERATORS", opmod)
    cmps = _table(tree, "COMPARISONS", opmod)
    for k in ops:
        if k not in AST_KEYS:
            raise ValueError("translate:placeholder_manager.py:OPERATORS key ast.%s not representable" % k)
    for k in cmps:
        if k not in CMP_KEYS:
            raise ValueError("translate:placeholder_manager.py:COMPARISONS key ast.%s not representable" % k)
    for k in bops:
        if k not in BOOL_KEYS:
            raise ValueError("translate:placeholder_manager.py:BOOL_OPERATORS key ast.%s not representable" % k)
    for k, v in list(ops.items()) + list(cmps.items()):
        if v.startswith("B_"):
            raise ValueError("translate: lambda in OPERATORS/COMPARISONS")
    for v in bops.values():
        if not v.startswith("B_"):
            raise ValueError("translate: BOOL_OPERATORS entry is not the and/or lambda")
    # the walker itself is hand-modelled: guard the shape of the code the model mirrors
    _shape_guard(tree)

    def fn(name, ty, rty, keys, tab):
        lines = ["Definition %s (o : %s) : option %s :=\n  match o with" % (name, ty, rty)]
        for py, cq in keys.items():
            lines.append("  | %s => %s" % (cq, "Some " + tab[py] if py in tab else "None"))
        lines.append("  end.\n")
        return "\n".join(lines)
    txt = ("(* GENERATED on every run by harness/props/c16.py::translate from the dict literals OPERATORS,\n"
           "   BOOL_OPERATORS and COMPARISONS of mpf/core/placeholder_manager.py.  Do not edit. *)\n"
           "From C16 Require Import Syntax.\n\n")
    txt += fn("operators", "opkey", "prim", AST_KEYS, ops)
    txt += fn("comparisons", "cmpkey", "prim", CMP_KEYS, cmps)
    txt += fn("bool_operators", "boolkey", "bprim", BOOL_KEYS, bops)
    txt += fn("node_methods", "nodekey", "method", NODE_KEYS, _node_methods(tree))
    os.makedirs(gendir, exist_ok=True)
    p = os.path.join(gendir, "Tables.v")
    if not os.path.exists(p) or open(p).read() != txt:
        with open(p, "w") as f:
            f.write(txt)


NODE_KEYS = {"Num": "NNum", "Str": "NStr", "NameConstant": "NNameConstant", "Constant": "NConstant", "BinOp": "NBinOp",
             "UnaryOp": "NUnaryOp", "Compare": "NCompare", "BoolOp": "NBoolOp", "Attribute": "NAttribute",
             "Subscript": "NSubscript", "Name": "NName", "IfExp": "NIfExp", "Tuple": "NTuple", "List": "NList",
             "Dict": "NDict", "Call": "NCall", "Set": "NSet", "Lambda": "NLambda", "JoinedStr": "NJoinedStr"}
METHODS = {"_eval_num": "M_eval_num", "_eval_str": "M_eval_str", "_eval_constant": "M_eval_constant",
           "_eval_bin_op": "M_eval_bin_op", "_eval_unary_op": "M_eval_unary_op", "_eval_compare": "M_eval_compare",
           "_eval_bool_op": "M_eval_bool_op", "_eval_attribute": "M_eval_attribute", "_eval_subscript": "M_eval_subscript",
           "_eval_name": "M_eval_name", "_eval_if": "M_eval_if", "_eval_tuple": "M_eval_tuple"}


def _node_methods(tree):
    """BasePlaceholderManager.__init__: self._eval_methods = {ast.X: self._eval_y, ...} followed by optional
    `if hasattr(ast, "X"): self._eval_methods[ast.X] = self._eval_y` (evaluated on the running Python's ast)"""
    def entry(k, v):
        if not (isinstance(k, ast.Attribute) and isinstance(k.value, ast.Name) and k.value.id == "ast"):
            raise ValueError("translate:placeholder_manager.py:_eval_methods key %s" % ast.unparse(k))
        if not (isinstance(v, ast.Attribute) and isinstance(v.value, ast.Name) and v.value.id == "self" and v.attr in METHODS):
            raise ValueError("translate:placeholder_manager.py:_eval_methods value %s" % ast.unparse(v))
        if k.attr not in NODE_KEYS:
            raise ValueError("translate:placeholder_manager.py:_eval_methods key ast.%s not representable" % k.attr)
        return k.attr, METHODS[v.attr]

    def is_table(t):
        return isinstance(t, ast.Attribute) and t.attr == "_eval_methods" and isinstance(t.value, ast.Name) and t.value.id == "self"
    for node in tree.body:
        if isinstance(node, ast.ClassDef) and node.name == "BasePlaceholderManager":
            for f in node.body:
                if isinstance(f, ast.FunctionDef) and f.name == "__init__":
                    out = None
                    for st in f.body:
                        if isinstance(st, ast.Assign) and len(st.targets) == 1 and is_table(st.targets[0]):
                            if not isinstance(st.value, ast.Dict) or out is not None:
                                raise ValueError("translate:placeholder_manager.py:_eval_methods is not one dict literal")
                            out = dict(entry(k, v) for k, v in zip(st.value.keys, st.value.values))
                            continue
                        body = [st]
                        if isinstance(st, ast.If):
                            t = st.test
                            if not (isinstance(t, ast.Call) and isinstance(t.func, ast.Name) and t.func.id == "hasattr" and
                                    len(t.args) == 2 and isinstance(t.args[0], ast.Name) and t.args[0].id == "ast" and
                                    isinstance(t.args[1], ast.Constant) and not st.orelse):
                                raise ValueError("translate:placeholder_manager.py:__init__ unsupported if")
                            body = st.body if hasattr(ast, t.args[1].value) else []
                        for b in body:
                            if isinstance(b, ast.Assign) and len(b.targets) == 1 and isinstance(b.targets[0], ast.Subscript) \
                                    and is_table(b.targets[0].value):
                                if out is None:
                                    raise ValueError("translate:placeholder_manager.py:_eval_methods updated before it is built")
                                k, m = entry(b.targets[0].slice, b.value)
                                out[k] = m
                            elif isinstance(b, ast.Expr) and isinstance(b.value, ast.Call) and \
                                    isinstance(b.value.func, ast.Attribute) and b.value.func.attr == "__init__":
                                continue                      # super().__init__(machine)
                            elif isinstance(b, ast.Expr) and isinstance(b.value, ast.Constant):
                                continue                      # docstring
                            else:
                                raise ValueError("translate:placeholder_manager.py:__init__ unsupported statement %s" % ast.unparse(b)[:60])
                    if out is None:
                        raise ValueError("translate:placeholder_manager.py:_eval_methods not found")
                    return out
    raise ValueError("translate:placeholder_manager.py:BasePlaceholderManager.__init__ not found")


def _shape_guard(tree):
    """fail closed when the walker methods the hand model mirrors disappear or change their signature"""
    want = {"_eval_if", "_eval_bin_op", "_eval_unary_op", "_eval_compare", "_eval_bool_op", "_eval_attribute",
            "_eval_subscript", "_eval_name", "_eval", "_eval_tuple", "evaluate_template", "evaluate_and_subscribe_template"}
    have = {}
    for node in tree.body:
        if isinstance(node, ast.ClassDef) and node.name == "BasePlaceholderManager":
            for f in node.body:
                if isinstance(f, ast.FunctionDef):
                    have[f.name] = [a.arg for a in f.args.args]
    for w in want:
        if w not in have:
            raise ValueError("translate:placeholder_manager.py:BasePlaceholderManager.%s missing" % w)
    for w in ("_eval_if", "_eval_bin_op", "_eval_unary_op", "_eval_compare", "_eval_bool_op", "_eval_tuple", "_eval_subscript"):
        if have[w] != ["self", "node", "variables", "subscribe"]:
            raise ValueError("translate:placeholder_manager.py:%s signature changed" % w)


# ================================================================================================
# values as JSON: explicit type tags (floats as repr)
def tagv(v):
    if v is None:
        return ["n"]
    if isinstance(v, bool):
        return ["b", v]
    if isinstance(v, int):
        return ["i", str(v)]
    if isinstance(v, float):
        return ["f", repr(v)]
    if isinstance(v, str):
        return ["s", v]
    if isinstance(v, tuple):
        return ["t", [tagv(x) for x in v]]
    if isinstance(v, list):
        return ["l", [tagv(x) for x in v]]
    return ["?", repr(v)[:80]]


def untag(t):
    k = t[0]
    if k == "n":
        return None
    if k == "b":
        return bool(t[1])
    if k == "i":
        return int(t[1])
    if k == "f":
        return float(t[1])
    if k == "s":
        return t[1]
    if k == "t":
        return tuple(untag(x) for x in t[1])
    if k == "l":
        return [untag(x) for x in t[1]]
    raise ValueError(t)


_NAMED = {}


def _register_names():
    """string constants that occur in almost every case are printed as identifiers defined once in the header of the
    cases file (parsing long numeral lists dominates coqc's time otherwise)"""
    names = (PARAMS + ["zz", "tu", "st", "li"] + MVARS + list(SETTINGS) + SWITCHES + PREADS + PVARS +
             ["switches", "flippers", "fl", "state", "enabled", "nope", "m1", "nomode", "active", "priority", "stopping",
              "index", "number", "ball", "score"] + list(GAME_ATTRS))
    for n in names:
        _NAMED.setdefault(n, "S_" + n)
    for i, n in enumerate(STRS):
        _NAMED.setdefault(n, "L_%d" % i)


def names_header():
    if not _NAMED:
        _register_names()
    return "".join("Definition %s : list Z := %s.\n" % (ident, zlist([ord(c) for c in n])) for n, ident in _NAMED.items())


def cstr(s):
    if not _NAMED:
        _register_names()
    return _NAMED.get(s) or zlist([ord(c) for c in s])


# floats of the model: finite, zero or of magnitude in [2^-500, 2^500) (the model rounds correctly in
# [2^-1000, 2^1000); the narrower window keeps every intermediate of float // and % inside it)
FL_LO, FL_HI = 2.0 ** -500, 2.0 ** 500


def float_ok(x):
    return x == x and x not in (float("inf"), float("-inf")) and (x == 0 or FL_LO <= abs(x) < FL_HI)


def cfloat(x, con="VFloat"):
    n, d = float(x).as_integer_ratio()
    return "(%s %s %d%%positive)" % (con, zlit(n), d)


def cval(t):
    k = t[0]
    if k == "n":
        return "VNone"
    if k == "b":
        return "(VBool %s)" % blit(t[1])
    if k == "i":
        return "(VInt %s)" % zlit(int(t[1]))
    if k == "s":
        return "(VStr %s)" % cstr(t[1])
    if k == "f":
        return cfloat(float(t[1]))
    if k == "t":
        return "(VTuple %s)" % coqlist(cval(x) for x in t[1])
    raise ValueError(k)


def in_dom(t):
    k = t[0]
    if k in ("n", "b", "i", "s"):
        return True
    if k == "f":
        return float_ok(float(t[1]))
    if k == "t":
        return all(in_dom(x) for x in t[1])
    return False


def val_in_dom(v):
    return in_dom(tagv(v))


# ------------------------------------------------------------------------------------------------
# CPython's own operators (the language's bytecode, not the operator module MPF's tables name)
PY_BIN = {
    "Add": lambda a, b: a + b, "Sub": lambda a, b: a - b, "Mult": lambda a, b: a * b, "Div": lambda a, b: a / b,
    "FloorDiv": lambda a, b: a // b, "Mod": lambda a, b: a % b, "Pow": lambda a, b: a ** b,
    "BitXor": lambda a, b: a ^ b,
}
PY_UN = {"USub": lambda a: -a, "Not": lambda a: not a}
PY_CMP = {"Eq": lambda a, b: a == b, "NotEq": lambda a, b: a != b, "Lt": lambda a, b: a < b,
          "LtE": lambda a, b: a <= b, "Gt": lambda a, b: a > b, "GtE": lambda a, b: a >= b,
          "In": lambda a, b: a in b, "NotIn": lambda a, b: a not in b}
MPF_CMP = ("Eq", "NotEq", "Lt", "LtE", "Gt", "GtE")          # the comparisons of the property's grammar
PY_BOOL = {"And": lambda a, b: a and b, "Or": lambda a, b: a or b}
SYM = {"Add": "+", "Sub": "-", "Mult": "*", "Div": "/", "FloorDiv": "//", "Mod": "%", "Pow": "**", "BitXor": "^",
       "Eq": "==", "NotEq": "!=", "Lt": "<", "LtE": "<=", "Gt": ">", "GtE": ">=", "And": "and", "Or": "or",
       "In": "in", "NotIn": "not in"}


class TooBig(Exception):
    pass


def is_num(x):
    return isinstance(x, (int, float))


def guard_size(kind, op, a, b=None):
    """keep intermediate values small on both sides (the generators regenerate on TooBig)"""
    def big(x):
        return isinstance(x, (int, float)) and not isinstance(x, bool) and abs(x) > 64
    if op == "Pow" and (big(b) or (isinstance(a, int) and abs(a) > 2 ** 64)):
        raise TooBig()
    if op == "Mult" and ((isinstance(a, (str, tuple)) and big(b)) or (isinstance(b, (str, tuple)) and big(a))):
        raise TooBig()


def check_size(v):
    if isinstance(v, int) and not isinstance(v, bool) and abs(v) > 2 ** 512:
        raise TooBig()
    if isinstance(v, (str, tuple)) and len(v) > 400:
        raise TooBig()
    return v


def py_apply(kind, op, a, b=None):
    """-> ("val", v) | ("type",) | ("zero",) | ("index",) | ("other", name)"""
    import warnings
    try:
        with warnings.catch_warnings():
            warnings.simplefilter("ignore")
            if kind == "bin":
                r = PY_BIN[op](a, b)
                if isinstance(r, complex):
                    return ("other", "complex")
                return ("val", r)
            if kind == "un":
                return ("val", PY_UN[op](a))
            if kind == "cmp":
                return ("val", PY_CMP[op](a, b))
            if kind == "index":
                return ("val", a[b])
            return ("val", PY_BOOL[op](a, b))
    except TypeError:
        return ("type",)
    except ZeroDivisionError:
        return ("zero",)
    except IndexError:
        return ("index",)
    except Exception as e:     # OverflowError, ValueError (e.g. negative shift), ...
        return ("other", type(e).__name__)


def model_unsup(kind, op, a, b, r):
    """the operator applications the Coq model declares Unsup (outside the modelled domain)"""
    if not val_in_dom(a) or (kind != "un" and not val_in_dom(b)):
        return True
    if r[0] == "val" and not val_in_dom(r[1]):
        return True
    if r[0] == "other":
        return True
    if kind == "bin" and op == "Pow" and is_num(a) and is_num(b):
        if isinstance(a, float) or isinstance(b, float):
            return True                                   # C pow()
        if b < 0 and a != 0:
            return True
    if kind == "bin" and op == "Mod" and isinstance(a, str) and "%" in a:
        return True                                       # string formatting
    return False


def has_float(v):
    if isinstance(v, float) or isinstance(v, complex):
        return True
    if isinstance(v, (tuple, list)):
        return any(has_float(x) for x in v)
    return False


# ================================================================================================
# suite "ops": reference semantics against CPython, and MPF's evaluate of 'a <op> b' by the oracle
INTS = [0, 1, -1, 2, -2, 3, 7, -7, 10, 12, 63, 64, -64, 255, 2 ** 31, -2 ** 31 - 1, 10 ** 18, -10 ** 18 + 3,
        2 ** 53, 2 ** 53 + 1, -2 ** 53 - 1, 10 ** 16 + 1, 3 ** 40]
STRS = ["", "a", "b", "ab", "abc", "aB", "A", "é", "ab ", "0", "10", "9", "€", "a😀", "zz"]
FLOATS = [0.0, -0.0, 0.5, -1.5, 2.0, 1e16, 0.1, 3.0000000000000004, 1.0, -1.0, 0.3, 0.7, 2.5, -0.75, 7.0, -7.0,
          1 / 3, 1e-5, 123456789.125, 2.0 ** 53, 9007199254740993.0, 0.30000000000000004, 1e22, 1e18, -1e18, 64.0,
          4.35, 1e-300, 1e300, 5e-324, float("inf"), float("-inf"), float("nan"), 1e308]


def rfloat(rng):
    r = rng.random()
    if r < 0.6:
        return rng.choice(FLOATS)
    if r < 0.8:
        return rng.randint(-80, 80) / 8
    if r < 0.9:
        return rng.randint(-400, 400) / 10
    return rng.uniform(-5, 5) * 10 ** rng.randint(-6, 12)


def rscalar(rng, floats=True):
    r = rng.random()
    if r < 0.10:
        return None
    if r < 0.22:
        return rng.choice([True, False])
    if r < 0.55:
        return rng.choice(INTS) if rng.random() < 0.7 else rng.randint(-40, 40)
    if floats and r < 0.75:
        return rfloat(rng)
    return rng.choice(STRS)


def rvalue(rng, floats=True, tuples=True, depth=0):
    if tuples and depth < 2 and rng.random() < 0.14:
        return tuple(rvalue(rng, floats, True, depth + 1) for _ in range(rng.choice([0, 1, 1, 2, 2, 3])))
    return rscalar(rng, floats)


def small_float(rng):
    """floats kept in machine / player variables: small dyadic values, so that  value - prev  is exact (a change is
    then announced iff the values differ)"""
    return rng.randint(-64, 64) / 8


def rstored(rng):
    r = rng.random()
    if r < 0.10:
        return None
    if r < 0.22:
        return rng.choice([True, False])
    if r < 0.58:
        return rng.choice(INTS[:18]) if rng.random() < 0.6 else rng.randint(-40, 40)
    if r < 0.72:
        return small_float(rng)
    return rng.choice(STRS)


def gen_ops(rng, tier, i):
    kind = rng.choice(["bin", "bin", "bin", "bin", "cmp", "cmp", "cmp", "un", "bool", "index"])
    op = rng.choice(list({"bin": PY_BIN, "un": PY_UN, "cmp": PY_CMP, "bool": PY_BOOL, "index": {"Index": 0}}[kind]))
    while True:
        a = rvalue(rng)
        b = rvalue(rng) if kind != "un" else None
        r = rng.random()
        if kind != "un" and r < 0.12:
            b = a                                              # coincidences: equal operands
        elif kind != "un" and r < 0.30 and is_num(a) and not isinstance(a, bool):
            b = rng.choice([rfloat(rng), rng.choice(INTS), rng.randint(-9, 9)])       # number x number
        elif kind == "cmp" and r < 0.45 and isinstance(a, tuple):
            b = a[:rng.randint(0, len(a))] + tuple(rvalue(rng, True, False) for _ in range(rng.choice([0, 1, 2])))
        if kind == "index":
            a = rng.choice([rng.choice(STRS), tuple(rscalar(rng) for _ in range(rng.randint(0, 4))), a])
            b = rng.choice([rng.randint(-5, 5), rng.randint(-2, 2), True, False, b])
        if kind == "cmp" and op in ("In", "NotIn") and rng.random() < 0.7:
            b = rng.choice([rng.choice(STRS), tuple(rscalar(rng) for _ in range(rng.randint(0, 4)))])
            if rng.random() < 0.5 and len(b):
                a = rng.choice(b) if isinstance(b, tuple) else b[rng.randint(0, len(b) - 1):][:rng.randint(0, 2)]
        try:
            guard_size(kind, op, a, b)
            r = py_apply(kind, op, a, b)
            if r[0] == "val":
                check_size(r[1])
        except TooBig:
            continue
        return {"kind": kind, "op": op, "a": tagv(a), "b": tagv(b) if kind != "un" else None}


_R = {}


def _ops_rig():
    from rig import Rig
    if "ops" not in _R:
        _R["ops"] = Rig({}).start()
    return _R["ops"]


def mpf_eval(pm, kind, text, default, params, subscribe=False):
    """-> {"v": tagged} | {"exc": name}"""
    import asyncio
    try:
        if kind == "raw":
            t = pm.build_raw_template(text, default)
        elif kind == "bool":
            t = pm.build_bool_template(text, default)
        elif kind == "float":
            t = pm.build_float_template(text, default)
        else:
            t = pm.build_int_template(text, default)
        if subscribe:
            v, fut = t.evaluate_and_subscribe(params)
            if isinstance(fut, asyncio.Future):
                fut.cancel()
            return {"v": tagv(v)}
        return {"v": tagv(t.evaluate(params))}
    except BaseException as e:   # noqa
        if isinstance(e, (KeyboardInterrupt, SystemExit)):
            raise
        c = e.__cause__
        return {"exc": type(e).__name__, "cause": type(c).__name__ if c is not None else None}


def run_ops(case):
    a = untag(case["a"])
    b = untag(case["b"]) if case["b"] is not None else None
    kind, op = case["kind"], case["op"]
    r = py_apply(kind, op, a, b)
    out = {"py": [r[0]] + ([tagv(r[1])] if r[0] == "val" else list(r[1:])), "unsup": model_unsup(kind, op, a, b, r)}
    rig = _ops_rig()
    pm = rig.machine.placeholder_manager
    if kind == "un":
        text = ("-a" if op == "USub" else "not a")
    elif kind == "index":
        text = "a[b]"
    else:
        text = "a %s b" % SYM[op]
    out["mpf"] = mpf_eval(pm, "raw", text, "DEFAULT", {"a": a, "b": b})
    rig.advance(0)
    return out


def coq_ops(case, out):
    if out["unsup"]:
        return None
    r = out["py"]
    if r[0] == "val":
        exp = "(Val %s)" % cval(r[1])
    else:
        exp = {"type": "TypeErr", "zero": "ZeroDiv", "index": "IndexErr"}[r[0]]
    kind, op = case["kind"], case["op"]
    if kind == "bin":
        inp = "(OBin %s %s %s)" % (AST_KEYS[op], cval(case["a"]), cval(case["b"]))
    elif kind == "un":
        inp = "(OUn %s %s)" % (AST_KEYS[op], cval(case["a"]))
    elif kind == "cmp":
        inp = "(OCmp %s %s %s)" % (CMP_KEYS[op], cval(case["a"]), cval(case["b"]))
    elif kind == "index":
        inp = "(OIndex %s %s)" % (cval(case["a"]), cval(case["b"]))
    else:
        inp = "(OBool %s %s %s)" % (BOOL_KEYS[op], cval(case["a"]), cval(case["b"]))
    return "(%s, %s)" % (inp, exp)


def conv_kind(kind, v):
    return v if kind == "raw" else bool(v) if kind == "bool" else float(v) if kind == "float" else int(v)


def expect_evaluate(ref, kind, default):
    """what BaseTemplate.evaluate must return by the property; None = no claim.
    ref: ("val", v) | ("type",) | ("name",) | ("read",) | others"""
    if ref[0] == "val":
        v = ref[1]
        if v is None:
            return {"v": tagv(default)}
        try:
            return {"v": tagv(conv_kind(kind, v))}
        except Exception:
            return None
    if ref[0] in ("type", "name", "read"):
        return {"v": tagv(default)}
    return None


def expect_subscribe(ref, kind, default):
    try:
        if ref[0] == "val":
            return {"v": tagv(conv_kind(kind, default if ref[1] is None else ref[1]))}
        if ref[0] in ("type", "read"):
            return {"v": tagv(conv_kind(kind, default))}
    except Exception:
        return None
    return None


def canon_tag(t):
    """-0.0 and 0.0 are the same value (==); the model identifies them too"""
    if t[0] == "f" and float(t[1]) == 0:
        return ["f", "0.0"]
    if t[0] in ("t", "l"):
        return [t[0], [canon_tag(x) for x in t[1]]]
    return t


def same_out(got, want):
    return "v" in got and json.dumps(canon_tag(got["v"])) == json.dumps(canon_tag(want["v"]))


def oracle_ops(case, out):
    r = out["py"]
    if case["kind"] == "cmp" and case["op"] not in MPF_CMP:
        return []                                   # in / not in: not in the property's grammar (KeyError -> AssertionError)
    ref = ("val", untag(r[1])) if r[0] == "val" else tuple(r)
    want = expect_evaluate(ref, "raw", "DEFAULT")
    if want is None or same_out(out["mpf"], want):
        return []
    if case["kind"] == "un" and case["op"] == "USub" and r[0] == "type" and out["mpf"].get("exc") == "AssertionError" \
            and out["mpf"].get("cause") == "TypeError":
        return [{"sig": "unary-typeerror-escapes",
                 "what": "unary minus on a non-number raises AssertionError instead of giving the template's default"}]
    return [{"sig": "operator-differs-from-python",
             "what": "%s %s on %s/%s: python %r, template %r" % (case["kind"], case["op"], case["a"], case["b"], r, out["mpf"])}]


def shrink_ops(case):
    for key in ("a", "b"):
        t = case[key]
        if t is None:
            continue
        for small in (["i", "0"], ["i", "1"], ["s", ""], ["s", "a"], ["n"], ["f", "0.5"], ["f", "1.0"], ["t", []]):
            if t != small and t[0] == small[0]:
                c = dict(case)
                c[key] = small
                yield c
        if t[0] == "t":
            for j in range(len(t[1])):
                c = dict(case)
                c[key] = ["t", t[1][:j] + t[1][j + 1:]]
                yield c


def describe_ops(case):
    return "%s %s %s%s" % (case["kind"], case["op"], case["a"][0], case["b"][0] if case["b"] else "")


# ================================================================================================
# suite "expr": expressions on the real PlaceholderManager
PARAMS = ["p", "q", "r", "s"]
MVARS = ["mv_a", "mv_b", "mv_c", "mv_d"]
PVARS = ["pv_a", "pv_b", "score"]                  # settable player variables
PREADS = ["pv_a", "pv_b", "score", "ball", "number"]
SETTINGS = {"s_a": {"label": "A", "sort": 1, "key_type": "int", "default": "0",
                    "values": {"0": "zero", "1": "one", "2": "two", "5": "five"}},
            # settings whose backing machine variable is NOT named like the setting (machine_var: indirection)
            "s_b": {"label": "B", "sort": 2, "key_type": "str", "default": "lo", "machine_var": "sb_backing",
                    "values": {"lo": "low", "hi": "high", "x": "ex"}},
            "s_c": {"label": "C", "sort": 3, "key_type": "int", "default": "1", "machine_var": "other_name_c",
                    "values": {"1": "one", "2": "two", "3": "three"}}}
SETTING_VALUES = {"s_a": [0, 1, 2, 5], "s_b": ["lo", "hi", "x"], "s_c": [1, 2, 3]}
SETTING_DEFAULT = {"s_a": 0, "s_b": "lo", "s_c": 1}
SETTING_MV = {"s_a": "s_a", "s_b": "sb_backing", "s_c": "other_name_c"}
SWITCHES = ["sw_a", "sw_b"]
MAX_PLAYERS = 4
BALLS_PER_GAME = 2
MACHINE_CONFIG = {"settings": SETTINGS,
                  "switches": {"sw_a": {"number": "1"}, "sw_b": {"number": "2"}, "s_start": {"number": "3", "tags": "start"},
                               "s_flip": {"number": "4"}},
                  "coils": {"c_flip": {"number": "1", "default_pulse_ms": 10, "allow_enable": True}},
                  # a device whose monitored attribute is ALIASED (_enabled -> "enabled") and set through __setattr__
                  "flippers": {"fl": {"main_coil": "c_flip", "activation_switch": "s_flip", "enable_events": "fl_on",
                                      "disable_events": "fl_off"}},
                  "modes": ["m1", "m2"],
                  "game": {"balls_per_game": BALLS_PER_GAME, "max_players": MAX_PLAYERS}}
MODES_CONFIG = {"m1": {"mode": {"start_events": "m1_start", "stop_events": "m1_stop", "priority": 200, "game_mode": False}},
                "m2": {"mode": {"start_events": "m2_start", "stop_events": "m2_stop", "priority": 300, "game_mode": False}}}
GAME_ATTRS = {"num_players": None, "max_players": MAX_PLAYERS, "tilted": False, "slam_tilted": False,
              "balls_per_game": BALLS_PER_GAME}
DEVICE_READS = [("switches", "sw_a", "state"), ("switches", "sw_b", "state"), ("flippers", "fl", "enabled"),
                ("switches", "sw_a", "nope")]

LITS = [0, 1, 2, 3, 5, 7, 10, 64, 255, 2 ** 31, 10 ** 18]
FLITS = [0.5, 1.5, 2.0, 0.1, 1e16, 3.25, 0.0, 1.0, 2.5, 0.3, 7.0, 1e-3, 123.456]


def norm_tree(t):
    """accept the read forms of older corpus files"""
    k = t[0]
    if k == "read":
        if t[1] == "device" and len(t) == 3:
            return ["read", "device", "switches", t[2], "state"]
        return t
    if k in ("bin", "cmp"):
        return [k, t[1], norm_tree(t[2]), norm_tree(t[3])]
    if k == "un":
        return [k, t[1], norm_tree(t[2])]
    if k == "boolop":
        return [k, t[1], [norm_tree(x) for x in t[2]]]
    if k == "tuple":
        return [k, [norm_tree(x) for x in t[1]]]
    if k == "if":
        return [k] + [norm_tree(x) for x in t[1:4]]
    if k == "sub":
        return [k, norm_tree(t[1]), norm_tree(t[2])]
    return t


NODE_TAGS = ("bin", "un", "cmp", "boolop", "if", "tuple", "sub", "num", "str", "name", "read", "none", "bool", "flt")


def norm_env(e):
    e = dict(e)
    if "game" not in e:
        e["game"] = {"cur": 0, "n": 1} if e.pop("in_game", False) else None
        pv = e.get("pvars", {})
        e["pvars"] = {"0": pv} if (pv and e["game"]) else {}
    if e["game"] is not None and "balls" not in e["game"]:
        e["game"] = dict(e["game"], balls=[1, 0, 0, 0])
    e.setdefault("flipper", False)
    e.setdefault("modes", {"m1": False})
    return e


def norm_change(ch):
    if ch[0] == "pv" and len(ch) == 3:
        return ["pv", 0, ch[1], ch[2]]
    return ch


def norm_case(case):
    c = dict(case)
    c["tree"] = norm_tree(case["tree"])
    c["env"] = norm_env(case["env"])
    if "changes" in c:
        c["changes"] = [norm_change(x) for x in c["changes"]]
    return c


def rlit(rng, ext):
    r = rng.random()
    if r < 0.42:
        return ["num", str(rng.choice(LITS) if rng.random() < 0.8 else rng.randint(0, 40))]
    if r < 0.62:
        return ["str", rng.choice(STRS)]
    if r < 0.70:
        return ["none"]
    if r < 0.88:
        if ext and rng.random() < 0.3:
            return ["flt", repr(rng.choice([1e308, 1e-320, float("inf"), 1e200]))]
        return ["flt", repr(abs(rng.choice(FLITS) if rng.random() < 0.8 else rng.randint(0, 80) / 8))]
    return ["bool", rng.random() < 0.5]


def rread(rng):
    r = rng.random()
    if r < 0.34:
        return ["read", "machine", rng.choice(MVARS)]
    if r < 0.46:
        return ["read", "settings", rng.choice(list(SETTINGS))]
    if r < 0.60:
        c, d, a = rng.choice(DEVICE_READS[:3]) if rng.random() < 0.93 else DEVICE_READS[3]
        return ["read", "device", c, d, a]
    if r < 0.76:
        return ["read", "player", rng.choice(PREADS)]
    if r < 0.90:
        return ["read", "playern", rng.choice([0, 0, 1, 1, 2, 3]), rng.choice(PREADS)]
    if r < 0.95:
        return ["read", "mode", rng.choice(["m1", "m1", "m1", "nomode"]), rng.choice(["active", "priority", "stopping"])]
    return ["read", "game", rng.choice(list(GAME_ATTRS) + ["nope"])]


def rleaf(rng, ext, names, subscribable_only=False):
    r = rng.random()
    if r < 0.35:
        return rlit(rng, ext)
    if r < 0.58:
        return ["name", rng.choice(names)]
    while True:
        t = rread(rng)
        if subscribable_only and t[1] in ("mode", "game"):
            continue
        return t


def rexpr(rng, budget, ext, names, so=False):
    if budget <= 1 or rng.random() < 0.12:
        return rleaf(rng, ext, names, so)
    r = rng.random()
    if r < 0.34:
        k = budget - 1
        la = rng.randint(1, max(1, k - 1))
        return ["bin", rng.choice(list(PY_BIN)), rexpr(rng, la, ext, names, so), rexpr(rng, k - la, ext, names, so)]
    if r < 0.44:
        return ["un", rng.choice(["USub", "USub", "Not"]), rexpr(rng, budget - 1, ext, names, so)]
    if r < 0.62:
        k = budget - 1
        la = rng.randint(1, max(1, k - 1))
        op = rng.choice(MPF_CMP) if rng.random() < 0.96 else rng.choice(["In", "NotIn"])
        return ["cmp", op, rexpr(rng, la, ext, names, so), rexpr(rng, k - la, ext, names, so)]
    if r < 0.75:
        n = rng.choice([2, 2, 3, 4])
        k = max(n, budget - 1)
        return ["boolop", rng.choice(["And", "Or"]), [rexpr(rng, max(1, k // n), ext, names, so) for _ in range(n)]]
    if r < 0.83:
        n = rng.choice([0, 1, 2, 2, 3])
        return ["tuple", [rexpr(rng, max(1, (budget - 1) // max(n, 1)), ext, names, so) for _ in range(n)]]
    if r < 0.90:
        if rng.random() < 0.5:
            idx = ["num", str(rng.randint(0, 3))] if rng.random() < 0.6 else ["un", "USub", ["num", str(rng.randint(1, 3))]]
        else:
            idx = rexpr(rng, 2, ext, names, so)
        return ["sub", rexpr(rng, max(1, budget - 2), ext, names, so), idx]
    k = budget - 1
    return ["if", rexpr(rng, max(1, k // 3), ext, names, so), rexpr(rng, max(1, k // 3), ext, names, so),
            rexpr(rng, max(1, k // 3), ext, names, so)]


def read_ast(t):
    def attr(v, a):
        return ast.Attribute(v, a, ast.Load())

    def name(n):
        return ast.Name(n, ast.Load())
    k = t[1]
    if k == "machine":
        return attr(name("machine"), t[2])
    if k == "settings":
        return attr(name("settings"), t[2])
    if k == "player":
        return attr(name("current_player"), t[2])
    if k == "playern":
        return attr(ast.Subscript(name("players"), ast.Constant(int(t[2])), ast.Load()), t[3])
    if k == "mode":
        return attr(attr(name("mode"), t[2]), t[3])
    if k == "game":
        return attr(name("game"), t[2])
    return attr(attr(attr(name("device"), t[2]), t[3]), t[4])


def to_ast(t):
    k = t[0]
    if k == "num":
        return ast.Constant(int(t[1]))
    if k == "flt":
        return ast.Constant(float(t[1]))
    if k == "str":
        return ast.Constant(t[1])
    if k == "none":
        return ast.Constant(None)
    if k == "bool":
        return ast.Constant(bool(t[1]))
    if k == "name":
        return ast.Name(t[1], ast.Load())
    if k == "read":
        return read_ast(t)
    if k == "bin":
        return ast.BinOp(to_ast(t[2]), getattr(ast, t[1])(), to_ast(t[3]))
    if k == "un":
        return ast.UnaryOp(getattr(ast, t[1])(), to_ast(t[2]))
    if k == "cmp":
        return ast.Compare(to_ast(t[2]), [getattr(ast, t[1])()], [to_ast(t[3])])
    if k == "boolop":
        return ast.BoolOp(getattr(ast, t[1])(), [to_ast(x) for x in t[2]])
    if k == "if":
        return ast.IfExp(to_ast(t[1]), to_ast(t[2]), to_ast(t[3]))
    if k == "tuple":
        return ast.Tuple([to_ast(x) for x in t[1]], ast.Load())
    if k == "sub":
        return ast.Subscript(to_ast(t[1]), to_ast(t[2]), ast.Load())
    raise ValueError(k)


def to_text(t):
    node = ast.fix_missing_locations(ast.Expression(to_ast(t)))
    text = ast.unparse(node)
    back = ast.parse(text, mode="eval")
    if ast.dump(back.body) != ast.dump(node.body):
        raise TooBig()            # the text would not be parsed into the tree we hand to the model: regenerate
    return text


class RefErr(Exception):
    def __init__(self, kind, name=None):
        super().__init__(kind)
        self.kind = kind
        self.name = name


def ref_eval(t, env, trace):
    """Python's evaluation of the tree with all BoolOp operands evaluated; CPython's own operators.
    env: {"params": {...}, "store": {loc-key: ("val", v) | ("valerr",) | ("crash",)}}
    trace: {"reads": [...], "unsup": bool, "nodes": n, "unsubscribable": bool}"""
    k = t[0]
    trace["nodes"] = trace.get("nodes", 0) + 1

    def done(r, kind, op, a, b=None):
        if model_unsup(kind, op, a, b, r):
            trace["unsup"] = True
        if r[0] == "val":
            return check_size(r[1])
        if r[0] in ("type", "zero", "index"):
            raise RefErr(r[0])
        raise RefErr("other", r[1])
    if k == "num":
        return int(t[1])
    if k == "flt":
        v = float(t[1])
        if not float_ok(v):
            trace["unsup"] = True
        return v
    if k == "str":
        return t[1]
    if k == "none":
        return None
    if k == "bool":
        return bool(t[1])
    if k == "name":
        if t[1] in env["params"]:
            v = env["params"][t[1]]
            if not val_in_dom(v):
                trace["unsup"] = True
            return v
        raise RefErr("name")
    if k == "read":
        key = lockey(t)
        trace.setdefault("reads", []).append(key)
        if t[1] in ("mode", "game"):
            trace["unsubscribable"] = True
        r = env["store"][key]
        if r[0] == "val":
            return r[1]
        raise RefErr("read" if r[0] == "valerr" else "other", "crash")
    if k == "bin":
        a = ref_eval(t[2], env, trace)
        b = ref_eval(t[3], env, trace)
        guard_size("bin", t[1], a, b)
        return done(py_apply("bin", t[1], a, b), "bin", t[1], a, b)
    if k == "un":
        a = ref_eval(t[2], env, trace)
        return done(py_apply("un", t[1], a), "un", t[1], a)
    if k == "cmp":
        a = ref_eval(t[2], env, trace)
        b = ref_eval(t[3], env, trace)
        if t[1] not in MPF_CMP:
            trace["unsupported_op"] = True
        return done(py_apply("cmp", t[1], a, b), "cmp", t[1], a, b)
    if k == "boolop":
        vals = [ref_eval(x, env, trace) for x in t[2]]
        r = vals[0]
        for v in vals[1:]:
            r = PY_BOOL[t[1]](r, v)
        return r
    if k == "if":
        c = ref_eval(t[1], env, trace)
        return ref_eval(t[2], env, trace) if c else ref_eval(t[3], env, trace)
    if k == "tuple":
        return check_size(tuple(ref_eval(x, env, trace) for x in t[1]))
    if k == "sub":
        a = ref_eval(t[1], env, trace)
        i = ref_eval(t[2], env, trace)
        if isinstance(a, list):
            trace["unsup"] = True
        return done(py_apply("index", "Index", a, i), "index", "Index", a, i)
    raise ValueError(k)


def ref_result(t, env):
    trace = {}
    try:
        v = ref_eval(t, env, trace)
        return ("val", v), trace
    except RefErr as e:
        return ((e.kind,) if e.kind != "other" else ("other", e.name)), trace


def lockey(t):
    return ".".join(str(x) for x in t[1:])


def player_var(e, i, x):
    """value of variable x of player index i in the env (Player.__getattr__ gives 0 for an unset variable)"""
    pv = e["pvars"].get(str(i), {})
    if x in pv:
        return untag(pv[x])
    if x == "number":
        return i + 1
    if x == "index":
        return i
    if x == "ball":
        return e["game"].get("balls", [1] + [0] * 8)[i]
    return 0


def gen_env(rng, ext, game=None):
    params = {}
    for n in PARAMS:
        if rng.random() < 0.8:
            params[n] = rvalue(rng, True, True)
    if rng.random() < 0.7:
        params["tu"] = tuple(rscalar(rng) for _ in range(rng.randint(0, 4)))
    if rng.random() < 0.7:
        params["st"] = rng.choice(STRS)
    if ext and rng.random() < 0.5:
        params["li"] = [rscalar(rng, False) for _ in range(rng.randint(0, 3))]
    mvars = {}
    for n in MVARS:
        if rng.random() < 0.7:
            mvars[n] = rstored(rng)
    settings = {n: rng.choice(SETTING_VALUES[n]) for n in SETTINGS}
    switches = {n: rng.choice([0, 1]) for n in SWITCHES}
    pvars = {}
    if game:
        for i in range(game["n"]):
            pvars[str(i)] = {n: tagv(rstored(rng) if n != "score" else rng.choice([0, 10, 500, 1200]))
                             for n in PVARS if rng.random() < 0.6}
    return {"params": {k: tagv(v) for k, v in params.items()}, "mvars": {k: tagv(v) for k, v in mvars.items()},
            "settings": {k: tagv(v) for k, v in settings.items()}, "switches": switches,
            "flipper": rng.random() < 0.4, "modes": {"m1": rng.random() < 0.5},
            "pvars": pvars, "game": game}


def env_store(e):
    st = {}
    for n in MVARS:
        st["machine." + n] = ("val", untag(e["mvars"][n])) if n in e["mvars"] else ("val", None)
    for n in SETTINGS:
        st["settings." + n] = ("val", untag(e["settings"][n]) if n in e["settings"] else SETTING_DEFAULT[n])
    for n in SWITCHES:
        st["device.switches.%s.state" % n] = ("val", e["switches"][n])
    st["device.flippers.fl.enabled"] = ("val", bool(e["flipper"]))
    st["device.switches.sw_a.nope"] = ("valerr",)
    g = e["game"]
    for x in PREADS:
        st["player." + x] = ("val", player_var(e, g["cur"], x)) if g else ("valerr",)
        for i in range(MAX_PLAYERS):
            st["playern.%d.%s" % (i, x)] = ("val", player_var(e, i, x)) if g and i < g["n"] else ("valerr",)
    act = bool(e["modes"].get("m1"))
    st["mode.m1.active"] = ("val", act)
    st["mode.m1.priority"] = ("val", 200 if act else 0)
    st["mode.m1.stopping"] = ("val", False)
    for a in ("active", "priority", "stopping"):
        st["mode.nomode." + a] = ("valerr",)
    for a, v in GAME_ATTRS.items():
        st["game." + a] = ("val", g["n"] if a == "num_players" else v) if g else ("valerr",)
    st["game.nope"] = ("crash",) if g else ("valerr",)
    return {"params": {k: untag(v) for k, v in e["params"].items()}, "store": st}


DEFAULTS = {"raw": [None, 77, "DEF", False, 2.5], "bool": [False, True, False, None], "int": [0, -1, 7, None],
            "float": [0.0, 1.5, 7, None]}


def gen_expr_case(rng, ext, game=None, so=False):
    while True:
        env = gen_env(rng, ext, game)
        names = PARAMS + ["zz", "tu", "st"] + (["li"] if ext else [])
        t = rexpr(rng, rng.choice([2, 3, 5, 8, 12, 18, 25]), ext, names, so)
        try:
            text = to_text(t)
            ref, trace = ref_result(t, env_store(env))
        except TooBig:
            continue
        if len(text) > 600:
            continue
        kind = rng.choice(["raw", "raw", "raw", "bool", "int", "float"])
        default = rng.choice(DEFAULTS[kind])
        return {"tree": t, "text": text, "env": env, "kind": kind, "default": tagv(default)}


EXPR_GAME = {"cur": 0, "n": 2, "balls": [1, 0]}


def gen_expr(rng, tier, i):
    return gen_expr_case(rng, False, dict(EXPR_GAME) if rng.random() < 0.5 else None)


def gen_ext(rng, tier, i):
    return gen_expr_case(rng, True, dict(EXPR_GAME) if rng.random() < 0.5 else None)


def _use(rig):
    """several rigs live in one worker: futures created outside a running loop (asyncio.ensure_future in
    evaluate_and_subscribe_template called directly by the harness) must land on THIS machine's loop"""
    import asyncio
    asyncio.set_event_loop(rig.loop)
    return rig


def _new_rig():
    from rig import FakeGameRig
    return FakeGameRig(MACHINE_CONFIG, modes=MODES_CONFIG).start()


def _expr_rig(in_game):
    key = "expr_game" if in_game else "expr"
    if key not in _R:
        r = _new_rig()
        if in_game:
            r.start_game()
            r.add_player()
            r.advance(1)
            g = r.machine.game
            assert g and g.num_players == 2 and g.player.number == 1 and g.player.ball == 1
        _R[key] = r
    return _use(_R[key])


def setup_env(rig, e):
    m = rig.machine
    for n in MVARS:
        m.variables.remove_machine_var(n)
    for n, t in e["mvars"].items():
        m.variables.set_machine_var(n, untag(t))
    for n in SETTINGS:
        m.settings.set_setting_value(n, untag(e["settings"][n]) if n in e["settings"] else SETTING_DEFAULT[n])
    for n, v in e["switches"].items():
        if m.switch_controller.is_active(m.switches[n]) != bool(v):
            rig.machine.switch_controller.process_switch(n, v, logical=True)
    fl = m.flippers["fl"]
    if bool(fl._enabled) != bool(e["flipper"]):
        m.events.post("fl_on" if e["flipper"] else "fl_off")
    if bool(m.modes["m1"].active) != bool(e["modes"].get("m1")):
        m.events.post("m1_start" if e["modes"].get("m1") else "m1_stop")
    rig.advance(0.05)
    assert bool(fl._enabled) == bool(e["flipper"]) and bool(m.modes["m1"].active) == bool(e["modes"].get("m1"))


def setup_players(rig, e):
    g = rig.machine.game
    for i, p in enumerate(g.player_list):
        for n in ("pv_a", "pv_b"):
            p.vars.pop(n, None)
        p.vars["score"] = 0
        for n, t in e["pvars"].get(str(i), {}).items():
            p.vars[n] = untag(t)


def run_expr(case):
    case = norm_case(case)
    e = case["env"]
    rig = _expr_rig(bool(e["game"]))
    setup_env(rig, e)
    if e["game"]:
        setup_players(rig, e)
    pm = rig.machine.placeholder_manager
    params = {k: untag(v) for k, v in e["params"].items()}
    default = untag(case["default"])
    ref, trace = ref_result(case["tree"], env_store(e))
    out = {"ev": mpf_eval(pm, case["kind"], case["text"], default, params),
           "sub": mpf_eval(pm, case["kind"], case["text"], default, params, subscribe=True),
           "ref": [ref[0]] + ([tagv(ref[1])] if ref[0] == "val" else list(ref[1:])),
           "unsup": bool(trace.get("unsup")), "unsub": bool(trace.get("unsubscribable")),
           "badop": bool(trace.get("unsupported_op")), "reads": trace.get("reads", [])}
    rig.advance(0)
    return out


def out_ref(out):
    r = out["ref"]
    return ("val", untag(r[1])) if r[0] == "val" else tuple(r)


def oracle_expr(case, out):
    case = norm_case(case)
    if out.get("badop"):
        return []                 # in / not in evaluated: outside the property's grammar
    ref = out_ref(out)
    kind, default = case["kind"], untag(case["default"])
    fails = []
    for which, want in (("ev", expect_evaluate(ref, kind, default)), ("sub", expect_subscribe(ref, kind, default))):
        if want is None or same_out(out[which], want):
            continue
        got = out[which]
        if which == "sub" and out.get("unsub") and "exc" in got:
            continue              # mode.* / game.* cannot be subscribed: raising is not a wrong or stale value
        sig = "template-differs-from-python"
        if ref[0] == "type" and got.get("exc") == "AssertionError":
            sig = "typeerror-escapes"
            if got.get("cause") == "TypeError" and only_unary_minus_fails(case, out):
                sig = "unary-typeerror-escapes"
        fails.append({"sig": sig, "what": "%s of %r (%s template, default %r): python gives %r, template gives %r" %
                      ("evaluate" if which == "ev" else "evaluate_and_subscribe", case["text"], kind, default,
                       out["ref"], got)})
    return fails


def only_unary_minus_fails(case, out):
    """the recorded defect: the failing operation is a unary minus on a non-number"""
    found = []

    def walk(t, env):
        k = t[0]
        if k == "un" and t[1] == "USub":
            r, _ = ref_result(t[2], env)
            if r[0] == "val":
                a = py_apply("un", "USub", r[1])
                if a[0] == "type":
                    found.append(True)
        for x in subtrees(t):
            walk(x, env)
    walk(case["tree"], env_store(case["env"]))
    return bool(found)


def cloc_read(t):
    """the rdesc term of a read node"""
    k = t[1]
    if k == "machine":
        return "(RCell (LMachine %s))" % cstr(t[2])
    if k == "settings":
        return "(RCell (LSetting %s))" % cstr(t[2])
    if k == "player":
        return "(RCur %s)" % cstr(t[2])
    if k == "playern":
        return "(RPlayerN %s %s)" % (zlit(int(t[2])), cstr(t[3]))
    if k == "mode":
        return "(RCell (LMode %s %s))" % (cstr(t[2]), cstr(t[3]))
    if k == "game":
        return "(RCell (LGame %s))" % cstr(t[2])
    return "(RCell (LDevice %s %s %s))" % (cstr(t[2]), cstr(t[3]), cstr(t[4]))


def cexpr(t):
    k = t[0]
    if k == "num":
        return "(ENum %s)" % zlit(int(t[1]))
    if k == "flt":
        return cfloat(float(t[1]), "EFlt")
    if k == "str":
        return "(EStr %s)" % cstr(t[1])
    if k == "none":
        return "ENone"
    if k == "bool":
        return "(EBoolC %s)" % blit(t[1])
    if k == "name":
        return "(EName %s)" % cstr(t[1])
    if k == "read":
        return "(ERead %s)" % cloc_read(t)
    if k == "bin":
        return "(EBin %s %s %s)" % (AST_KEYS[t[1]], cexpr(t[2]), cexpr(t[3]))
    if k == "un":
        return "(EUn %s %s)" % (AST_KEYS[t[1]], cexpr(t[2]))
    if k == "cmp":
        return "(ECmp %s %s %s)" % (CMP_KEYS[t[1]], cexpr(t[2]), cexpr(t[3]))
    if k == "boolop":
        acc = cexpr(t[2][0])
        for x in t[2][1:]:
            acc = "(EBool %s %s %s)" % (BOOL_KEYS[t[1]], acc, cexpr(x))
        return acc
    if k == "if":
        return "(EIf %s %s %s)" % (cexpr(t[1]), cexpr(t[2]), cexpr(t[3]))
    if k == "tuple":
        acc = "ETupNil"
        for x in reversed(t[1]):
            acc = "(ETupCons %s %s)" % (cexpr(x), acc)
        return acc
    if k == "sub":
        return "(EIndex %s %s)" % (cexpr(t[1]), cexpr(t[2]))
    raise ValueError(k)


def cenv(e, games=None):
    """games: number of games started so far in the model's history (1 when the case begins inside a game)"""
    params = coqlist("(%s, %s)" % (cstr(k), cval(v)) for k, v in e["params"].items())
    g = e["game"]
    gno = (1 if g else 0) if games is None else games
    st = []
    for n, t in e["mvars"].items():
        st.append("(LMachine %s, RVal %s)" % (cstr(n), cval(t)))
    for n, t in e["settings"].items():
        st.append("(LSetting %s, RVal %s)" % (cstr(n), cval(t)))
    for n, v in e["switches"].items():
        st.append("(LDevice %s %s %s, RVal (VInt %d))" % (cstr("switches"), cstr(n), cstr("state"), v))
    st.append("(LDevice %s %s %s, RVal (VBool %s))" % (cstr("flippers"), cstr("fl"), cstr("enabled"), blit(e["flipper"])))
    st.append("(LDevice %s %s %s, RValErr)" % (cstr("switches"), cstr("sw_a"), cstr("nope")))
    act = bool(e["modes"].get("m1"))
    st.append("(LMode %s %s, RVal (VBool %s))" % (cstr("m1"), cstr("active"), blit(act)))
    st.append("(LMode %s %s, RVal (VInt %d))" % (cstr("m1"), cstr("priority"), 200 if act else 0))
    st.append("(LMode %s %s, RVal (VBool false))" % (cstr("m1"), cstr("stopping")))
    if g:
        for a, v in GAME_ATTRS.items():
            v = g["n"] if a == "num_players" else v
            st.append("(LGame %s, RVal %s)" % (cstr(a), cval(tagv(v))))
        balls = g.get("balls", [1] + [0] * 8)
        for i in range(g["n"]):
            st.append("(LPlayerI %d %d %s, RVal (VInt %d))" % (gno, i, cstr("number"), i + 1))
            st.append("(LPlayerI %d %d %s, RVal (VInt %d))" % (gno, i, cstr("index"), i))
            if balls[i]:
                st.append("(LPlayerI %d %d %s, RVal (VInt %d))" % (gno, i, cstr("ball"), balls[i]))
            pv = dict(e["pvars"].get(str(i), {}))
            pv.setdefault("score", ["i", "0"])
            for n, t in pv.items():
                st.append("(LPlayerI %d %d %s, RVal %s)" % (gno, i, cstr(n), cval(t)))
    gm = "(Some (%d, %d))" % (g["cur"], g["n"]) if g else "None"
    return "(mkEnv %s %s %d %s)" % (params, coqlist(st), gno, gm)


CKIND = {"raw": "KRaw", "bool": "KBoolT", "int": "KIntT", "float": "KFloatT"}


def coutcome(o):
    if "v" in o:
        if not in_dom(o["v"]):
            return None
        return "(OVal %s)" % cval(o["v"])
    return "OAssert"


def model_domain_expr(case, out):
    if out["unsup"]:
        return False
    if not all(in_dom(v) for v in case["env"]["params"].values()):
        return False
    ref = out["ref"]
    if ref[0] == "other" and ref[1] != "crash":
        return False
    if case["kind"] in ("int", "float"):
        if ref[0] == "val" and ref[1][0] == "s":
            return False                                   # int("text") / float("text") is not modelled
        if case["default"][0] == "s":
            return False
    return True


def cpres(ref):
    if ref[0] == "val":
        return "(PVal %s)" % cval(ref[1])
    return {"type": "PTypeErr", "zero": "PZeroDiv", "index": "PIndexErr", "name": "PNameErr", "read": "PReadErr",
            "other": "PCrash"}[ref[0]]


def coq_expr(case, out):
    case = norm_case(case)
    if not model_domain_expr(case, out):
        return None
    a, b = coutcome(out["ev"]), coutcome(out["sub"])
    if a is None or b is None:
        return None
    inp = "(%s, %s, %s, %s)" % (CKIND[case["kind"]], cval(case["default"]), cenv(case["env"]), cexpr(case["tree"]))
    return "(%s, (%s, %s, %s))" % (inp, a, b, cpres(out["ref"]))


def subtrees(t):
    k = t[0]
    if k in ("bin", "cmp"):
        return [t[2], t[3]]
    if k == "un":
        return [t[2]]
    if k in ("boolop", "tuple"):
        return list(t[2] if k == "boolop" else t[1])
    if k == "if":
        return [t[1], t[2], t[3]]
    if k == "sub":
        return [t[1], t[2]]
    return []


def replace_sub(t, path, new):
    if not path:
        return new
    t = list(t)
    k = t[0]
    i = path[0]
    if k in ("bin", "cmp"):
        t[2 + i] = replace_sub(t[2 + i], path[1:], new)
    elif k == "un":
        t[2] = replace_sub(t[2], path[1:], new)
    elif k == "boolop":
        l = list(t[2])
        l[i] = replace_sub(l[i], path[1:], new)
        t[2] = l
    elif k == "tuple":
        l = list(t[1])
        l[i] = replace_sub(l[i], path[1:], new)
        t[1] = l
    elif k in ("if", "sub"):
        t[1 + i] = replace_sub(t[1 + i], path[1:], new)
    return t


def shrink_tree(t):
    """candidates: any subtree hoisted to the root; any inner node replaced by one of its children or a literal"""
    for s in subtrees(t):
        yield s

    def paths(u, p):
        for i, s in enumerate(subtrees(u)):
            yield p + [i], s
            yield from paths(s, p + [i])
    for p, s in paths(t, []):
        for c in subtrees(s):
            yield replace_sub(t, p, c)
        if s[0] not in ("num", "none"):
            yield replace_sub(t, p, ["num", "1"])


def shrink_expr(case):
    case = norm_case(case)
    for t in shrink_tree(case["tree"]):
        try:
            text = to_text(t)
        except Exception:
            continue
        c = dict(case)
        c["tree"] = t
        c["text"] = text
        yield c
    e = case["env"]
    for grp in ("params", "mvars"):
        for k in list(e[grp]):
            e2 = dict(e)
            e2[grp] = {a: b for a, b in e[grp].items() if a != k}
            c = dict(case)
            c["env"] = e2
            yield c


def count_nodes(t):
    return 1 + sum(count_nodes(s) for s in subtrees(t))


def has_read(t):
    return t[0] == "read" or any(has_read(s) for s in subtrees(t))


def nontrivial_expr(case, out):
    return count_nodes(case["tree"]) >= 4 or has_read(case["tree"])


def describe_expr(case):
    n = count_nodes(case["tree"])
    return "%s nodes=%s" % (case["kind"], "1-3" if n <= 3 else "4-9" if n <= 9 else "10-19" if n <= 19 else "20+")


# ================================================================================================
# suite "hist": the real re-evaluate / re-subscribe loop (ConfigPlayer._update_subscription) under change histories
def tree_reads(t):
    if t[0] == "read":
        return [t]
    out = []
    for x in subtrees(t):
        out += tree_reads(x)
    return out


def tree_uses_names(t):
    return t[0] == "name" or any(tree_uses_names(x) for x in subtrees(t))


def pick_value(rng, cur):
    r = rng.random()
    if cur is not None and r < 0.12:
        return cur                                             # coincidence: same value again
    if cur is not None and r < 0.18 and cur in (["i", "1"], ["i", "0"], ["b", True], ["b", False]):
        return {"1": ["b", True], "0": ["b", False], "True": ["i", "1"], "False": ["i", "0"]}[str(cur[1])]   # 1 <-> True
    return tagv(rstored(rng))


def apply_env_change(env, ch):
    """the harness's own bookkeeping of what the store should now contain (env is modified in place)"""
    k = ch[0]
    g = env["game"]
    if k == "mv":
        env["mvars"][ch[1]] = ch[2]
    elif k == "rm":
        env["mvars"].pop(ch[1], None)
    elif k in ("set", "setmv"):
        env["settings"][ch[1]] = ch[2]
    elif k == "sw":
        env["switches"][ch[1]] = ch[2]
    elif k == "fl":
        env["flipper"] = bool(ch[1])
    elif k == "pv":
        env["pvars"].setdefault(str(ch[1]), {})[ch[2]] = ch[3]
    elif k == "start":
        env["game"] = {"cur": 0, "n": 1, "balls": [1, 0, 0, 0]}
        env["pvars"] = {}
    elif k == "add":
        g["n"] += 1
    elif k == "next":
        g["cur"] = (g["cur"] + 1) % g["n"]
        g["balls"][g["cur"]] += 1
    elif k == "end":
        env["game"] = None
        env["pvars"] = {}


def lifecycle_options(g):
    """the game-lifecycle changes possible in game state g"""
    if g is None:
        return ["start"]
    opts = ["end"]
    last_turn = g["cur"] == g["n"] - 1 and g["balls"][g["cur"]] >= BALLS_PER_GAME
    if not last_turn:
        opts += ["next", "next"]
    if g["n"] < MAX_PLAYERS and g["balls"][g["cur"]] == 1:
        opts.append("add")
    return opts


def gen_hist(rng, tier, i):
    n0 = rng.choice([0, 1, 1, 2, 3])
    game = {"cur": 0, "n": n0, "balls": [1, 0, 0, 0]} if n0 else None
    while True:
        case = gen_expr_case(rng, False, game, so=True)
        if rng.random() < 0.9 and not has_read(case["tree"]):
            continue
        if tree_uses_names(case["tree"]):
            continue                      # the loop evaluates with parameters []: a name always raises
        break
    case["kind"] = rng.choice(["raw", "raw", "bool"])
    case["default"] = tagv(rng.choice(DEFAULTS[case["kind"]]))
    case["env"]["params"] = {}
    rd = tree_reads(case["tree"])
    player_reads = [t for t in rd if t[1] in ("player", "playern")]
    env = json.loads(json.dumps(case["env"]))
    changes = []
    for _ in range(rng.choice([1, 2, 3, 4, 6, 8])):
        g = env["game"]
        r = rng.random()
        if r < (0.45 if player_reads else 0.12):
            op = rng.choice(lifecycle_options(g))
            ch = [op] if op != "end" else ["end", rng.random() < 0.35]
        else:
            if rd and rng.random() < 0.75:
                t = rng.choice(rd)
            else:
                t = rread(rng)
            kind = t[1]
            if kind in ("mode", "game"):
                t = ["read", "machine", rng.choice(MVARS)]
                kind = "machine"
            if kind in ("player", "playern") and g is None:
                ch = ["start"]
            elif kind == "machine":
                cur = env["mvars"].get(t[2])
                ch = ["rm", t[2]] if rng.random() < 0.2 else ["mv", t[2], pick_value(rng, cur)]
            elif kind == "settings":
                # through SettingsController.set_setting_value, or directly through the backing machine variable
                # (valid values only: the same announcement rule, the same value read)
                ch = ["set" if rng.random() < 0.5 else "setmv", t[2], tagv(rng.choice(SETTING_VALUES[t[2]]))]
            elif kind == "device":
                if t[2] == "flippers":
                    ch = ["fl", rng.random() < 0.6]
                else:
                    ch = ["sw", t[3], rng.choice([0, 1])]
            else:
                x = t[-1] if t[-1] in PVARS else rng.choice(PVARS)
                if kind == "player":
                    i_p = g["cur"] if rng.random() < 0.7 else rng.randrange(g["n"])
                else:
                    i_p = int(t[2]) if int(t[2]) < g["n"] and rng.random() < 0.7 else rng.randrange(g["n"])
                cur = env["pvars"].get(str(i_p), {}).get(x)
                v = pick_value(rng, cur)
                if x == "score" and v[0] not in ("i",):
                    v = tagv(rng.choice([0, 10, 500, 1200]))
                ch = ["pv", i_p, x, v]
        changes.append(ch)
        apply_env_change(env, ch)
    case["changes"] = changes
    # every intermediate store must keep the values small (the machine would really compute them)
    env = json.loads(json.dumps(case["env"]))
    try:
        for ch in changes:
            apply_env_change(env, ch)
            ref_result(case["tree"], env_store(env))
    except TooBig:
        return gen_hist(rng, tier, i)
    return case


def _hist_rig():
    if "hist" not in _R:
        _R["hist"] = _new_rig()
    return _use(_R["hist"])


def _slow_stop(rig, secs=0.5):
    """a queue handler that delays mode_game_stopping: game_ended is then posted well before machine.game is None"""
    m = rig.machine

    def slow(queue, **kwargs):
        queue.wait()
        m.clock.schedule_once(lambda *a: queue.clear(), secs)
    return m.events.add_handler("mode_game_stopping", slow)


def game_state(m):
    g = m.game
    if not g or not g.player:
        return None
    return {"cur": g.player.index, "n": len(g.player_list), "ball": g.player.ball}


def end_game(rig, slow=False):
    m = rig.machine
    if not m.game:
        return
    h = _slow_stop(rig) if slow else None
    m.game.end_game()
    rig.advance(2)
    if h:
        m.events.remove_handler_by_key(h)
    if m.playfield.balls:
        m.playfield.balls = 0
        m.playfield.available_balls = 0
    rig.advance(0.1)


def apply_real_change(rig, ch):
    m = rig.machine
    k = ch[0]
    if k == "mv":
        m.variables.set_machine_var(ch[1], untag(ch[2]))
    elif k == "rm":
        m.variables.remove_machine_var(ch[1])
    elif k == "set":
        m.settings.set_setting_value(ch[1], untag(ch[2]))
    elif k == "setmv":
        m.variables.set_machine_var(SETTING_MV[ch[1]], untag(ch[2]))
    elif k == "sw":
        m.switch_controller.process_switch(ch[1], ch[2], logical=True)
    elif k == "fl":
        m.events.post("fl_on" if ch[1] else "fl_off")
    elif k == "pv":
        m.game.player_list[ch[1]][ch[2]] = untag(ch[3])
    elif k == "start":
        rig.start_game()
    elif k == "add":
        rig.add_player()
    elif k == "next":
        rig.drain_all_balls()
    elif k == "end":
        end_game(rig, ch[1])
    rig.advance(0.05)


def run_hist(case):
    import asyncio
    from mpf.core.config_player import ConfigPlayer
    case = norm_case(case)
    rig = _hist_rig()
    m = rig.machine
    e = case["env"]
    end_game(rig)
    setup_env(rig, e)
    if e["game"]:
        rig.start_game()
        for _ in range(e["game"]["n"] - 1):
            rig.add_player()
        setup_players(rig, e)
        rig.advance(0.05)
    if game_state(m) != ({"cur": 0, "n": e["game"]["n"], "ball": 1} if e["game"] else None):
        _R.pop("hist", None)
        return {"harness_error": "could not establish the initial game state: %r" % game_state(m)}
    pm = m.placeholder_manager
    default = untag(case["default"])
    if case["kind"] == "raw":
        template = pm.build_raw_template(case["text"], default)
    else:
        template = pm.build_bool_template(case["text"], default)
    state = {"calls": 0, "last": None}
    sublist = {}

    class Loop:
        """the real ConfigPlayer._update_subscription with a recording consumer"""
        machine = m

        def handle_subscription_change(self, value, settings, priority, context, key):
            state["calls"] += 1
            state["last"] = {"v": tagv(value)}

        def _update_subscription(self, *args):
            if state.get("dead"):
                return
            try:
                ConfigPlayer._update_subscription(self, *args)
            except BaseException as ex:   # noqa
                if isinstance(ex, (KeyboardInterrupt, SystemExit)):
                    raise
                state["dead"] = True
                state["calls"] += 1
                state["last"] = {"exc": type(ex).__name__}
    loop = Loop()
    loop._update_subscription(template, sublist, {}, 0, "ctx", "key", None)
    out = {"init": state["last"], "steps": [], "dom": True}
    env = json.loads(json.dumps(e))

    def domain_now():
        ref, trace = ref_result(case["tree"], env_store(env))
        if trace.get("unsup") or (ref[0] == "other" and ref[1] != "crash"):
            out["dom"] = False
        return trace.get("reads", [])
    out["reads0"] = domain_now()
    for ch in case["changes"]:
        before = state["calls"]
        apply_real_change(rig, ch)
        apply_env_change(env, ch)
        gs = game_state(m)
        want = {"cur": env["game"]["cur"], "n": env["game"]["n"], "ball": env["game"]["balls"][env["game"]["cur"]]} \
            if env["game"] else None
        if gs != want:
            fut = sublist.get(template)
            if fut is not None:
                fut.cancel()
            _R.pop("hist", None)
            return {"harness_error": "game state after %r is %r, expected %r" % (ch, gs, want)}
        reads = domain_now()
        fresh = mpf_eval(pm, case["kind"], case["text"], default, [], subscribe=True)
        out["steps"].append({"fired": state["calls"] > before, "last": state["last"], "fresh": fresh, "reads": reads})
    fut = sublist.get(template)
    if fut is not None:
        fut.cancel()
    rig.advance(0.01)
    if rig.machine.stop_future.done():
        _R.pop("hist", None)
        return {"harness_error": "machine stopped during the case"}
    return out


def py_equal(a, b):
    """Python == on delivered values (1 == True counts as equal), identical exceptions"""
    if "v" in a and "v" in b:
        try:
            x, y = untag(a["v"]), untag(b["v"])
        except ValueError:
            return a == b
        if x != x and y != y:
            return True
        return x == y
    return "exc" in a and "exc" in b


LIFECYCLE = ("start", "add", "next", "end")


def store_diff(a, b):
    return [k for k in a if json.dumps(a[k], default=str) != json.dumps(b.get(k), default=str)]


def oracle_hist(case, out):
    case = norm_case(case)
    fails = []
    dead = "exc" in out["init"]
    suspects = []
    env = json.loads(json.dumps(case["env"]))
    changed = []                                  # per change: the read keys whose value it really changed
    for ch in case["changes"]:
        before = env_store(env)["store"]
        apply_env_change(env, ch)
        changed.append(store_diff(before, env_store(env)["store"]))
    for i, (ch, st) in enumerate(zip(case["changes"], out["steps"])):
        if dead or "exc" in st["last"]:
            break
        if "exc" in st["fresh"]:
            continue                         # evaluating now raises: no value to be stale against
        if st["fired"]:
            suspects = []
        elif changed[i]:
            suspects.append((ch, changed[i]))
        if not py_equal(st["last"], st["fresh"]):
            before_reads = set(out["steps"][i - 1]["reads"] if i else out.get("reads0", []))
            rd = set(st["reads"]) | before_reads
            culprits = [c for c, ks in suspects if set(ks) & rd] or [c for c, ks in suspects]
            if ch[0] == "end" and any(k.startswith("player") for k in before_reads) and \
                    not any(c[0] == "pv" and c[3] == ["n"] for c in culprits):
                culprits = [ch]
            if culprits and all(c[0] == "pv" and c[3] == ["n"] for c in culprits):
                fails.append({"sig": "stale-player-var-set-to-none",
                              "what": "a player variable set to None posts no player_<name> event: a subscribed template keeps the old value"})
            elif culprits and all(c[0] == "end" for c in culprits):
                fails.append({"sig": "stale-player-placeholder-after-game-end",
                              "what": "%r: the game ended%s but the subscriber still holds %r; the template now evaluates to %r "
                                      "(current_player / players are not woken once machine.game is None)" %
                                      (case["text"], " (mode_game_stopping delayed by a queue handler)" if culprits[-1][1] else "",
                                       st["last"], st["fresh"])})
            else:
                fails.append({"sig": "stale-value",
                              "what": "%r: after change %d (%r) the subscriber still holds %r but the template now evaluates to %r" %
                                      (case["text"], i, ch, st["last"], st["fresh"])})
            break
    return fails


def cchange(ch):
    k = ch[0]
    if k == "mv":
        return "(CSetMachine %s %s)" % (cstr(ch[1]), cval(ch[2]))
    if k == "rm":
        return "(CRemoveMachine %s)" % cstr(ch[1])
    if k in ("set", "setmv"):
        return "(CSetSetting %s %s)" % (cstr(ch[1]), cval(ch[2]))
    if k == "sw":
        return "(CSetDevice %s %s %s (VInt %d))" % (cstr("switches"), cstr(ch[1]), cstr("state"), ch[2])
    if k == "fl":
        return "(CSetDevice %s %s %s (VBool %s))" % (cstr("flippers"), cstr("fl"), cstr("enabled"), blit(ch[1]))
    if k == "pv":
        return "(CSetPlayerVar %d %s %s)" % (ch[1], cstr(ch[2]), cval(ch[3]))
    if k == "start":
        return "CStartGame"
    if k == "add":
        return "CAddPlayer"
    if k == "next":
        return "CNextTurn"
    return "(CEndGame %s)" % blit(ch[1])


def coq_hist(case, out):
    case = norm_case(case)
    if not out["dom"]:
        return None
    if any("exc" in st["last"] and "exc" not in st["fresh"] for st in out["steps"]):
        return None        # the loop was killed by an evaluation in a transient state inside a lifecycle step (counted)
    outs = [out["init"]] + [st["last"] for st in out["steps"]]
    cs = [coutcome(o) for o in outs]
    if any(c is None for c in cs):
        return None
    inp = "(%s, %s, %s, %s, %s)" % (CKIND[case["kind"]], cval(case["default"]), cenv(case["env"]), cexpr(case["tree"]),
                                    coqlist(cchange(c) for c in case["changes"]))
    # "fired" is compared up to and including the first game-lifecycle step; afterwards the real loop may hold the
    # subscriptions of an evaluation made in a transient state inside that step (values are compared at every step)
    first_lc = next((j for j, c in enumerate(case["changes"]) if c[0] in LIFECYCLE), len(case["changes"]))
    exp = "(%s, %s)" % (cs[0], coqlist("(%s, %s)" % ("(Some %s)" % blit(st["fired"]) if j <= first_lc else "None", c)
                                       for j, (st, c) in enumerate(zip(out["steps"], cs[1:]))))
    return "(%s, %s)" % (inp, exp)


def valid_history(case):
    """lifecycle changes must be possible in the state they are applied in"""
    env = json.loads(json.dumps(case["env"]))
    for ch in case["changes"]:
        g = env["game"]
        if ch[0] in LIFECYCLE and ch[0] not in lifecycle_options(g):
            return False
        if ch[0] == "pv" and (g is None or ch[1] >= g["n"]):
            return False
        apply_env_change(env, ch)
    return True


def shrink_hist(case):
    case = norm_case(case)
    ch = case["changes"]
    for i in range(len(ch)):
        c = dict(case)
        c["changes"] = ch[:i] + ch[i + 1:]
        if c["changes"] and valid_history(c):
            yield c
    for c in shrink_expr(case):
        if not tree_uses_names(c["tree"]):
            yield c


def nontrivial_hist(case, out):
    case = norm_case(case)
    env = json.loads(json.dumps(case["env"]))
    for c, st in zip(case["changes"], out["steps"]):
        before = env_store(env)["store"]
        apply_env_change(env, c)
        if st["fired"] or set(store_diff(before, env_store(env)["store"])) & set(st["reads"]):
            return True
    return False


def describe_hist(case):
    return "changes=%d %s" % (len(case["changes"]), ",".join(sorted(set(c[0] for c in case["changes"]))))


HDR_HIST = "From C16 Require Import Model.\nDefinition run := hist_run.\nDefinition out_eqb := hist_out_eqb.\n" + names_header()

# ================================================================================================
# suite "cond": conditional event handlers (add_handler("event{condition}")) on plain / boolean / relay / queue events.
# Between the post and a handler's turn the state changes: earlier handlers write variables, an earlier handler of a
# queue event holds the queue (queue.wait()) while the harness changes variables / switches / the flipper, a relay
# handler replaces kwargs.  Observed: which handlers were called, in which order, with which kwargs.
EVTYPES = ["plain", "boolean", "relay", "queue"]
CEV = "c16_cond_ev"
CEVTYPE = {"plain": "TPlain", "boolean": "TBoolean", "relay": "TRelay", "queue": "TQueue"}


def map_reads(t, f):
    k = t[0]
    if k == "read":
        return f(t)
    if k in ("bin", "cmp"):
        return [k, t[1], map_reads(t[2], f), map_reads(t[3], f)]
    if k == "un":
        return [k, t[1], map_reads(t[2], f)]
    if k == "boolop":
        return [k, t[1], [map_reads(x, f) for x in t[2]]]
    if k == "tuple":
        return [k, [map_reads(x, f) for x in t[1]]]
    if k == "if":
        return [k] + [map_reads(x, f) for x in t[1:4]]
    if k == "sub":
        return [k, map_reads(t[1], f), map_reads(t[2], f)]
    return t


def lit_of(v, rng):
    if v is None:
        return ["none"]
    if isinstance(v, bool):
        return ["bool", v]
    if isinstance(v, int):
        return ["num", str(v)] if v >= 0 else ["un", "USub", ["num", str(-v)]]
    if isinstance(v, float):
        return ["flt", repr(v)] if v >= 0 and v == v else ["un", "USub", ["flt", repr(-v)]]
    if isinstance(v, str):
        return ["str", v]
    return rlit(rng, False)


def cond_tree(rng, pool, env, names, so=False, seen=None):
    """a condition over the pool: mostly a comparison of a pool read with the value it has now or with a value it is
    likely to get, so that the truth value flips when the cell changes"""
    r = rng.random()
    if r < 0.55:
        t = rng.choice(pool)
        cur = env_store(env)["store"].get(lockey(t), ("valerr",))
        v = cur[1] if cur[0] == "val" and rng.random() < 0.6 else rstored(rng)
        if t[1] == "settings" and rng.random() < 0.7:
            v = rng.choice(SETTING_VALUES[t[2]])
        if t[1] == "device" and rng.random() < 0.7:
            v = rng.choice([0, 1, True, False])
        if seen is not None and val_in_dom(v) and not isinstance(v, tuple):
            seen.setdefault(lockey(t), []).append(tagv(v))
        tree = ["cmp", rng.choice(["Eq", "Eq", "NotEq", "Lt", "GtE", "Gt"]), t, lit_of(v, rng)]
        if rng.random() < 0.3:
            tree = ["boolop", rng.choice(["And", "Or"]), [tree, rexpr(rng, 3, False, names, so)]]
        elif rng.random() < 0.15:
            tree = ["un", "Not", tree]
    elif r < 0.65:
        tree = rng.choice(pool)
    else:
        tree = rexpr(rng, rng.choice([2, 3, 5, 8]), False, names, so)
    return map_reads(tree, lambda t: rng.choice(pool) if (rng.random() < 0.8 and t not in pool) else t)


def change_for_read(rng, t, game, allow_device=True, allow_none_pv=True, seen=None):
    """a change of the cell the read names (of a machine variable when the cell cannot be written); values that occur
    in the conditions (seen) are preferred, so that truth values flip"""
    kind = t[1]
    prefer = (seen or {}).get(lockey(t))
    if kind == "settings":
        return ["set" if rng.random() < 0.5 else "setmv", t[2], tagv(rng.choice(SETTING_VALUES[t[2]]))]
    if kind == "device" and allow_device:
        return ["fl", rng.random() < 0.5] if t[2] == "flippers" else ["sw", t[3], rng.choice([0, 1])]
    if kind in ("player", "playern") and game:
        x = t[-1] if t[-1] in PVARS else rng.choice(PVARS)
        if kind == "player":
            i_p = game["cur"] if rng.random() < 0.7 else rng.randrange(game["n"])
        else:
            i_p = int(t[2]) if int(t[2]) < game["n"] and rng.random() < 0.7 else rng.randrange(game["n"])
        v = rng.choice(prefer) if prefer and x == t[-1] and rng.random() < 0.6 else tagv(rstored(rng))
        if (x == "score" and v[0] != "i") or (v[0] == "n" and not allow_none_pv):
            v = tagv(rng.choice([0, 10, 500, 1200]))
        return ["pv", i_p, x, v]
    n = t[2] if kind == "machine" else rng.choice(MVARS)
    if prefer and kind == "machine" and rng.random() < 0.6:
        return ["mv", n, rng.choice(prefer)]
    return ["rm", n] if rng.random() < 0.15 else ["mv", n, tagv(rstored(rng))]


def eff_prio(h):
    return h["prio"] + h["extra"]


def sim_cond(case, snapshot=False):
    """the property's own account of the dispatch, on the harness's bookkeeping of the machine state and CPython's
    operators: handlers in priority order (stable), each condition decided on the state of the moment of the handler's
    own turn.  snapshot=True: decided on the state at the time of the post (the forbidden behaviour; used only to
    tell whether a case can distinguish the two).  -> (calls, flags)"""
    env = json.loads(json.dumps(case["env"]))
    env0 = json.loads(json.dumps(case["env"]))
    kw = dict(case["kwargs"])
    kw0 = dict(kw)
    ty = case["type"]
    flags = {"unsup": False, "crash": False}
    calls = []
    for h in sorted(case["handlers"], key=lambda h: -eff_prio(h)):
        mk = dict(kw)
        mk.update(h["kwargs"])
        if h["tree"] is not None:
            if snapshot:
                e = dict(env0)
                m0 = dict(kw0)
                m0.update(h["kwargs"])
                e["params"] = m0
            else:
                e = dict(env)
                e["params"] = mk
            ref, trace = ref_result(h["tree"], env_store(e))
            if trace.get("unsup"):
                flags["unsup"] = True
            if trace.get("unsupported_op") or ref[0] not in ("val", "type", "name", "read"):
                flags["crash"] = True
                break
            if not (ref[0] == "val" and bool(ref[1])):
                continue
        calls.append({"id": h["id"], "kw": {n: mk[n] for n in PARAMS if n in mk}})
        for ch in h["acts"]:
            apply_env_change(env, ch)
        if ty == "queue" and h["wait"] is not None:
            for ch in h["wait"]:
                apply_env_change(env, ch)
        if ty == "boolean" and h["ret"] == "false":
            break
        if ty == "relay" and isinstance(h["ret"], dict):
            kw.update(h["ret"])
    return calls, flags


def gen_cond(rng, tier, i):
    while True:
        game = dict(EXPR_GAME) if rng.random() < 0.4 else None
        env = gen_env(rng, False, game)
        env["modes"] = {"m1": rng.random() < 0.5}
        ty = rng.choice(EVTYPES + ["queue", "queue"])
        pool = [rread(rng) for _ in range(rng.choice([1, 1, 2, 3]))]
        kwargs = {n: env["params"][n] for n in PARAMS if n in env["params"] and rng.random() < 0.6}
        env["params"] = {}
        names = PARAMS + ["zz"]
        hs = []
        seen = {}
        try:
            for j in range(rng.choice([2, 2, 3, 3, 4, 5])):
                h = {"id": j, "prio": rng.choice([1, 1, 2, 3, 5, 10]), "extra": rng.choice([0, 0, 0, 1, 4]), "tree": None,
                     "text": None, "kwargs": {}, "acts": [], "ret": None, "wait": None}
                if rng.random() < 0.78:
                    h["tree"] = cond_tree(rng, pool, env, names, seen=seen)
                    h["text"] = to_text(h["tree"])
                    if len(h["text"]) > 300 or any(c in h["text"] for c in "{}"):
                        raise TooBig()
                if rng.random() < 0.25:
                    h["kwargs"] = {rng.choice(PARAMS): tagv(rvalue(rng, True, False))}
                r = rng.random()
                if (ty == "boolean" and r < 0.3) or r < 0.04:
                    h["ret"] = "false"
                elif (ty == "relay" and r < 0.5) or r > 0.96:
                    h["ret"] = {rng.choice(PARAMS): tagv(rvalue(rng, True, False)) for _ in range(rng.choice([1, 1, 2]))}
                hs.append(h)
            for h in hs:                       # the effects are chosen when all conditions are known
                for _ in range(rng.choice([0, 1, 1, 2])):
                    h["acts"].append(change_for_read(rng, rng.choice(pool), game, allow_device=False, seen=seen))
                if ty == "queue" and rng.random() < 0.55:
                    h["wait"] = [change_for_read(rng, rng.choice(pool), game, seen=seen) for _ in range(rng.choice([0, 1, 1, 2]))]
            case = {"type": ty, "env": env, "kwargs": kwargs, "handlers": hs}
            _, flags = sim_cond(case)
            _, flags0 = sim_cond(case, snapshot=True)
        except TooBig:
            continue
        if flags["crash"] or flags0["crash"]:
            continue
        if rng.random() < 0.6 and not cond_sensitive(case):
            continue                           # keep the share of cases in which the moment of evaluation matters high
        return case


def apply_inner_change(rig, ch):
    """a change made by a handler while it is being called (no clock advance)"""
    m = rig.machine
    k = ch[0]
    if k == "mv":
        m.variables.set_machine_var(ch[1], untag(ch[2]))
    elif k == "rm":
        m.variables.remove_machine_var(ch[1])
    elif k == "set":
        m.settings.set_setting_value(ch[1], untag(ch[2]))
    elif k == "setmv":
        m.variables.set_machine_var(SETTING_MV[ch[1]], untag(ch[2]))
    elif k == "pv":
        m.game.player_list[ch[1]][ch[2]] = untag(ch[3])
    else:
        raise ValueError(k)


def run_cond(case):
    e = case["env"]
    rig = _expr_rig(bool(e["game"]))
    setup_env(rig, e)
    if e["game"]:
        setup_players(rig, e)
    m = rig.machine
    pm = m.placeholder_manager
    calls = []
    state = {"held": None, "done": False}
    keys = []

    def make(h):
        def cb(**kwargs):
            queue = kwargs.pop("queue", None)
            now = None
            if h["text"] is not None:
                try:
                    now = bool(pm.build_bool_template(h["text"]).evaluate(kwargs))
                except BaseException as ex:   # noqa
                    if isinstance(ex, (KeyboardInterrupt, SystemExit)):
                        raise
                    now = None
            calls.append({"id": h["id"], "kw": {n: tagv(kwargs[n]) for n in PARAMS if n in kwargs}, "now": now})
            for ch in h["acts"]:
                apply_inner_change(rig, ch)
            if queue is not None and h["wait"] is not None:
                queue.wait()
                state["held"] = (queue, h)
            if h["ret"] == "false":
                return False
            if isinstance(h["ret"], dict):
                return {k: untag(v) for k, v in h["ret"].items()}
            return None
        return cb

    def done(**kwargs):
        state["done"] = True
    out = {}
    try:
        for h in case["handlers"]:
            name = CEV + (".%d" % h["extra"] if h["extra"] else "") + ("{%s}" % h["text"] if h["text"] is not None else "")
            keys.append(m.events.add_handler(name, make(h), priority=h["prio"], **{k: untag(v) for k, v in h["kwargs"].items()}))
        kw = {k: untag(v) for k, v in case["kwargs"].items()}
        ty = case["type"]
        if ty == "plain":
            m.events.post(CEV, callback=done, **kw)
        elif ty == "boolean":
            m.events.post_boolean(CEV, callback=done, **kw)
        elif ty == "relay":
            m.events.post_relay(CEV, callback=done, **kw)
        else:
            m.events.post_queue(CEV, callback=done, **kw)
        rig.advance(0.01)
        guard = 0
        while state["held"] is not None and guard < 20:
            guard += 1
            queue, h = state["held"]
            state["held"] = None
            for ch in h["wait"]:
                apply_real_change(rig, ch)
            queue.clear()
            rig.advance(0.01)
        if rig.machine.stop_future.done() or rig.exception() is not None:
            raise RuntimeError("machine stopped: %r" % (rig.exception(),))
    except BaseException as ex:   # noqa
        if isinstance(ex, (KeyboardInterrupt, SystemExit)):
            raise
        out["exc"] = type(ex).__name__ + ": " + str(ex)[:200]
        _R.pop("expr_game" if e["game"] else "expr", None)
        try:
            rig.stop()
        except BaseException:   # noqa
            pass
        out["calls"] = calls
        out["done"] = state["done"]
        return out
    m.events.remove_handlers_by_keys(keys)
    rig.advance(0.01)
    out["calls"] = calls
    out["done"] = state["done"]
    return out


def cond_domain(case):
    vals = list(case["kwargs"].values())
    for h in case["handlers"]:
        vals += list(h["kwargs"].values())
        if isinstance(h["ret"], dict):
            vals += list(h["ret"].values())
    return all(in_dom(v) for v in vals)


def oracle_cond(case, out):
    exp, flags = sim_cond(case)
    if flags["crash"]:
        return []
    if "exc" in out:
        return [{"sig": "conditional-dispatch-raises", "what": "dispatching the %s event raised %s" % (case["type"], out["exc"])}]
    texts = {h["id"]: h["text"] for h in case["handlers"]}
    for c in out["calls"]:
        if c["now"] is False:
            return [{"sig": "conditional-handler-stale-condition",
                     "what": "%s event: handler %d was called although its condition {%s} is false at the moment of the call "
                             "(it was true when the event was posted / before earlier handlers and queue waits changed the values)"
                             % (case["type"], c["id"], texts[c["id"]])}]
    got = [c["id"] for c in out["calls"]]
    want = [c["id"] for c in exp]
    if got != want:
        if sorted(got) == sorted(want):
            return [{"sig": "handler-order-differs", "what": "%s event: handlers called in order %r, expected %r" % (case["type"], got, want)}]
        missing = [i for i in want if i not in got]
        return [{"sig": "conditional-handler-stale-condition",
                 "what": "%s event: handlers called %r, but on the values of the moment of each handler's turn %r must be called%s"
                         % (case["type"], got, want, "".join(" (handler %d skipped although {%s} holds at its turn)" % (i, texts[i])
                                                             for i in missing[:1]))}]
    for c, w in zip(out["calls"], exp):
        a = {k: canon_tag(v) for k, v in c["kw"].items()}
        b = {k: canon_tag(v) for k, v in w["kw"].items()}
        if json.dumps(a, sort_keys=True) != json.dumps(b, sort_keys=True) and not any(v[0] == "f" and v[1] == "nan" for v in b.values()):
            return [{"sig": "handler-kwargs-differ", "what": "%s event: handler %d received %r, expected %r" % (case["type"], c["id"], a, b)}]
    if not out["done"]:
        return [{"sig": "event-callback-missing", "what": "%s event: the callback of the post was not called" % case["type"]}]
    return []


def tlist(ty, items):
    """a list literal whose type is explicit when it is empty (the single-case display has no context to infer it)"""
    items = list(items)
    return coqlist(items) if items else "(@nil %s)" % ty


def ckwargs(d):
    return tlist("(str * value)", ("(%s, %s)" % (cstr(k), cval(v)) for k, v in d.items()))


def chandler(h):
    cond = "(Some %s)" % cexpr(h["tree"]) if h["tree"] is not None else "(@None expr)"
    ret = "RFalse" if h["ret"] == "false" else "(RDict %s)" % ckwargs(h["ret"]) if isinstance(h["ret"], dict) else "RNothing"
    wait = "(Some %s)" % tlist("change", (cchange(c) for c in h["wait"])) if h["wait"] is not None else "(@None (list change))"
    return "(mkH %d %d %s %s %s %s %s)" % (h["id"], eff_prio(h), cond, ckwargs(h["kwargs"]),
                                           tlist("change", (cchange(c) for c in h["acts"])), ret, wait)


def coq_cond(case, out):
    _, flags = sim_cond(case)
    if flags["crash"] or flags["unsup"] or not cond_domain(case):
        return None
    env = dict(case["env"])
    env["params"] = {}
    inp = "(%s, %s, %s, %s)" % (CEVTYPE[case["type"]], cenv(env), ckwargs(case["kwargs"]),
                                coqlist(chandler(h) for h in case["handlers"]))
    calls = []
    for c in out["calls"]:
        if not all(in_dom(v) for v in c["kw"].values()):
            return None
        calls.append("(%d, %s)" % (c["id"], coqlist("(Some %s)" % cval(c["kw"][n]) if n in c["kw"] else "(@None value)" for n in PARAMS)))
    return "(%s, (%s, %s))" % (inp, tlist("(Z * list (option value))", calls), blit("exc" in out))


def shrink_cond(case):
    hs = case["handlers"]
    for i in range(len(hs)):
        if len(hs) > 1:
            c = dict(case)
            c["handlers"] = hs[:i] + hs[i + 1:]
            yield c
    for i, h in enumerate(hs):
        for key, small in (("acts", []), ("wait", [] if h["wait"] is not None else None), ("kwargs", {}), ("ret", None), ("extra", 0)):
            if h[key] != small:
                h2 = dict(h)
                h2[key] = small
                c = dict(case)
                c["handlers"] = hs[:i] + [h2] + hs[i + 1:]
                yield c
        for key in ("acts", "wait"):
            if h[key] and len(h[key]) > 1:
                for j in range(len(h[key])):
                    h2 = dict(h)
                    h2[key] = h[key][:j] + h[key][j + 1:]
                    c = dict(case)
                    c["handlers"] = hs[:i] + [h2] + hs[i + 1:]
                    yield c
        if h["tree"] is not None:
            for t in shrink_tree(h["tree"]):
                try:
                    text = to_text(t)
                except Exception:
                    continue
                h2 = dict(h)
                h2["tree"] = t
                h2["text"] = text
                c = dict(case)
                c["handlers"] = hs[:i] + [h2] + hs[i + 1:]
                try:
                    if sim_cond(c)[1]["crash"]:
                        continue
                except TooBig:
                    continue
                yield c
    if case["kwargs"]:
        for k in list(case["kwargs"]):
            c = dict(case)
            c["kwargs"] = {a: b for a, b in case["kwargs"].items() if a != k}
            yield c


def cond_sensitive(case):
    """the case distinguishes 'decided at the handler's turn' from 'decided at the time of the post'"""
    try:
        a, _ = sim_cond(case)
        b, _ = sim_cond(case, snapshot=True)
    except TooBig:
        return False
    return [c["id"] for c in a] != [c["id"] for c in b]


def nontrivial_cond(case, out):
    return cond_sensitive(case)


def describe_cond(case):
    return "%s %s" % (case["type"], "turn-sensitive" if cond_sensitive(case) else "insensitive")


HDR_COND = "From C16 Require Import Cond.\nDefinition run := cond_run.\nDefinition out_eqb := cond_out_eqb.\n" + names_header()

# ================================================================================================
# suite "subs": several condition-driven config-player entries ("{condition}": keys of the real event_player and
# variable_player; machine-wide groups and groups in the modes m1 / m2) subscribed at the same time, mostly to the same
# cells; groups are registered / unloaded (mode start / stop, register_player_events / unload_player_events) at
# generated points between the changes.  Observed after every step, per entry: was the consumer
# (handle_subscription_change) called, the value last delivered to it, a fresh evaluation.
SUB_PLAYERS = {"event": "events", "variable": "variables"}
SUB_SECTION = {"event": "event_player", "variable": "variable_player"}
SUB_MODES = ["m1", "m2"]


def rread_sub(rng, game):
    r = rng.random()
    if r < 0.40:
        c, d, a = rng.choice(DEVICE_READS[:3])
        return ["read", "device", c, d, a]
    if r < 0.65 or (not game and r < 0.85):
        return ["read", "machine", rng.choice(MVARS)]
    if r < 0.80 or not game:
        return ["read", "settings", rng.choice(list(SETTINGS))]
    if r < 0.92:
        return ["read", "player", rng.choice(PREADS)]
    return ["read", "playern", rng.choice([0, 1, 2]), rng.choice(PREADS)]


def sub_ids(case, scope_or_group):
    """entry ids started / cancelled by a step"""
    if isinstance(scope_or_group, int):
        return [s["id"] for s in case["subs"] if s["group"] == scope_or_group]
    return [s["id"] for s in case["subs"] if s["scope"] == scope_or_group]


def step_ids(case, st):
    return sub_ids(case, st[1]) if st[0] in ("reg", "unreg", "mstart", "mstop") else []


def sim_subs(case):
    """reference evaluation of every entry after every step on the harness's bookkeeping: -> flags"""
    env = json.loads(json.dumps(case["env"]))
    flags = {"unsup": False, "crash": False}

    def look():
        for s in case["subs"]:
            ref, trace = ref_result(s["tree"], env_store(env))
            if trace.get("unsup"):
                flags["unsup"] = True
            if trace.get("unsupported_op") or trace.get("unsubscribable") or ref[0] not in ("val", "type", "read"):
                flags["crash"] = True
    look()
    for st in case["steps"]:
        if st[0] == "ch":
            apply_env_change(env, st[1])
            look()
    return flags


def gen_subs(rng, tier, i):
    while True:
        game = dict(EXPR_GAME) if rng.random() < 0.35 else None
        env = gen_env(rng, False, game)
        env["params"] = {}
        env["modes"] = {"m1": False}
        pool = [rread_sub(rng, game) for _ in range(rng.choice([1, 1, 2]))]
        seen = {}
        subs, groups, texts = [], [], set()
        try:
            for _ in range(rng.choice([2, 2, 3, 4])):
                scope = rng.choice(["global", "global", "m1", "m2"])
                player = rng.choice(["event", "variable"])
                if scope != "global" and any(g["scope"] == scope and g["player"] == player for g in groups):
                    continue
                g = {"g": len(groups), "scope": scope, "player": player}
                n_before = len(subs)
                for _ in range(rng.choice([1, 1, 2])):
                    tree = cond_tree(rng, pool, env, ["zz"], so=True, seen=seen)
                    if tree_uses_names(tree):
                        continue
                    text = to_text(tree)
                    if (player, text) in texts or len(text) > 300 or any(c in text for c in "{}"):
                        continue
                    texts.add((player, text))
                    subs.append({"id": len(subs), "player": player, "scope": scope, "group": g["g"], "tree": tree, "text": text})
                if len(subs) > n_before:
                    groups.append(g)
                else:
                    continue
        except TooBig:
            continue
        if len(groups) < 2:
            continue
        # the groups: machine-wide ones one by one, the groups of a mode together (mode start / stop)
        units = [g["g"] for g in groups if g["scope"] == "global"] + sorted(set(g["scope"] for g in groups if g["scope"] != "global"))
        alive = set()
        steps = []
        order = list(units)
        rng.shuffle(order)
        for u in order:
            if rng.random() < 0.85:
                steps.append(["reg" if isinstance(u, int) else "mstart", u])
                alive.add(u)
        for _ in range(rng.choice([2, 3, 4, 6, 8])):
            r = rng.random()
            if r < 0.55 or not units:
                steps.append(["ch", change_for_read(rng, rng.choice(pool), game, allow_none_pv=False, seen=seen)])
            elif r < 0.80 and alive:
                u = rng.choice(sorted(alive, key=str))
                alive.discard(u)
                steps.append(["unreg" if isinstance(u, int) else "mstop", u])
            else:
                dead = [u for u in units if u not in alive]
                if not dead:
                    continue
                u = rng.choice(dead)
                alive.add(u)
                steps.append(["reg" if isinstance(u, int) else "mstart", u])
        case = {"env": env, "subs": subs, "groups": groups, "steps": steps}
        try:
            flags = sim_subs(case)
        except TooBig:
            continue
        if flags["crash"]:
            continue
        if rng.random() < 0.5 and not subs_interesting(case):
            continue
        return case


def subs_alive_trace(case):
    """per step: the set of living entry ids after the step"""
    alive = set()
    out = []
    for st in case["steps"]:
        ids = step_ids(case, st)
        if st[0] in ("reg", "mstart"):
            alive |= set(ids)
        elif st[0] in ("unreg", "mstop"):
            alive -= set(ids)
        out.append(set(alive))
    return out


def subs_interesting(case):
    """an entry is cancelled while another one that reads a common cell lives on, and that cell changes afterwards"""
    trace = subs_alive_trace(case)
    reads = {s["id"]: set(lockey(t) for t in tree_reads(s["tree"])) for s in case["subs"]}
    env = json.loads(json.dumps(case["env"]))
    armed = set()
    for st, alive in zip(case["steps"], trace):
        if st[0] in ("unreg", "mstop"):
            for i in step_ids(case, st):
                for j in alive:
                    armed |= reads[i] & reads[j]
        elif st[0] == "ch":
            before = env_store(env)["store"]
            apply_env_change(env, st[1])
            if set(store_diff(before, env_store(env)["store"])) & armed:
                return True
    return False


def _patch_players(m, delivered, errors):
    """record every call of handle_subscription_change of the real players (they use __slots__: the wrapper is put on
    the class and removed again by the returned function)"""
    undo = []
    for name, section in SUB_PLAYERS.items():
        pl = m.show_controller.show_players[section]
        cls = type(pl)
        had = "handle_subscription_change" in cls.__dict__
        orig = cls.handle_subscription_change

        def wrapper(self, value, settings, priority, context, key, _name=name, _orig=orig):
            rec = delivered.setdefault((_name, context, key), {"n": 0, "last": None})
            rec["n"] += 1
            rec["last"] = {"v": tagv(value)}
            try:
                return _orig(self, value, settings, priority, context, key)
            except BaseException as ex:   # noqa
                if isinstance(ex, (KeyboardInterrupt, SystemExit)):
                    raise
                errors.append("%s consumer: %s: %s" % (_name, type(ex).__name__, str(ex)[:120]))
        cls.handle_subscription_change = wrapper
        undo.append((cls, had, orig))

    def restore():
        for cls, had, orig in undo:
            if had:
                cls.handle_subscription_change = orig
            else:
                del cls.handle_subscription_change
    return restore


def sub_raw_config(case, group):
    cfg = {}
    for s in case["subs"]:
        if s["group"] == group["g"]:
            if group["player"] == "event":
                cfg["{%s}" % s["text"]] = "c16_sub_%d" % s["id"]
            else:
                cfg["{%s}" % s["text"]] = {"c16_out_%d" % s["id"]: {"action": "set_machine", "int": "1 if value else 0"}}
    return cfg


def run_subs(case):
    e = case["env"]
    rig = _expr_rig(bool(e["game"]))
    m = rig.machine
    pm = m.placeholder_manager
    delivered, errors = {}, []
    out = {"steps": []}
    keys = {}
    restore = None
    try:
        setup_env(rig, e)
        if e["game"]:
            setup_players(rig, e)
        for mo in SUB_MODES:
            if m.modes[mo].active:
                m.events.post(mo + "_stop")
        rig.advance(0.05)
        players = {n: m.show_controller.show_players[sec] for n, sec in SUB_PLAYERS.items()}
        restore = _patch_players(m, delivered, errors)
        for g in case["groups"]:
            if g["scope"] != "global":
                mode = m.modes[g["scope"]]
                players[g["player"]].process_mode_config(sub_raw_config(case, g), mode.config, mode)
        alive = set()

        def key_of(s):
            return (s["player"], "_global" if s["scope"] == "global" else s["scope"], s["text"])
        for st in case["steps"]:
            before = {s["id"]: delivered.get(key_of(s), {"n": 0})["n"] for s in case["subs"]}
            k = st[0]
            if k == "ch":
                apply_real_change(rig, st[1])
            elif k == "reg":
                g = case["groups"][st[1]]
                pl = players[g["player"]]
                keys[st[1]] = pl.register_player_events(pl.validate_config(sub_raw_config(case, g)))
            elif k == "unreg":
                players[case["groups"][st[1]]["player"]].unload_player_events(keys.pop(st[1]))
            elif k == "mstart":
                m.events.post(st[1] + "_start")
            elif k == "mstop":
                m.events.post(st[1] + "_stop")
            rig.advance(0.05)
            ids = step_ids(case, st)
            if k in ("reg", "mstart"):
                alive |= set(ids)
            elif k in ("unreg", "mstop"):
                alive -= set(ids)
            if k in ("mstart", "mstop") and bool(m.modes[st[1]].active) != (k == "mstart"):
                raise RuntimeError("mode %s did not %s" % (st[1], k))
            obs = {}
            for s in case["subs"]:
                rec = delivered.get(key_of(s), {"n": 0, "last": None})
                obs[str(s["id"])] = {"alive": s["id"] in alive, "fired": rec["n"] > before[s["id"]], "last": rec["last"],
                                     "fresh": mpf_eval(pm, "raw", s["text"], None, [], subscribe=True)}
            out["steps"].append(obs)
        if rig.machine.stop_future.done() or rig.exception() is not None:
            raise RuntimeError("machine stopped: %r" % (rig.exception(),))
    except BaseException as ex:   # noqa
        if isinstance(ex, (KeyboardInterrupt, SystemExit)):
            raise
        out["exc"] = type(ex).__name__ + ": " + str(ex)[:200]
        if restore:
            restore()
        _R.pop("expr_game" if e["game"] else "expr", None)
        try:
            rig.stop()
        except BaseException:   # noqa
            pass
        return out
    # leave the machine as it was found
    for gi in list(keys):
        players[case["groups"][gi]["player"]].unload_player_events(keys.pop(gi))
    for mo in SUB_MODES:
        if m.modes[mo].active:
            m.events.post(mo + "_stop")
    rig.advance(0.05)
    for mo in SUB_MODES:
        for sec in SUB_SECTION.values():
            m.modes[mo].config.pop(sec, None)
    restore()
    if errors:
        out["consumer_errors"] = errors[:3]
    return out


def oracle_subs(case, out):
    if sim_subs(case)["crash"]:
        return []
    if "exc" in out:
        return [{"sig": "subscription-loop-raises", "what": "running the config-player entries raised %s" % out["exc"]}]
    cancelled = []
    for si, (st, obs) in enumerate(zip(case["steps"], out["steps"])):
        if st[0] in ("unreg", "mstop"):
            cancelled += step_ids(case, st)
        for s in case["subs"]:
            o = obs[str(s["id"])]
            if not o["alive"]:
                continue
            if o["last"] is None:
                return [{"sig": "subscriber-never-called", "what": "entry {%s} was registered but its consumer was never called" % s["text"]}]
            if "exc" in o["fresh"]:
                continue
            if not py_equal(o["last"], o["fresh"]):
                return [{"sig": "stale-value-concurrent-subscribers",
                         "what": "%s_player entry {%s} (%s) still holds %r after step %d (%r) but the template now evaluates to %r%s"
                                 % (s["player"], s["text"], s["scope"], o["last"], si, st, o["fresh"],
                                    "; entries %r had been unloaded before" % sorted(set(cancelled)) if cancelled else "")}]
    if out.get("consumer_errors"):
        return [{"sig": "subscription-consumer-raises", "what": "; ".join(out["consumer_errors"])}]
    return []


def coq_subs(case, out):
    flags = sim_subs(case)
    if flags["crash"] or flags["unsup"] or "exc" in out:
        return None
    steps = []
    for st in case["steps"]:
        if st[0] == "ch":
            steps.append("(MChange %s)" % cchange(st[1]))
        else:
            steps.append("(%s %s)" % ("MStart" if st[0] in ("reg", "mstart") else "MCancel", coqlist(zlit(i) for i in step_ids(case, st))))
    inp = "(%s, %s, %s)" % (cenv(case["env"]), coqlist("(%d, %s)" % (s["id"], cexpr(s["tree"])) for s in case["subs"]), coqlist(steps))
    exp = []
    for obs in out["steps"]:
        row = []
        for s in case["subs"]:
            o = obs[str(s["id"])]
            if not o["alive"]:
                row.append("(%d, @None (bool * outcome))" % s["id"])
                continue
            if o["last"] is None:
                return "(%s, [])" % inp          # registered but never called: cannot agree with the model
            c = coutcome(o["last"])
            if c is None:
                return None
            row.append("(%d, Some (%s, %s))" % (s["id"], blit(o["fired"]), c))
        exp.append(coqlist(row))
    return "(%s, %s)" % (inp, coqlist(exp))


def shrink_subs(case):
    st = case["steps"]
    for i in range(len(st)):
        c = dict(case)
        c["steps"] = st[:i] + st[i + 1:]
        if c["steps"] and subs_steps_valid(c):
            yield c
    for s in case["subs"]:
        if len([x for x in case["subs"] if x["group"] == s["group"]]) > 1:
            c = dict(case)
            c["subs"] = [x for x in case["subs"] if x["id"] != s["id"]]
            yield c
    for i, s in enumerate(case["subs"]):
        for t in shrink_tree(s["tree"]):
            if tree_uses_names(t):
                continue
            try:
                text = to_text(t)
            except Exception:
                continue
            if any(x["text"] == text and x["player"] == s["player"] for x in case["subs"]):
                continue
            c = dict(case)
            c["subs"] = case["subs"][:i] + [dict(s, tree=t, text=text)] + case["subs"][i + 1:]
            try:
                if sim_subs(c)["crash"]:
                    continue
            except TooBig:
                continue
            yield c


def subs_steps_valid(case):
    alive = set()
    for st in case["steps"]:
        if st[0] in ("reg", "mstart"):
            if st[1] in alive:
                return False
            alive.add(st[1])
        elif st[0] in ("unreg", "mstop"):
            if st[1] not in alive:
                return False
            alive.discard(st[1])
    return True


def nontrivial_subs(case, out):
    return subs_interesting(case)


def describe_subs(case):
    return "entries=%d %s" % (len(case["subs"]), "cancel-then-change" if subs_interesting(case) else "plain")


HDR_SUBS = "From C16 Require Import Multi.\nDefinition run := multi_run.\nDefinition out_eqb := multi_out_eqb.\n" + names_header()

# ================================================================================================
HDR_OPS = "From C16 Require Import Model.\nDefinition run := ops_run.\nDefinition out_eqb := res_eqb.\n" + names_header()
HDR_EXPR = "From C16 Require Import Model.\nDefinition run := expr_run.\nDefinition out_eqb := expr_out_eqb.\n" + names_header()

SUITES = [
    Suite("ops", gen_ops, run_ops, HDR_OPS, coq_ops, oracle_ops, shrink_ops, None,
          {"quick": 5000, "thorough": 200000}, describe=describe_ops, shard=800),
    Suite("expr", gen_expr, run_expr, HDR_EXPR, coq_expr, oracle_expr, shrink_expr, nontrivial_expr,
          {"quick": 3200, "thorough": 150000}, describe=describe_expr, shard=250),
    Suite("hist", gen_hist, run_hist, HDR_HIST, coq_hist, oracle_hist, shrink_hist, nontrivial_hist,
          {"quick": 1400, "thorough": 40000}, describe=describe_hist, shard=150),
    Suite("ext", gen_ext, run_expr, None, None, oracle_expr, shrink_expr, nontrivial_expr,
          {"quick": 800, "thorough": 50000}, describe=describe_expr),
    Suite("cond", gen_cond, run_cond, HDR_COND, coq_cond, oracle_cond, shrink_cond, nontrivial_cond,
          {"quick": 1000, "thorough": 40000}, describe=describe_cond, shard=200),
    Suite("subs", gen_subs, run_subs, HDR_SUBS, coq_subs, oracle_subs, shrink_subs, nontrivial_subs,
          {"quick": 600, "thorough": 25000}, describe=describe_subs, shard=150),
]
