"""C16 — Templates evaluate like Python and never act on stale values."""
import ast
import json
import math
import os

from vlib import Suite, zlit, zlist, coqlist, blit

ID = "C16"
READY = True
RULE = ("ops: operator x operand pairs over all type combinations of None/bool/int/str(/float, oracle only), boundary "
        "ints (0, +-1, 2^31, 10^18), empty/equal/prefix strings; CPython's own operators are the observed side, MPF's "
        "evaluate of 'a <op> b' is checked by the oracle.  expr: random expressions (<= 25 nodes) over parameters, "
        "machine variables, settings, a monitored device attribute and player variables (outside a game), printed "
        "with ast.unparse, evaluated by raw/bool/int templates with evaluate and evaluate_and_subscribe; non-trivial = "
        "at least 3 operator nodes or a store read; distinct by case hash.  ext (oracle only): floats, tuples, "
        "subscripts.  hist: a template subscribed on the real machine, then 1-8 changes of machine variables "
        "(set/remove), settings, player variables and switch states; non-trivial = at least one change of a location "
        "the template reads")
TRUSTED_BASE = [
    "Coq 8.16.1 kernel (coqc); vm_compute for evaluating the model in the correspondence run; no native_compute",
    "axioms: none (every Print Assumptions is 'Closed under the global context')",
    "translator harness/props/c16.py::translate (Python ast of the three dict literals -> coq/C16/gen/Tables.v), fail-closed",
    "hand-written model coq/C16/{Syntax,Model}.v tied to the working tree by correspondence on every run: py_* against "
    "CPython's own operators, tmpl_eval/evaluate/evaluate_and_subscribe and the subscriber loop against the real "
    "PlaceholderManager on a booted machine",
    "CPython 3.12 as the definition of 'Python's operator semantics'; ast.parse/ast.unparse (the expression tree handed "
    "to the model is the tree MPF parses: checked by dump equality on every generated case)",
]
ASSUMPTIONS = [
    "floats, tuples, subscripts and '%' string formatting are outside the Coq model (oracle-only suite 'ext' and the "
    "float part of 'ops' exercise them on the implementation)",
    "parameters are not named like the global placeholders (machine, settings, device, mode, current_player, players, game, true, false)",
    "a setting is changed through SettingsController.set_setting_value or by writing a VALID value to its backing machine variable (two of the three settings have machine_var: different from their name); invalid raw values and removal of a backing variable are not generated",
    "ZeroDivisionError / unsupported operators escape as AssertionError: not a value, outside the property's claim",
]
LEVEL_TEXT = ("Machine-checked proof (Coq) over a deep embedding of the template expression grammar: MPF's walk, parameterised "
              "by the operator tables regenerated from the source on every run, equals Python's evaluation for every expression "
              "and environment of the modelled domain (None/bool/int/str), type errors and missing variables give the default, "
              "every location read is subscribed, the outcome can only change when a subscribed location changes, and the "
              "re-evaluate/re-subscribe loop never holds a stale value after any history of announced changes.")
LEVEL_NOTE = ("Trusted: Coq kernel + vm_compute; no axioms. Tables translated (T); walker hand-modelled (H) and validated "
              "differentially against the working tree on every run; floats/tuples/subscripts validated by the oracle only.")
TECHNIQUE = "Coq proof over translated tables + hand-written executable model; differential correspondence (vm_compute); direct oracle against CPython"
DESIGN_REF = "DESIGN.md section 3, C16"

# ================================================================================================
# (T) translation of the operator tables
AST_KEYS = {"Add": "KAdd", "Sub": "KSub", "Mult": "KMult", "Div": "KDiv", "FloorDiv": "KFloorDiv", "Mod": "KMod",
            "Pow": "KPow", "BitXor": "KBitXor", "BitAnd": "KBitAnd", "BitOr": "KBitOr", "LShift": "KLShift",
            "RShift": "KRShift", "MatMult": "KMatMult", "USub": "KUSub", "Not": "KNot", "UAdd": "KUAdd",
            "Invert": "KInvert"}
CMP_KEYS = {"Eq": "CEq", "NotEq": "CNotEq", "Lt": "CLt", "LtE": "CLtE", "Gt": "CGt", "GtE": "CGtE", "Is": "CIs",
            "IsNot": "CIsNot", "In": "CIn", "NotIn": "CNotIn"}
BOOL_KEYS = {"And": "BAnd", "Or": "BOr"}
PRIMS = {"add": "P_add", "sub": "P_sub", "mul": "P_mul", "truediv": "P_truediv", "floordiv": "P_floordiv",
         "mod": "P_mod", "pow": "P_pow", "xor": "P_xor", "and_": "P_and_", "or_": "P_or_", "neg": "P_neg",
         "not_": "P_not_", "pos": "P_pos", "invert": "P_invert", "inv": "P_invert", "eq": "P_eq", "ne": "P_ne",
         "lt": "P_lt", "le": "P_le", "gt": "P_gt", "ge": "P_ge"}


def _table(tree, name, opmod):
    for node in tree.body:
        if isinstance(node, ast.Assign) and len(node.targets) == 1 and isinstance(node.targets[0], ast.Name) \
                and node.targets[0].id == name:
            if not isinstance(node.value, ast.Dict):
                raise ValueError("translate:placeholder_manager.py:%s is not a dict literal" % name)
            out = {}
            for k, v in zip(node.value.keys, node.value.values):
                if not (isinstance(k, ast.Attribute) and isinstance(k.value, ast.Name) and k.value.id == "ast"):
                    raise ValueError("translate:placeholder_manager.py:%s key %s" % (name, ast.dump(k) if k else k))
                if k.attr in out:
                    raise ValueError("translate:placeholder_manager.py:%s duplicate key %s" % (name, k.attr))
                out[k.attr] = _prim(v, name, opmod)
            return out
    raise ValueError("translate:placeholder_manager.py:%s not found" % name)


def _prim(v, name, opmod):
    if isinstance(v, ast.Attribute) and isinstance(v.value, ast.Name) and v.value.id == opmod and v.attr in PRIMS:
        return PRIMS[v.attr]
    if isinstance(v, ast.Lambda):
        a = v.args
        if len(a.args) == 2 and not (a.vararg or a.kwarg or a.kwonlyargs or a.defaults or a.posonlyargs) and \
                isinstance(v.body, ast.BoolOp) and len(v.body.values) == 2 and \
                all(isinstance(x, ast.Name) for x in v.body.values):
            p, q = a.args[0].arg, a.args[1].arg
            x, y = v.body.values[0].id, v.body.values[1].id
            kind = "and" if isinstance(v.body.op, ast.And) else "or"
            if (x, y) == (p, q) and p != q:
                return "B_" + kind
            if (x, y) == (q, p) and p != q:
                return "B_%s_flip" % kind
    raise ValueError("translate:placeholder_manager.py:%s unsupported entry %s" % (name, ast.unparse(v)))


def translate(repo, gendir):
    src = open(os.path.join(repo, "mpf", "core", "placeholder_manager.py")).read()
    tree = ast.parse(src)
    opmod = None
    for node in tree.body:
        if isinstance(node, ast.Import):
            for al in node.names:
                if al.name == "operator":
                    opmod = al.asname or "operator"
    if opmod is None:
        raise ValueError("translate:placeholder_manager.py: 'import operator' not found")
    ops = _table(tree, "OPERATORS", opmod)
    bops = _table(tree, "BOOL_OPERATORS", opmod)
    cmps = _table(tree, "COMPARISONS", opmod)
    for k in ops:
        if k not in AST_KEYS:
            raise ValueError("translate:placeholder_manager.py:OPERATORS key ast.%s not representable" % k)
    for k in cmps:
        if k not in CMP_KEYS:
            raise ValueError("translate:placeholder_manager.py:COMPARISONS key ast.%s not representable" % k)
    for k in bops:
        if k not in BOOL_KEYS:
            raise ValueError("translate:placeholder_manager.py:BOOL_OPERATORS key ast.%s not representable" % k)
    for k, v in list(ops.items()) + list(cmps.items()):
        if v.startswith("B_"):
            raise ValueError("translate: lambda in OPERATORS/COMPARISONS")
    for v in bops.values():
        if not v.startswith("B_"):
            raise ValueError("translate: BOOL_OPERATORS entry is not the and/or lambda")
    # the walker itself is hand-modelled: guard the shape of the code the model mirrors
    _shape_guard(tree)

    def fn(name, ty, rty, keys, tab):
        lines = ["Definition %s (o : %s) : option %s :=\n  match o with" % (name, ty, rty)]
        for py, cq in keys.items():
            lines.append("  | %s => %s" % (cq, "Some " + tab[py] if py in tab else "None"))
        lines.append("  end.\n")
        return "\n".join(lines)
    txt = ("(* GENERATED on every run by harness/props/c16.py::translate from the dict literals OPERATORS,\n"
           "   BOOL_OPERATORS and COMPARISONS of mpf/core/placeholder_manager.py.  Do not edit. *)\n"
           "From C16 Require Import Syntax.\n\n")
    txt += fn("operators", "opkey", "prim", AST_KEYS, ops)
    txt += fn("comparisons", "cmpkey", "prim", CMP_KEYS, cmps)
    txt += fn("bool_operators", "boolkey", "bprim", BOOL_KEYS, bops)
    os.makedirs(gendir, exist_ok=True)
    p = os.path.join(gendir, "Tables.v")
    if not os.path.exists(p) or open(p).read() != txt:
        with open(p, "w") as f:
            f.write(txt)


def _shape_guard(tree):
    """fail closed when the walker methods the hand model mirrors disappear or change their signature"""
    want = {"_eval_if", "_eval_bin_op", "_eval_unary_op", "_eval_compare", "_eval_bool_op", "_eval_attribute",
            "_eval_subscript", "_eval_name", "_eval", "evaluate_template", "evaluate_and_subscribe_template"}
    have = {}
    for node in tree.body:
        if isinstance(node, ast.ClassDef) and node.name == "BasePlaceholderManager":
            for f in node.body:
                if isinstance(f, ast.FunctionDef):
                    have[f.name] = [a.arg for a in f.args.args]
    for w in want:
        if w not in have:
            raise ValueError("translate:placeholder_manager.py:BasePlaceholderManager.%s missing" % w)
    for w in ("_eval_if", "_eval_bin_op", "_eval_unary_op", "_eval_compare", "_eval_bool_op"):
        if have[w] != ["self", "node", "variables", "subscribe"]:
            raise ValueError("translate:placeholder_manager.py:%s signature changed" % w)


# ================================================================================================
# values as JSON: explicit type tags (floats as repr)
def tagv(v):
    if v is None:
        return ["n"]
    if isinstance(v, bool):
        return ["b", v]
    if isinstance(v, int):
        return ["i", str(v)]
    if isinstance(v, float):
        return ["f", repr(v)]
    if isinstance(v, str):
        return ["s", v]
    if isinstance(v, tuple):
        return ["t", [tagv(x) for x in v]]
    if isinstance(v, list):
        return ["l", [tagv(x) for x in v]]
    return ["?", repr(v)[:80]]


def untag(t):
    k = t[0]
    if k == "n":
        return None
    if k == "b":
        return bool(t[1])
    if k == "i":
        return int(t[1])
    if k == "f":
        return float(t[1])
    if k == "s":
        return t[1]
    if k == "t":
        return tuple(untag(x) for x in t[1])
    if k == "l":
        return [untag(x) for x in t[1]]
    raise ValueError(t)


def cstr(s):
    return zlist([ord(c) for c in s])


def cval(t):
    k = t[0]
    if k == "n":
        return "VNone"
    if k == "b":
        return "(VBool %s)" % blit(t[1])
    if k == "i":
        return "(VInt %s)" % zlit(int(t[1]))
    if k == "s":
        return "(VStr %s)" % cstr(t[1])
    raise ValueError(k)


def in_dom(t):
    return t[0] in ("n", "b", "i", "s")


# ------------------------------------------------------------------------------------------------
# CPython's own operators (the language's bytecode, not the operator module MPF's tables name)
PY_BIN = {
    "Add": lambda a, b: a + b, "Sub": lambda a, b: a - b, "Mult": lambda a, b: a * b, "Div": lambda a, b: a / b,
    "FloorDiv": lambda a, b: a // b, "Mod": lambda a, b: a % b, "Pow": lambda a, b: a ** b,
    "BitXor": lambda a, b: a ^ b,
}
PY_UN = {"USub": lambda a: -a, "Not": lambda a: not a}
PY_CMP = {"Eq": lambda a, b: a == b, "NotEq": lambda a, b: a != b, "Lt": lambda a, b: a < b,
          "LtE": lambda a, b: a <= b, "Gt": lambda a, b: a > b, "GtE": lambda a, b: a >= b}
PY_BOOL = {"And": lambda a, b: a and b, "Or": lambda a, b: a or b}
SYM = {"Add": "+", "Sub": "-", "Mult": "*", "Div": "/", "FloorDiv": "//", "Mod": "%", "Pow": "**", "BitXor": "^",
       "Eq": "==", "NotEq": "!=", "Lt": "<", "LtE": "<=", "Gt": ">", "GtE": ">=", "And": "and", "Or": "or"}


class TooBig(Exception):
    pass


def guard_size(kind, op, a, b=None):
    """keep intermediate values small on both sides (the generators regenerate on TooBig)"""
    def big(x):
        return isinstance(x, (int, float)) and not isinstance(x, bool) and abs(x) > 64
    if op == "Pow" and (big(b) or (isinstance(a, int) and abs(a) > 2 ** 64)):
        raise TooBig()
    if op == "Mult" and ((isinstance(a, (str, tuple)) and big(b)) or (isinstance(b, (str, tuple)) and big(a))):
        raise TooBig()


def check_size(v):
    if isinstance(v, int) and not isinstance(v, bool) and abs(v) > 2 ** 512:
        raise TooBig()
    if isinstance(v, (str, tuple)) and len(v) > 400:
        raise TooBig()
    return v


def py_apply(kind, op, a, b=None):
    """-> ("val", v) | ("type",) | ("zero",) | ("other", name)"""
    import warnings
    try:
        with warnings.catch_warnings():
            warnings.simplefilter("ignore")
            if kind == "bin":
                r = PY_BIN[op](a, b)
                if isinstance(r, complex):
                    return ("other", "complex")
                return ("val", r)
            if kind == "un":
                return ("val", PY_UN[op](a))
            if kind == "cmp":
                return ("val", PY_CMP[op](a, b))
            return ("val", PY_BOOL[op](a, b))
    except TypeError:
        return ("type",)
    except ZeroDivisionError:
        return ("zero",)
    except Exception as e:     # OverflowError, ValueError (e.g. negative shift), ...
        return ("other", type(e).__name__)


def has_float(v):
    if isinstance(v, float) or isinstance(v, complex):
        return True
    if isinstance(v, (tuple, list)):
        return any(has_float(x) for x in v)
    return False


# ================================================================================================
# suite "ops": reference semantics against CPython, and MPF's evaluate of 'a <op> b' by the oracle
INTS = [0, 1, -1, 2, -2, 3, 7, -7, 10, 12, 63, 64, -64, 255, 2 ** 31, -2 ** 31 - 1, 10 ** 18, -10 ** 18 + 3]
STRS = ["", "a", "b", "ab", "abc", "aB", "A", "é", "ab ", "0", "10", "9", "€", "a😀", "zz"]
FLOATS = [0.0, -0.0, 0.5, -1.5, 2.0, 1e16, 0.1, 3.0000000000000004, float("inf"), float("nan"), 1e308]


def rvalue(rng, floats=False):
    r = rng.random()
    if r < 0.10:
        return None
    if r < 0.25:
        return rng.choice([True, False])
    if r < 0.62:
        return rng.choice(INTS) if rng.random() < 0.7 else rng.randint(-40, 40)
    if floats and r < 0.72:
        return rng.choice(FLOATS) if rng.random() < 0.7 else rng.randint(-40, 40) / 8
    return rng.choice(STRS)


def gen_ops(rng, tier, i):
    floats = rng.random() < 0.15
    kind = rng.choice(["bin", "bin", "bin", "cmp", "cmp", "un", "bool"])
    op = rng.choice(list({"bin": PY_BIN, "un": PY_UN, "cmp": PY_CMP, "bool": PY_BOOL}[kind]))
    while True:
        a = rvalue(rng, floats)
        b = rvalue(rng, floats) if kind != "un" else None
        if rng.random() < 0.15 and kind != "un":
            b = a                                              # coincidences: equal operands
        try:
            guard_size(kind, op, a, b)
            r = py_apply(kind, op, a, b)
            if r[0] == "val":
                check_size(r[1])
        except TooBig:
            continue
        return {"kind": kind, "op": op, "a": tagv(a), "b": tagv(b) if kind != "un" else None}


_R = {}


def _ops_rig():
    from rig import Rig
    if "ops" not in _R:
        _R["ops"] = Rig({}).start()
    return _R["ops"]


def mpf_eval(pm, kind, text, default, params, subscribe=False):
    """-> {"v": tagged} | {"exc": name}"""
    import asyncio
    try:
        if kind == "raw":
            t = pm.build_raw_template(text, default)
        elif kind == "bool":
            t = pm.build_bool_template(text, default)
        else:
            t = pm.build_int_template(text, default)
        if subscribe:
            v, fut = t.evaluate_and_subscribe(params)
            if isinstance(fut, asyncio.Future):
                fut.cancel()
            return {"v": tagv(v)}
        return {"v": tagv(t.evaluate(params))}
    except BaseException as e:   # noqa
        if isinstance(e, (KeyboardInterrupt, SystemExit)):
            raise
        c = e.__cause__
        return {"exc": type(e).__name__, "cause": type(c).__name__ if c is not None else None}


def run_ops(case):
    a = untag(case["a"])
    b = untag(case["b"]) if case["b"] is not None else None
    kind, op = case["kind"], case["op"]
    r = py_apply(kind, op, a, b)
    out = {"py": [r[0]] + ([tagv(r[1])] if r[0] == "val" else list(r[1:]))}
    rig = _ops_rig()
    pm = rig.machine.placeholder_manager
    if kind == "un":
        text = ("-a" if op == "USub" else "not a")
    else:
        text = "a %s b" % SYM[op]
    out["mpf"] = mpf_eval(pm, "raw", text, "DEFAULT", {"a": a, "b": b})
    rig.advance(0)
    return out


def coq_ops(case, out):
    ts = [case["a"]] + ([case["b"]] if case["b"] is not None else [])
    if not all(in_dom(t) for t in ts):
        return None
    r = out["py"]
    if r[0] == "val":
        if not in_dom(r[1]):
            return None                                       # float result: outside the modelled domain
        exp = "(Val %s)" % cval(r[1])
    elif r[0] == "type":
        if case["kind"] == "bin" and case["op"] == "Mod" and case["a"][0] == "s" and "%" in case["a"][1]:
            return None
        exp = "TypeErr"
    elif r[0] == "zero":
        exp = "ZeroDiv"
    else:
        return None
    kind, op = case["kind"], case["op"]
    if kind == "bin":
        inp = "(OBin %s %s %s)" % (AST_KEYS[op], cval(case["a"]), cval(case["b"]))
    elif kind == "un":
        inp = "(OUn %s %s)" % (AST_KEYS[op], cval(case["a"]))
    elif kind == "cmp":
        inp = "(OCmp %s %s %s)" % (CMP_KEYS[op], cval(case["a"]), cval(case["b"]))
    else:
        inp = "(OBool %s %s %s)" % (BOOL_KEYS[op], cval(case["a"]), cval(case["b"]))
    return "(%s, %s)" % (inp, exp)


def expect_evaluate(ref, kind, default):
    """what BaseTemplate.evaluate must return by the property; None = no claim.
    ref: ("val", v) | ("type",) | ("name",) | ("read",) | others"""
    if ref[0] == "val":
        v = ref[1]
        if v is None:
            return {"v": tagv(default)}
        try:
            return {"v": tagv(v if kind == "raw" else bool(v) if kind == "bool" else int(v))}
        except Exception:
            return None
    if ref[0] in ("type", "name", "read"):
        return {"v": tagv(default)}
    return None


def expect_subscribe(ref, kind, default):
    def conv(v):
        return v if kind == "raw" else bool(v) if kind == "bool" else int(v)
    try:
        if ref[0] == "val":
            return {"v": tagv(conv(default if ref[1] is None else ref[1]))}
        if ref[0] in ("type", "read"):
            return {"v": tagv(conv(default))}
    except Exception:
        return None
    return None


def same_out(got, want):
    return "v" in got and json.dumps(got["v"]) == json.dumps(want["v"])


def oracle_ops(case, out):
    r = out["py"]
    ref = ("val", untag(r[1])) if r[0] == "val" else tuple(r)
    want = expect_evaluate(ref, "raw", "DEFAULT")
    if want is None or same_out(out["mpf"], want):
        return []
    if case["kind"] == "un" and case["op"] == "USub" and r[0] == "type" and out["mpf"].get("exc") == "AssertionError" \
            and out["mpf"].get("cause") == "TypeError":
        return [{"sig": "unary-typeerror-escapes",
                 "what": "unary minus on a non-number raises AssertionError instead of giving the template's default"}]
    return [{"sig": "operator-differs-from-python",
             "what": "%s %s on %s/%s: python %r, template %r" % (case["kind"], case["op"], case["a"], case["b"], r, out["mpf"])}]


def shrink_ops(case):
    for key in ("a", "b"):
        t = case[key]
        if t is None:
            continue
        for small in (["i", "0"], ["i", "1"], ["s", ""], ["s", "a"], ["n"]):
            if t != small and t[0] == small[0]:
                c = dict(case)
                c[key] = small
                yield c


def describe_ops(case):
    return "%s %s %s%s" % (case["kind"], case["op"], case["a"][0], case["b"][0] if case["b"] else "")


# ================================================================================================
# suite "expr": expressions on the real PlaceholderManager
PARAMS = ["p", "q", "r", "s"]
MVARS = ["mv_a", "mv_b", "mv_c", "mv_d"]
PVARS = ["pv_a", "pv_b"]
SETTINGS = {"s_a": {"label": "A", "sort": 1, "key_type": "int", "default": "0",
                    "values": {"0": "zero", "1": "one", "2": "two", "5": "five"}},
            # settings whose backing machine variable is NOT named like the setting (machine_var: indirection)
            "s_b": {"label": "B", "sort": 2, "key_type": "str", "default": "lo", "machine_var": "sb_backing",
                    "values": {"lo": "low", "hi": "high", "x": "ex"}},
            "s_c": {"label": "C", "sort": 3, "key_type": "int", "default": "1", "machine_var": "other_name_c",
                    "values": {"1": "one", "2": "two", "3": "three"}}}
SETTING_VALUES = {"s_a": [0, 1, 2, 5], "s_b": ["lo", "hi", "x"], "s_c": [1, 2, 3]}
SETTING_DEFAULT = {"s_a": 0, "s_b": "lo", "s_c": 1}
SETTING_MV = {"s_a": "s_a", "s_b": "sb_backing", "s_c": "other_name_c"}
SWITCHES = ["sw_a", "sw_b"]
MACHINE_CONFIG = {"settings": SETTINGS,
                  "switches": {"sw_a": {"number": "1"}, "sw_b": {"number": "2"}, "s_start": {"number": "3", "tags": "start"}}}

LITS = [0, 1, 2, 3, 5, 7, 10, 64, 255, 2 ** 31, 10 ** 18]


def rlit(rng, ext):
    r = rng.random()
    if r < 0.50:
        return ["num", str(rng.choice(LITS) if rng.random() < 0.8 else rng.randint(0, 40))]
    if r < 0.72:
        return ["str", rng.choice(STRS)]
    if r < 0.82:
        return ["none"]
    if ext and r < 0.92:
        return ["flt", repr(abs(rng.choice([0.5, 1.5, 2.0, 0.1, 1e16, 3.25])))]
    return ["bool", rng.random() < 0.5]


def rleaf(rng, ext, names):
    r = rng.random()
    if r < 0.35:
        return rlit(rng, ext)
    if r < 0.60:
        return ["name", rng.choice(names)]
    if r < 0.78:
        return ["read", "machine", rng.choice(MVARS)]
    if r < 0.86:
        return ["read", "settings", rng.choice(list(SETTINGS))]
    if r < 0.94:
        return ["read", "device", rng.choice(SWITCHES)]
    return ["read", "player", rng.choice(PVARS)]


def rexpr(rng, budget, ext, names):
    if budget <= 1 or rng.random() < 0.12:
        return rleaf(rng, ext, names)
    r = rng.random()
    if r < 0.38:
        k = budget - 1
        la = rng.randint(1, max(1, k - 1))
        return ["bin", rng.choice(list(PY_BIN)), rexpr(rng, la, ext, names), rexpr(rng, k - la, ext, names)]
    if r < 0.50:
        return ["un", rng.choice(["USub", "USub", "Not"]), rexpr(rng, budget - 1, ext, names)]
    if r < 0.70:
        k = budget - 1
        la = rng.randint(1, max(1, k - 1))
        return ["cmp", rng.choice(list(PY_CMP)), rexpr(rng, la, ext, names), rexpr(rng, k - la, ext, names)]
    if r < 0.85:
        n = rng.choice([2, 2, 3, 4])
        k = max(n, budget - 1)
        return ["boolop", rng.choice(["And", "Or"]), [rexpr(rng, max(1, k // n), ext, names) for _ in range(n)]]
    if ext and r < 0.90:
        n = rng.choice([0, 1, 2, 3])
        return ["tuple", [rexpr(rng, max(1, (budget - 1) // max(n, 1)), ext, names) for _ in range(n)]]
    if ext and r < 0.95:
        return ["sub", rexpr(rng, max(1, budget - 2), ext, names), rexpr(rng, 2, ext, names)]
    k = budget - 1
    return ["if", rexpr(rng, max(1, k // 3), ext, names), rexpr(rng, max(1, k // 3), ext, names),
            rexpr(rng, max(1, k // 3), ext, names)]


def to_ast(t):
    k = t[0]
    if k == "num":
        return ast.Constant(int(t[1]))
    if k == "flt":
        return ast.Constant(float(t[1]))
    if k == "str":
        return ast.Constant(t[1])
    if k == "none":
        return ast.Constant(None)
    if k == "bool":
        return ast.Constant(bool(t[1]))
    if k == "name":
        return ast.Name(t[1], ast.Load())
    if k == "read":
        if t[1] == "machine":
            return ast.Attribute(ast.Name("machine", ast.Load()), t[2], ast.Load())
        if t[1] == "settings":
            return ast.Attribute(ast.Name("settings", ast.Load()), t[2], ast.Load())
        if t[1] == "player":
            return ast.Attribute(ast.Name("current_player", ast.Load()), t[2], ast.Load())
        return ast.Attribute(ast.Attribute(ast.Attribute(ast.Name("device", ast.Load()), "switches", ast.Load()),
                                           t[2], ast.Load()), "state", ast.Load())
    if k == "bin":
        return ast.BinOp(to_ast(t[2]), getattr(ast, t[1])(), to_ast(t[3]))
    if k == "un":
        return ast.UnaryOp(getattr(ast, t[1])(), to_ast(t[2]))
    if k == "cmp":
        return ast.Compare(to_ast(t[2]), [getattr(ast, t[1])()], [to_ast(t[3])])
    if k == "boolop":
        return ast.BoolOp(getattr(ast, t[1])(), [to_ast(x) for x in t[2]])
    if k == "if":
        return ast.IfExp(to_ast(t[1]), to_ast(t[2]), to_ast(t[3]))
    if k == "tuple":
        return ast.Tuple([to_ast(x) for x in t[1]], ast.Load())
    if k == "sub":
        return ast.Subscript(to_ast(t[1]), to_ast(t[2]), ast.Load())
    raise ValueError(k)


def to_text(t):
    node = ast.fix_missing_locations(ast.Expression(to_ast(t)))
    text = ast.unparse(node)
    back = ast.parse(text, mode="eval")
    if ast.dump(back.body) != ast.dump(node.body):
        raise TooBig()            # the text would not be parsed into the tree we hand to the model: regenerate
    return text


class RefErr(Exception):
    def __init__(self, kind, name=None):
        super().__init__(kind)
        self.kind = kind
        self.name = name


def ref_eval(t, env, trace):
    """Python's evaluation of the tree with all BoolOp operands evaluated; CPython's own operators.
    env: {"params": {...}, "store": {loc-key: ("val", v) | ("valerr",) | ("crash",)}}
    trace: {"reads": [...], "float": bool, "fmt": bool, "nodes": n}"""
    k = t[0]
    trace["nodes"] = trace.get("nodes", 0) + 1

    def done(r):
        if r[0] == "val":
            if has_float(r[1]):
                trace["float"] = True
            return check_size(r[1])
        if r[0] == "type":
            raise RefErr("type")
        if r[0] == "zero":
            raise RefErr("zero")
        raise RefErr("other", r[1])
    if k == "num":
        return int(t[1])
    if k == "flt":
        trace["float"] = True
        return float(t[1])
    if k == "str":
        return t[1]
    if k == "none":
        return None
    if k == "bool":
        return bool(t[1])
    if k == "name":
        if t[1] in env["params"]:
            v = env["params"][t[1]]
            if has_float(v):
                trace["float"] = True
            return v
        raise RefErr("name")
    if k == "read":
        key = lockey(t)
        trace.setdefault("reads", []).append(key)
        r = env["store"][key]
        if r[0] == "val":
            return r[1]
        raise RefErr("read" if r[0] == "valerr" else "other", "crash")
    if k == "bin":
        a = ref_eval(t[2], env, trace)
        b = ref_eval(t[3], env, trace)
        guard_size("bin", t[1], a, b)
        if t[1] == "Mod" and isinstance(a, str) and "%" in a:
            trace["fmt"] = True
        return done(py_apply("bin", t[1], a, b))
    if k == "un":
        a = ref_eval(t[2], env, trace)
        return done(py_apply("un", t[1], a))
    if k == "cmp":
        a = ref_eval(t[2], env, trace)
        b = ref_eval(t[3], env, trace)
        return done(py_apply("cmp", t[1], a, b))
    if k == "boolop":
        vals = [ref_eval(x, env, trace) for x in t[2]]
        r = vals[0]
        for v in vals[1:]:
            r = PY_BOOL[t[1]](r, v)
        return r
    if k == "if":
        c = ref_eval(t[1], env, trace)
        return ref_eval(t[2], env, trace) if c else ref_eval(t[3], env, trace)
    if k == "tuple":
        return tuple(ref_eval(x, env, trace) for x in t[1])
    if k == "sub":
        a = ref_eval(t[1], env, trace)
        i = ref_eval(t[2], env, trace)
        try:
            return a[i]
        except TypeError:
            raise RefErr("type")
        except Exception as e:
            raise RefErr("other", type(e).__name__)
    raise ValueError(k)


def ref_result(t, env):
    trace = {}
    try:
        v = ref_eval(t, env, trace)
        return ("val", v), trace
    except RefErr as e:
        return ((e.kind,) if e.kind != "other" else ("other", e.name)), trace


def lockey(t):
    return "%s.%s" % (t[1], t[2])


def gen_env(rng, ext, in_game=False):
    params = {}
    for n in PARAMS:
        if rng.random() < 0.8:
            params[n] = rvalue(rng, ext)
    if ext:
        params["tu"] = tuple(rvalue(rng, False) for _ in range(rng.randint(0, 4)))
        params["st"] = rng.choice(STRS)
    mvars = {}
    for n in MVARS:
        if rng.random() < 0.7:
            mvars[n] = rvalue(rng, False)
    settings = {n: rng.choice(SETTING_VALUES[n]) for n in SETTINGS}
    switches = {n: rng.choice([0, 1]) for n in SWITCHES}
    pvars = {}
    if in_game:
        for n in PVARS:
            if rng.random() < 0.7:
                pvars[n] = rvalue(rng, False)
    return {"params": {k: tagv(v) for k, v in params.items()}, "mvars": {k: tagv(v) for k, v in mvars.items()},
            "settings": {k: tagv(v) for k, v in settings.items()}, "switches": switches,
            "pvars": {k: tagv(v) for k, v in pvars.items()}, "in_game": in_game}


def env_store(e):
    st = {}
    for n in MVARS:
        st["machine." + n] = ("val", untag(e["mvars"][n])) if n in e["mvars"] else ("val", None)
    for n in SETTINGS:
        st["settings." + n] = ("val", untag(e["settings"][n]) if n in e["settings"] else SETTING_DEFAULT[n])
    for n in SWITCHES:
        st["device." + n] = ("val", e["switches"][n])
    for n in PVARS:
        if e["in_game"]:
            st["player." + n] = ("val", untag(e["pvars"][n])) if n in e["pvars"] else ("val", 0)
        else:
            st["player." + n] = ("valerr",)
    return {"params": {k: untag(v) for k, v in e["params"].items()}, "store": st}


DEFAULTS = {"raw": [None, 77, "DEF", False], "bool": [False, True, False, None], "int": [0, -1, 7, None]}


def gen_expr_case(rng, ext, in_game=False):
    while True:
        env = gen_env(rng, ext, in_game)
        names = PARAMS + ["zz"] + (["tu", "st"] if ext else [])
        t = rexpr(rng, rng.choice([2, 3, 5, 8, 12, 18, 25]), ext, names)
        try:
            text = to_text(t)
            ref, trace = ref_result(t, env_store(env))
        except TooBig:
            continue
        if len(text) > 600:
            continue
        kind = rng.choice(["raw", "raw", "bool", "int"])
        default = rng.choice(DEFAULTS[kind])
        return {"tree": t, "text": text, "env": env, "kind": kind, "default": tagv(default)}


def gen_expr(rng, tier, i):
    return gen_expr_case(rng, False)


def gen_ext(rng, tier, i):
    return gen_expr_case(rng, True)


def _expr_rig():
    from rig import Rig
    if "expr" not in _R:
        _R["expr"] = Rig(MACHINE_CONFIG).start()
    return _R["expr"]


def setup_env(rig, e):
    m = rig.machine
    for n in MVARS:
        m.variables.remove_machine_var(n)
    for n, t in e["mvars"].items():
        m.variables.set_machine_var(n, untag(t))
    for n in SETTINGS:
        m.settings.set_setting_value(n, untag(e["settings"][n]) if n in e["settings"] else SETTING_DEFAULT[n])
    for n, v in e["switches"].items():
        if m.switch_controller.is_active(m.switches[n]) != bool(v):
            rig.machine.switch_controller.process_switch(n, v, logical=True)
    rig.advance(0.01)


def run_expr(case):
    rig = _expr_rig()
    setup_env(rig, case["env"])
    pm = rig.machine.placeholder_manager
    params = {k: untag(v) for k, v in case["env"]["params"].items()}
    default = untag(case["default"])
    ref, trace = ref_result(case["tree"], env_store(case["env"]))
    out = {"ev": mpf_eval(pm, case["kind"], case["text"], default, params),
           "sub": mpf_eval(pm, case["kind"], case["text"], default, params, subscribe=True),
           "ref": [ref[0]] + ([tagv(ref[1])] if ref[0] == "val" else list(ref[1:])),
           "float": bool(trace.get("float")), "fmt": bool(trace.get("fmt")), "reads": trace.get("reads", [])}
    rig.advance(0)
    return out


def out_ref(out):
    r = out["ref"]
    return ("val", untag(r[1])) if r[0] == "val" else tuple(r)


def oracle_expr(case, out):
    ref = out_ref(out)
    kind, default = case["kind"], untag(case["default"])
    fails = []
    for which, want in (("ev", expect_evaluate(ref, kind, default)), ("sub", expect_subscribe(ref, kind, default))):
        if want is None or same_out(out[which], want):
            continue
        got = out[which]
        sig = "template-differs-from-python"
        if ref[0] == "type" and got.get("exc") == "AssertionError":
            sig = "typeerror-escapes"
            if got.get("cause") == "TypeError" and only_unary_minus_fails(case, out):
                sig = "unary-typeerror-escapes"
        fails.append({"sig": sig, "what": "%s of %r (%s template, default %r): python gives %r, template gives %r" %
                      ("evaluate" if which == "ev" else "evaluate_and_subscribe", case["text"], kind, default,
                       out["ref"], got)})
    return fails


def only_unary_minus_fails(case, out):
    """the recorded defect: the failing operation is a unary minus on a non-number"""
    found = []

    def walk(t, env):
        k = t[0]
        if k == "un" and t[1] == "USub":
            r, _ = ref_result(t[2], env)
            if r[0] == "val":
                a = py_apply("un", "USub", r[1])
                if a[0] == "type":
                    found.append(True)
        for x in t[1:]:
            if isinstance(x, list) and x and isinstance(x[0], str) and x[0] in (
                    "bin", "un", "cmp", "boolop", "if", "tuple", "sub", "num", "str", "name", "read", "none", "bool", "flt"):
                walk(x, env)
            elif isinstance(x, list):
                for y in x:
                    if isinstance(y, list):
                        walk(y, env)
    walk(case["tree"], env_store(case["env"]))
    return bool(found)


def cloc(key):
    kind, name = key.split(".", 1)
    if kind == "machine":
        return "(LMachine %s)" % cstr(name)
    if kind == "settings":
        return "(LSetting %s)" % cstr(name)
    if kind == "player":
        return "(LPlayer %s)" % cstr(name)
    return "(LDevice %s %s %s)" % (cstr("switches"), cstr(name), cstr("state"))


def cexpr(t):
    k = t[0]
    if k == "num":
        return "(ENum %s)" % zlit(int(t[1]))
    if k == "str":
        return "(EStr %s)" % cstr(t[1])
    if k == "none":
        return "ENone"
    if k == "bool":
        return "(EBoolC %s)" % blit(t[1])
    if k == "name":
        return "(EName %s)" % cstr(t[1])
    if k == "read":
        return "(ERead %s)" % cloc(lockey(t))
    if k == "bin":
        return "(EBin %s %s %s)" % (AST_KEYS[t[1]], cexpr(t[2]), cexpr(t[3]))
    if k == "un":
        return "(EUn %s %s)" % (AST_KEYS[t[1]], cexpr(t[2]))
    if k == "cmp":
        return "(ECmp %s %s %s)" % (CMP_KEYS[t[1]], cexpr(t[2]), cexpr(t[3]))
    if k == "boolop":
        acc = cexpr(t[2][0])
        for x in t[2][1:]:
            acc = "(EBool %s %s %s)" % (BOOL_KEYS[t[1]], acc, cexpr(x))
        return acc
    if k == "if":
        return "(EIf %s %s %s)" % (cexpr(t[1]), cexpr(t[2]), cexpr(t[3]))
    raise ValueError(k)


def cenv(e):
    params = coqlist("(%s, %s)" % (cstr(k), cval(v)) for k, v in e["params"].items())
    st = []
    for n, t in e["mvars"].items():
        st.append("(LMachine %s, RVal %s)" % (cstr(n), cval(t)))
    for n, t in e["settings"].items():
        st.append("(LSetting %s, RVal %s)" % (cstr(n), cval(t)))
    for n, v in e["switches"].items():
        st.append("(%s, RVal (VInt %d))" % (cloc("device." + n), v))
    for n, t in e["pvars"].items():
        st.append("(LPlayer %s, RVal %s)" % (cstr(n), cval(t)))
    return "(mkEnv %s %s %s)" % (params, coqlist(st), blit(e["in_game"]))


CKIND = {"raw": "KRaw", "bool": "KBoolT", "int": "KIntT"}


def coutcome(o):
    if "v" in o:
        if not in_dom(o["v"]):
            return None
        return "(OVal %s)" % cval(o["v"])
    return "OAssert"


def model_domain_expr(case, out):
    if out["float"] or out["fmt"]:
        return False
    if not all(in_dom(v) for v in case["env"]["params"].values()):
        return False
    ref = out["ref"]
    if ref[0] == "other" and ref[1] != "crash":
        return False
    if case["kind"] == "int":
        if ref[0] == "val" and ref[1][0] == "s":
            return False                                   # int("text") is not modelled
        if case["default"][0] == "s":
            return False
    return True


def cpres(ref):
    if ref[0] == "val":
        return "(PVal %s)" % cval(ref[1])
    return {"type": "PTypeErr", "zero": "PZeroDiv", "name": "PNameErr", "read": "PReadErr", "other": "PCrash"}[ref[0]]


def coq_expr(case, out):
    if not model_domain_expr(case, out):
        return None
    a, b = coutcome(out["ev"]), coutcome(out["sub"])
    if a is None or b is None:
        return None
    inp = "(%s, %s, %s, %s)" % (CKIND[case["kind"]], cval(case["default"]), cenv(case["env"]), cexpr(case["tree"]))
    return "(%s, (%s, %s, %s))" % (inp, a, b, cpres(out["ref"]))


def subtrees(t):
    k = t[0]
    if k in ("bin", "cmp"):
        return [t[2], t[3]]
    if k == "un":
        return [t[2]]
    if k in ("boolop", "tuple"):
        return list(t[2] if k == "boolop" else t[1])
    if k == "if":
        return [t[1], t[2], t[3]]
    if k == "sub":
        return [t[1], t[2]]
    return []


def replace_sub(t, path, new):
    if not path:
        return new
    t = list(t)
    k = t[0]
    i = path[0]
    if k in ("bin", "cmp"):
        t[2 + i] = replace_sub(t[2 + i], path[1:], new)
    elif k == "un":
        t[2] = replace_sub(t[2], path[1:], new)
    elif k == "boolop":
        l = list(t[2])
        l[i] = replace_sub(l[i], path[1:], new)
        t[2] = l
    elif k == "tuple":
        l = list(t[1])
        l[i] = replace_sub(l[i], path[1:], new)
        t[1] = l
    elif k in ("if", "sub"):
        t[1 + i] = replace_sub(t[1 + i], path[1:], new)
    return t


def shrink_tree(t):
    """candidates: any subtree hoisted to the root; any inner node replaced by one of its children or a literal"""
    for s in subtrees(t):
        yield s

    def paths(u, p):
        for i, s in enumerate(subtrees(u)):
            yield p + [i], s
            yield from paths(s, p + [i])
    for p, s in paths(t, []):
        for c in subtrees(s):
            yield replace_sub(t, p, c)
        if s[0] not in ("num", "none"):
            yield replace_sub(t, p, ["num", "1"])


def shrink_expr(case):
    for t in shrink_tree(case["tree"]):
        try:
            text = to_text(t)
        except Exception:
            continue
        c = dict(case)
        c["tree"] = t
        c["text"] = text
        yield c
    e = case["env"]
    for grp in ("params", "mvars"):
        for k in list(e[grp]):
            e2 = dict(e)
            e2[grp] = {a: b for a, b in e[grp].items() if a != k}
            c = dict(case)
            c["env"] = e2
            yield c


def count_nodes(t):
    return 1 + sum(count_nodes(s) for s in subtrees(t))


def has_read(t):
    return t[0] == "read" or any(has_read(s) for s in subtrees(t))


def nontrivial_expr(case, out):
    return count_nodes(case["tree"]) >= 4 or has_read(case["tree"])


def describe_expr(case):
    n = count_nodes(case["tree"])
    return "%s nodes=%s" % (case["kind"], "1-3" if n <= 3 else "4-9" if n <= 9 else "10-19" if n <= 19 else "20+")


# ================================================================================================
# suite "hist": the real re-evaluate / re-subscribe loop (ConfigPlayer._update_subscription) under change histories
def tree_reads(t):
    if t[0] == "read":
        return [lockey(t)]
    out = []
    for x in subtrees(t):
        out += tree_reads(x)
    return out


def gen_hist(rng, tier, i):
    while True:
        case = gen_expr_case(rng, False, in_game=True)
        if rng.random() < 0.85 and not has_read(case["tree"]):
            continue
        if tree_uses_names(case["tree"]):
            continue                      # the loop evaluates with parameters []: a name always raises
        break
    case["kind"] = rng.choice(["raw", "raw", "bool"])
    case["default"] = tagv(rng.choice(DEFAULTS[case["kind"]]))
    case["env"]["params"] = {}
    rd = tree_reads(case["tree"])
    env = json.loads(json.dumps(case["env"]))
    changes = []
    for _ in range(rng.choice([1, 2, 3, 4, 6, 8])):
        if rd and rng.random() < 0.75:
            key = rng.choice(rd)
        else:
            key = rng.choice(["machine." + n for n in MVARS] + ["settings." + n for n in SETTINGS] +
                             ["device." + n for n in SWITCHES] + ["player." + n for n in PVARS])
        kind, name = key.split(".", 1)
        if kind == "machine":
            cur = env["mvars"].get(name)
            if rng.random() < 0.2:
                ch = ["rm", name]
                env["mvars"].pop(name, None)
            else:
                v = pick_value(rng, cur)
                ch = ["mv", name, v]
                env["mvars"][name] = v
        elif kind == "settings":
            v = tagv(rng.choice(SETTING_VALUES[name]))
            # through SettingsController.set_setting_value, or directly through the backing machine variable
            # (valid values only: the same announcement rule, the same value read)
            ch = ["set" if rng.random() < 0.5 else "setmv", name, v]
            env["settings"][name] = v
        elif kind == "device":
            v = rng.choice([0, 1])
            ch = ["sw", name, v]
            env["switches"][name] = v
        else:
            v = pick_value(rng, env["pvars"].get(name))
            ch = ["pv", name, v]
            env["pvars"][name] = v
        changes.append(ch)
    case["changes"] = changes
    # every intermediate store must keep the values small (the machine would really compute them)
    env = json.loads(json.dumps(case["env"]))
    try:
        for ch in changes:
            apply_env_change(env, ch)
            ref_result(case["tree"], env_store(env))
    except TooBig:
        return gen_hist(rng, tier, i)
    return case


def tree_uses_names(t):
    return t[0] == "name" or any(tree_uses_names(x) for x in subtrees(t))


def pick_value(rng, cur):
    r = rng.random()
    if cur is not None and r < 0.12:
        return cur                                             # coincidence: same value again
    if cur is not None and r < 0.18 and cur in (["i", "1"], ["i", "0"], ["b", True], ["b", False]):
        return {"1": ["b", True], "0": ["b", False], "True": ["i", "1"], "False": ["i", "0"]}[str(cur[1])]   # 1 <-> True
    return tagv(rvalue(rng, False))


def apply_env_change(env, ch):
    k = ch[0]
    if k == "mv":
        env["mvars"][ch[1]] = ch[2]
    elif k == "rm":
        env["mvars"].pop(ch[1], None)
    elif k in ("set", "setmv"):
        env["settings"][ch[1]] = ch[2]
    elif k == "sw":
        env["switches"][ch[1]] = ch[2]
    elif k == "pv":
        env["pvars"][ch[1]] = ch[2]


def _hist_rig():
    from rig import FakeGameRig
    if "hist" not in _R:
        r = FakeGameRig(MACHINE_CONFIG).start()
        r.start_game()
        r.advance(1)
        assert r.machine.game and r.machine.game.player
        _R["hist"] = r
    return _R["hist"]


def apply_real_change(rig, ch):
    m = rig.machine
    k = ch[0]
    if k == "mv":
        m.variables.set_machine_var(ch[1], untag(ch[2]))
    elif k == "rm":
        m.variables.remove_machine_var(ch[1])
    elif k == "set":
        m.settings.set_setting_value(ch[1], untag(ch[2]))
    elif k == "setmv":
        m.variables.set_machine_var(SETTING_MV[ch[1]], untag(ch[2]))
    elif k == "sw":
        m.switch_controller.process_switch(ch[1], ch[2], logical=True)
    elif k == "pv":
        m.game.player[ch[1]] = untag(ch[2])
    rig.advance(0.01)


def run_hist(case):
    import asyncio
    from mpf.core.config_player import ConfigPlayer
    rig = _hist_rig()
    m = rig.machine
    e = case["env"]
    setup_env(rig, e)
    player = m.game.player
    for n in PVARS:
        player.vars.pop(n, None)
    for n, t in e["pvars"].items():
        player.vars[n] = untag(t)
    rig.advance(0.01)
    pm = m.placeholder_manager
    default = untag(case["default"])
    if case["kind"] == "raw":
        template = pm.build_raw_template(case["text"], default)
    else:
        template = pm.build_bool_template(case["text"], default)
    state = {"calls": 0, "last": None}
    sublist = {}

    class Loop:
        """the real ConfigPlayer._update_subscription with a recording consumer"""
        machine = m

        def handle_subscription_change(self, value, settings, priority, context, key):
            state["calls"] += 1
            state["last"] = {"v": tagv(value)}

        def _update_subscription(self, *args):
            if state.get("dead"):
                return
            try:
                ConfigPlayer._update_subscription(self, *args)
            except BaseException as ex:   # noqa
                if isinstance(ex, (KeyboardInterrupt, SystemExit)):
                    raise
                state["dead"] = True
                state["calls"] += 1
                state["last"] = {"exc": type(ex).__name__}
    loop = Loop()
    loop._update_subscription(template, sublist, {}, 0, "ctx", "key", None)
    out = {"init": state["last"], "steps": [], "dom": True}
    env = json.loads(json.dumps(e))

    def domain_now():
        ref, trace = ref_result(case["tree"], env_store(env))
        if trace.get("float") or trace.get("fmt") or (ref[0] == "other" and ref[1] != "crash"):
            out["dom"] = False
        return trace.get("reads", [])
    domain_now()
    for ch in case["changes"]:
        before = state["calls"]
        apply_real_change(rig, ch)
        apply_env_change(env, ch)
        reads = domain_now()
        fresh = mpf_eval(pm, case["kind"], case["text"], default, [], subscribe=True)
        out["steps"].append({"fired": state["calls"] > before, "last": state["last"], "fresh": fresh, "reads": reads})
    fut = sublist.get(template)
    if fut is not None:
        fut.cancel()
    rig.advance(0.01)
    if rig.machine.stop_future.done():
        _R.pop("hist", None)
        return {"harness_error": "machine stopped during the case"}
    return out


def py_equal(a, b):
    """Python == on delivered values (1 == True counts as equal), identical exceptions"""
    if "v" in a and "v" in b:
        try:
            x, y = untag(a["v"]), untag(b["v"])
        except ValueError:
            return a == b
        if x != x and y != y:
            return True
        return x == y
    return "exc" in a and "exc" in b


def oracle_hist(case, out):
    fails = []
    dead = "exc" in out["init"]
    suspects = []
    env = json.loads(json.dumps(case["env"]))
    effective = []
    for ch in case["changes"]:
        grp = {"mv": "mvars", "rm": "mvars", "set": "settings", "setmv": "settings", "sw": "switches", "pv": "pvars"}[ch[0]]
        old = env[grp].get(ch[1], "absent")
        apply_env_change(env, ch)
        effective.append(old != env[grp].get(ch[1], "absent"))
    for i, (ch, st) in enumerate(zip(case["changes"], out["steps"])):
        if dead or "exc" in st["last"]:
            break
        if "exc" in st["fresh"]:
            continue                         # evaluating now raises: no value to be stale against
        if st["fired"]:
            suspects = []
        elif effective[i]:
            suspects.append(ch)
        if not py_equal(st["last"], st["fresh"]):
            rd = set(st["reads"]) | set(out["steps"][i - 1]["reads"] if i else [])
            culprits = [c for c in suspects if chkey(c) in rd] or suspects
            if culprits and all(c[0] == "pv" and c[2] == ["n"] for c in culprits):
                fails.append({"sig": "stale-player-var-set-to-none",
                              "what": "a player variable set to None posts no player_<name> event: a subscribed template keeps the old value"})
            else:
                fails.append({"sig": "stale-value",
                              "what": "%r: after change %d (%r) the subscriber still holds %r but the template now evaluates to %r" %
                                      (case["text"], i, ch, st["last"], st["fresh"])})
            break
    return fails


def chkey(ch):
    return {"mv": "machine.", "rm": "machine.", "set": "settings.", "setmv": "settings.", "sw": "device.", "pv": "player."}[ch[0]] + ch[1]


def cchange(ch):
    k = ch[0]
    if k == "mv":
        return "(CSetMachine %s %s)" % (cstr(ch[1]), cval(ch[2]))
    if k == "rm":
        return "(CRemoveMachine %s)" % cstr(ch[1])
    if k in ("set", "setmv"):
        return "(CSetSetting %s %s)" % (cstr(ch[1]), cval(ch[2]))
    if k == "sw":
        return "(CSetDevice %s %s %s (VInt %d))" % (cstr("switches"), cstr(ch[1]), cstr("state"), ch[2])
    return "(CSetPlayer %s %s)" % (cstr(ch[1]), cval(ch[2]))


def coq_hist(case, out):
    if not out["dom"]:
        return None
    outs = [out["init"]] + [st["last"] for st in out["steps"]]
    cs = [coutcome(o) for o in outs]
    if any(c is None for c in cs):
        return None
    inp = "(%s, %s, %s, %s, %s)" % (CKIND[case["kind"]], cval(case["default"]), cenv(case["env"]), cexpr(case["tree"]),
                                    coqlist(cchange(c) for c in case["changes"]))
    exp = "(%s, %s)" % (cs[0], coqlist("(%s, %s)" % (blit(st["fired"]), c) for st, c in zip(out["steps"], cs[1:])))
    return "(%s, %s)" % (inp, exp)


def shrink_hist(case):
    ch = case["changes"]
    for i in range(len(ch)):
        c = dict(case)
        c["changes"] = ch[:i] + ch[i + 1:]
        if c["changes"]:
            yield c
    for c in shrink_expr(case):
        if not tree_uses_names(c["tree"]):
            yield c


def nontrivial_hist(case, out):
    return any(chkey(c) in set(st["reads"]) or st["fired"] for c, st in zip(case["changes"], out["steps"]))


def describe_hist(case):
    return "changes=%d %s" % (len(case["changes"]), ",".join(sorted(set(c[0] for c in case["changes"]))))


HDR_HIST = "From C16 Require Import Model.\nDefinition run := hist_run.\nDefinition out_eqb := hist_out_eqb.\n"

# ================================================================================================
HDR_OPS = "From C16 Require Import Model.\nDefinition run := ops_run.\nDefinition out_eqb := res_eqb.\n"
HDR_EXPR = "From C16 Require Import Model.\nDefinition run := expr_run.\nDefinition out_eqb := expr_out_eqb.\n"

SUITES = [
    Suite("ops", gen_ops, run_ops, HDR_OPS, coq_ops, oracle_ops, shrink_ops, None,
          {"quick": 5000, "thorough": 200000}, describe=describe_ops, shard=800),
    Suite("expr", gen_expr, run_expr, HDR_EXPR, coq_expr, oracle_expr, shrink_expr, nontrivial_expr,
          {"quick": 3000, "thorough": 150000}, describe=describe_expr, shard=250),
    Suite("hist", gen_hist, run_hist, HDR_HIST, coq_hist, oracle_hist, shrink_hist, nontrivial_hist,
          {"quick": 900, "thorough": 40000}, describe=describe_hist, shard=150),
    Suite("ext", gen_ext, run_expr, None, None, oracle_expr, shrink_expr, nontrivial_expr,
          {"quick": 1500, "thorough": 50000}, describe=describe_expr),
]
