"""C09 — Light hardware output equals the priority stack's colour."""
import math

from vlib import Suite, zlist, zlit, coqlist

ID = "C09"
READY = True
RULE = ("grid: histories of 3-12 color/remove_from_stack_by_key/clear_stack commands (2-5 keys, priorities with ties, "
        "fades 0/125/250/500/1000/2000 ms, about half of the commands placed exactly at, one tick before or one tick "
        "after the end of an earlier fade, several commands at one instant) on a fresh RGB, single-channel, RGBW "
        "(duck_rgb), DriverLight (software fade, 125 ms) or direct-fade (250 ms) light of a real machine on the virtual "
        "clock; every 125 ms tick is observed (get_color before/after the commands, every set_fade the drivers receive, "
        "every brightness command the fade channel issues, the order in which the remove_fade delays fire). "
        "non-trivial = at least one command lands while a fade of the same light is running. "
        "generic: same kind of history with arbitrary fade lengths (multiples of 25 ms), a batched back end "
        "(PlatformBatchLightSystem) and RGB lights with a colour-correction profile, oracle only. "
        "45% of the histories of both suites also change the machine variable 'brightness' (0.25..1.0) one to three "
        "times between commands and draw their colours from three values so that earlier colours return after a change; "
        "the at-rest oracle compares the hardware with the logical colour corrected in the harness (int(x*factor), then "
        "the profile's lookup table recomputed from its parameters).")
TRUSTED_BASE = [
    "Coq 8.16.1 kernel (coqc), vm_compute for refutation witnesses and for evaluating the model in the correspondence run",
    "axioms: none (every Print Assumptions is 'Closed under the global context')",
    "hand-written model coq/C09/Model.v tied to the repository by correspondence: harness/props/c09.py drives real Light "
    "devices of a booted machine (virtual platform, drivers platform) and the model with the same command history",
    "CPython float arithmetic is exact on the 1/8 s grid with power-of-two fade lengths (domain of the grid suite); "
    "asyncio/TimeTravelLoop ordering inside one instant: timers, then task wake-ups (validated on every run)",
    "harness-defined recording subclasses of LightPlatformDirectFade / PlatformBatchLight (no in-tree direct-fade class exists)",
]
ASSUMPTIONS = [
    "brightness factor in {0.25, 0.5, 0.75, 1.0} (exact floats), changed only between ticks; colour-correction profiles "
    "are covered by the oracle, not by the model",
    "priorities >= 0, keys are strings, start_time is not passed by the caller",
    "model domain: fade lengths 125 ms * 2^k (float ratios exact); other lengths are covered by the oracle only",
]

KEYS = ["", "a", "b", "c", "d", "e"]
FADES = [0, 0, 0, 125, 250, 500, 1000, 2000]
PALETTE = [[255, 0, 0], [0, 255, 0], [0, 0, 255], [255, 255, 255], [0, 0, 0], [77, 77, 77], [255, 128, 64], [1, 2, 3],
           [254, 255, 253], [10, 200, 90]]
TICK = 0.125
T_OFF = 1000000           # model time of tick 0 (ms)
KIND_NAMES = {0: "rgb", 1: "white", 2: "rgbw", 3: "driverlight", 4: "direct", 5: "batch", 6: "rgb+profile"}
PROFILE = {"gamma": 2.5, "whitepoint": [0.9, 0.8, 0.7], "linear_slope": 1.0, "linear_cutoff": 0.0}
POOL = 30                 # lights of each configured kind per boot


# ------------------------------------------------------------------------------------------------
def _gen_ops(rng, fades, kinds):
    kind = rng.choice(kinds)
    nkeys = rng.choice([1, 2, 3, 3, 4, 5])
    keys = rng.sample(KEYS, nkeys)
    prios = [rng.choice([0, 0, 1, 1, 2, 5]) for _ in keys]
    nops = rng.randint(3, 12)
    bright_case = rng.random() < 0.45
    pal = rng.sample(PALETTE, 3) if bright_case else PALETTE     # few colours: they come back after a change
    ops = []
    interesting = []
    t = 0
    last = 0
    for _ in range(nops):
        r = rng.random()
        if interesting and r < 0.5:
            t = max(0, rng.choice(interesting) + rng.choice([0, 0, 0, -1, 1]))
        elif r < 0.7:
            t = last
        else:
            t = last + rng.randint(0, 6)
        t = max(t, last)      # history is issued in time order
        last = t
        r = rng.random()
        ki = rng.randrange(nkeys)
        fade = rng.choice(fades)
        if r < 0.62:
            c = rng.choice(pal) if (bright_case or rng.random() < 0.7) else [rng.randrange(256) for _ in range(3)]
            p = prios[ki] if rng.random() < 0.8 else rng.choice([0, 1, 2, 3, 5])
            ops.append([t, "color", c, fade, p, keys[ki]])
        elif r < 0.94:
            ops.append([t, "remove", keys[ki], fade])
        else:
            ops.append([t, "clear"])
        if fade:
            interesting.append(t + fade_ticks(fade))
    end = max([o[0] for o in ops] + interesting) + 3
    bright = []
    if bright_case:
        # changes of the machine variable "brightness" (applied at the end of the tick, after the commands)
        tks = sorted(set(rng.randrange(0, end) if rng.random() < 0.5 else rng.choice(ops)[0]
                         for _ in range(rng.randint(1, 3))))
        bright = [[t, rng.choice([1, 2, 2, 3, 4])] for t in tks]
    return {"kind": kind, "nticks": end + 1, "ops": ops, "bright": bright}


def fade_ticks(fade):
    return int(math.ceil(fade / 125.0))


def gen_grid(rng, tier, i):
    return _gen_ops(rng, FADES, [0, 0, 1, 2, 3, 3, 3, 4, 4])


def gen_generic(rng, tier, i):
    fades = [0, 0, 25, 50, 100, 125, 175, 300, 375, 450, 750, 1100, 1500, 2900]
    return _gen_ops(rng, fades, [0, 1, 2, 3, 4, 5, 5, 5, 6, 6])


# ------------------------------------------------------------------------------------------------
# implementation side
_R = {}


def _config():
    lights = {}
    coils = {}
    for i in range(POOL):
        lights["rgb%d" % i] = {"number": str(100 + i), "subtype": "led"}
        lights["white%d" % i] = {"number": str(300 + i), "subtype": "matrix"}
        lights["rgbw%d" % i] = {"start_channel": "q%d" % i, "subtype": "led", "type": "rgbw"}
        coils["lc%d" % i] = {"number": str(i), "allow_enable": True, "max_hold_power": 1.0}
        lights["drv%d" % i] = {"number": "lc%d" % i, "platform": "drivers"}
        lights["dir%d" % i] = {"number": str(500 + i), "subtype": "matrix"}
        lights["bat%d" % i] = {"number": str(700 + i), "subtype": "matrix"}
        lights["cc%d" % i] = {"number": str(900 + i), "subtype": "led", "color_correction_profile": "p1"}
    return {"mpf": {"default_light_hw_update_hz": 8}, "coils": coils, "lights": lights,
            "light_settings": {"color_correction_profiles": {"p1": dict(PROFILE)}}}


def _install_recorders():
    """class-level recording wrappers around the real methods (the originals are always called)"""
    if _R.get("installed"):
        return
    from mpf.platforms.virtual import VirtualLight
    from mpf.platforms.driver_light_platform import DriverLight
    from mpf.platforms.interfaces.light_platform_interface import LightPlatformDirectFade
    from mpf.core.platform_batch_light_system import PlatformBatchLight, PlatformBatchLightSystem
    from mpf.devices.light import Light

    rec = _R["rec"] = {"cmds": [], "hw": [], "fired": []}

    o_vsf = VirtualLight.set_fade

    def vsf(self, sb, st, tb, tt):
        rec["cmds"].append((id(self), sb, st, tb, tt))
        return o_vsf(self, sb, st, tb, tt)
    VirtualLight.set_fade = vsf

    o_dsf = LightPlatformDirectFade.set_fade

    def dsf(self, sb, st, tb, tt):
        rec["cmds"].append((id(self), sb, st, tb, tt))
        return o_dsf(self, sb, st, tb, tt)
    LightPlatformDirectFade.set_fade = dsf

    o_sb = DriverLight.set_brightness

    def sb_(self, b):
        rec["hw"].append((id(self), b, 0))
        return o_sb(self, b)
    DriverLight.set_brightness = sb_

    o_bsf = PlatformBatchLight.set_fade

    def bsf(self, sb, st, tb, tt):
        rec["cmds"].append((id(self), sb, st, tb, tt))
        return o_bsf(self, sb, st, tb, tt)
    PlatformBatchLight.set_fade = bsf

    o_rfo = Light._remove_fade_out

    def rfo(self, key):
        rec["fired"].append((self.name, key))
        return o_rfo(self, key)
    Light._remove_fade_out = rfo

    class RecDirect(LightPlatformDirectFade):
        __slots__ = []

        def get_max_fade_ms(self):
            return 250

        def set_brightness_and_fade(self, brightness, fade_ms):
            rec["hw"].append((id(self), brightness, fade_ms))

        def get_board_name(self):
            return "rec"

    class RecBatch(PlatformBatchLight):
        __slots__ = []

        def get_max_fade_ms(self):
            return 250

        def get_board_name(self):
            return "rec"

        def is_successor_of(self, other):
            return False

        def __lt__(self, other):
            return self.number < other.number

    _R["RecDirect"] = RecDirect
    _R["RecBatch"] = RecBatch
    _R["BatchSystem"] = PlatformBatchLightSystem
    _R["installed"] = True


def _boot():
    from rig import Rig
    _install_recorders()
    if _R.get("rig"):
        try:
            if _R.get("batch"):
                _R["batch"].stop()
            _R["rig"].stop()
        except BaseException:
            pass
    rig = Rig(_config()).start()
    _R["rig"] = rig
    _R["used"] = {k: 0 for k in range(7)}
    m = rig.machine
    rec = _R["rec"]

    async def batch_cb(items):
        now = m.clock.get_time()
        for light, b, f in items:
            rec["hw"].append((id(light), b, f))
    bs = _R["BatchSystem"](m.clock, batch_cb, 8, 4)
    bs.start()
    _R["batch"] = bs
    for i in range(POOL):
        d = m.lights["dir%d" % i]
        d.hw_drivers["white"] = [_R["RecDirect"]("d%d" % i, m.clock.loop)]
        b = m.lights["bat%d" % i]
        b.hw_drivers["white"] = [_R["RecBatch"]("b%03d" % i, bs)]


def worker_init():
    _boot()


PREFIX = {0: "rgb", 1: "white", 2: "rgbw", 3: "drv", 4: "dir", 5: "bat", 6: "cc"}


def _fresh_light(kind):
    if _R["used"][kind] >= POOL:
        _boot()
    i = _R["used"][kind]
    _R["used"][kind] += 1
    return _R["rig"].machine.lights["%s%d" % (PREFIX[kind], i)]


def run_history(case):
    kind = case["kind"]
    light = _fresh_light(kind)
    rig = _R["rig"]
    rec = _R["rec"]
    lc = rig.machine.light_controller

    def set_brightness(f4):
        rig.machine.variables.set_machine_var("brightness", f4 / 4.0)
        for _ in range(4):
            rig.advance(0)
        return int(round(lc.brightness_factor * 4))
    if lc.brightness_factor != 1.0:
        set_brightness(4)
    fac = int(round(lc.brightness_factor * 4))
    brt = dict((t, f) for t, f in case.get("bright", []))
    now = rig.now()
    base = math.floor(now) + 2.0
    rig.advance(base - now)
    for k in ("cmds", "hw", "fired"):
        del rec[k][:]
    chans = []
    for cname in ("red", "green", "blue", "white"):
        if cname in light.hw_drivers:
            chans.append(light.hw_drivers[cname][0])
    ids = [id(c) for c in chans]
    byt = {}
    for o in case["ops"]:
        byt.setdefault(o[0], []).append(o)
    ticks = []
    errors = []

    def tm(t):
        if t <= 0:
            return int(t)
        return int(round((t - base) * 1000)) + T_OFF

    def drain():
        per = {i: [] for i in ids}
        for (i, sb, st, tb, tt) in rec["cmds"]:
            if i in per:
                per[i].append((sb, st, tb, tt))
        del rec["cmds"][:]
        n = len(per[ids[0]])
        cm = []
        if any(len(per[i]) != n for i in ids):
            errors.append("channels received different numbers of commands")
            n = min(len(per[i]) for i in ids)
        for j in range(n):
            row = [per[i][j] for i in ids]
            if any((r[1], r[3]) != (row[0][1], row[0][3]) for r in row):
                errors.append("channels received different times")
            cm.append([0] + [int(round(r[0] * 255)) for r in row] + [tm(row[0][1])] +
                      [int(round(r[2] * 255)) for r in row] + [tm(row[0][3])])
        hw = [[1, int(round(b * 255 * 1024)), int(round(f))] for (i, b, f) in rec["hw"] if i in ids]
        hwraw = [[b, f] for (i, b, f) in rec["hw"] if i in ids]
        del rec["hw"][:]
        return cm, hw, hwraw

    for t in range(case["nticks"]):
        target = base + t * TICK
        d = target - rig.now()
        if d > 0:
            rig.advance(d)
        fired = [k for (n, k) in rec["fired"] if n == light.name]
        del rec["fired"][:]
        pre = list(light.get_color())
        for o in byt.get(t, []):
            try:
                if o[1] == "color":
                    light.color(tuple(o[2]), fade_ms=o[3], priority=o[4], key=o[5])
                elif o[1] == "remove":
                    light.remove_from_stack_by_key(o[2], fade_ms=o[3])
                else:
                    light.clear_stack()
            except Exception as e:   # noqa
                errors.append("%s: %s" % (type(e).__name__, e))
        rig.advance(0)
        rig.advance(0)
        post = list(light.get_color())
        cm, hw, hwraw = drain()
        tkrec = {"fired": fired, "pre": pre, "post": post, "cmds": cm, "hw": hw, "hwraw": hwraw, "fac": fac}
        if t in brt:
            fac = set_brightness(brt[t])       # in effect from the next tick on
            cm2, hw2, _ = drain()
            if cm2 or hw2:
                errors.append("hardware commands during a brightness change")
        tkrec["fac_end"] = fac
        ticks.append(tkrec)
    # at rest: what the hardware shows / was last told
    final = []
    if kind in (0, 1, 2, 6):
        final = [c.current_brightness for c in chans]
    else:
        lastb = None
        for tk in ticks:
            for b, f in tk["hwraw"]:
                lastb = b
        final = [lastb]
    if rig.exception():
        errors.append("loop exception: %r" % (rig.exception(),))
    stack = [[e.priority, e.key, e.dest_color is None] for e in light.stack]
    return {"ticks": ticks, "final": final, "errors": errors, "stack": stack}


# ------------------------------------------------------------------------------------------------
# Coq printers
def crgb(c):
    return "(%s,%s,%s)" % (zlit(c[0]), zlit(c[1]), zlit(c[2]))


def cop(o):
    if o[1] == "color":
        return "(OColor %s %s %s %s)" % (crgb(o[2]), zlit(o[3]), zlit(o[4]), zlit(KEYS.index(o[5])))
    if o[1] == "remove":
        return "(ORemove %s %s)" % (zlit(KEYS.index(o[2])), zlit(o[3]))
    return "OClear"


def coq_grid(case, out):
    if out["errors"]:
        return None
    byt = {}
    for o in case["ops"]:
        byt.setdefault(o[0], []).append(o)
    tks = []
    exp = []
    for t, tk in enumerate(out["ticks"]):
        tks.append("(mkTick %s %s %s %s)" % (zlit(T_OFF + 125 * t), zlit(tk["fac"]), zlist([KEYS.index(k) for k in tk["fired"]]),
                                          coqlist(cop(o) for o in byt.get(t, []))))
        rows = [tk["pre"] + tk["post"] + [0]] + tk["cmds"] + tk["hw"]
        exp.append(coqlist(zlist(r) for r in rows))
    return "((%s, %s), %s)" % (zlit(case["kind"]), coqlist(tks), coqlist(exp))


HDR = "From C09 Require Import Model.\nDefinition run := run_case.\nDefinition out_eqb := case_out_eqb.\n"


# ------------------------------------------------------------------------------------------------
# oracle: the property's predicate on what the implementation did
def profile_table():
    """the lookup tables of RGBColorCorrectionProfile.generate_from_parameters, computed here from PROFILE"""
    if "table" not in _R:
        g, wp, ls, lco = PROFILE["gamma"], PROFILE["whitepoint"], PROFILE["linear_slope"], PROFILE["linear_cutoff"]
        scale = 1.0 - lco
        tab = []
        for ch in range(3):
            row = []
            for i in range(256):
                v = i / 255.0 * wp[ch]
                if v * ls <= lco:
                    v = int(ls * v * 255)
                else:
                    v = int(lco + pow((v - ls * lco) / scale, g) * scale * 255)
                row.append(max(0, min(v, 255)))
            tab.append(row)
        _R["table"] = tab
    return _R["table"]


def corrected(kind, c, f4):
    """brightness (machine variable) and colour correction of a logical colour, independent of light.py"""
    c = [int(x * (f4 / 4.0)) for x in c]
    if kind == 6:
        tab = profile_table()
        c = [tab[i][c[i]] for i in range(3)]
    return c


def chan_map(kind, c):
    r, g, b = c
    m = min(r, g, b)
    if kind in (0, 6):
        return [r, g, b]
    if kind == 2:
        return [r - m, g - m, b - m, m]
    return [m]


def oracle(case, out):
    fails = []
    if out["errors"]:
        fails.append({"sig": "exception", "what": "the light raised or misbehaved: %s" % out["errors"][:2]})
        return fails
    kind = case["kind"]
    byt = {}
    for o in case["ops"]:
        byt.setdefault(o[0], []).append(o)
    # specification-level view of the history.  live: key -> dict(p, c, end, t0, start, solo); fadeouts: key -> (p, end)
    live = {}
    fadeouts = {}
    for t, tk in enumerate(out["ticks"]):
        for k in [k for k, e in fadeouts.items() if e[1] <= t]:
            del fadeouts[k]            # a removal fade that has ended is gone
        ops = byt.get(t, [])
        for o in ops:
            if o[1] == "color":
                _, _, c, fade, p, k = o
                cur = live[k]["p"] if k in live else fadeouts[k][0] if k in fadeouts else 0
                if (live or fadeouts) and p < cur:
                    continue          # light.py: ignored when lower than the existing entry with the same key
                fadeouts.pop(k, None)
                live[k] = {"p": p, "c": c, "end": t + fade / 125.0, "t0": t, "start": None, "solo": len(ops) == 1}
            elif o[1] == "remove":
                k = o[2]
                if k in live:
                    e = live.pop(k)
                    if o[3]:
                        fadeouts[k] = (e["p"], t + o[3] / 125.0)
                elif k in fadeouts:
                    del fadeouts[k]   # removing a fade-out removes it at once
            else:
                live.clear()
                fadeouts.clear()
        topk = max(live, key=lambda k: (live[k]["p"], k)) if live else None
        top = live[topk] if live else None
        if any(not 0 <= c <= 255 for c in tk["pre"] + tk["post"]):
            fails.append({"sig": "colour-out-of-range", "what": "logical colour %s at tick %d" % (tk["post"], t)})
        running = any(e["end"] > t for e in live.values()) or bool(fadeouts)
        if not running:
            want = top["c"] if top else [0, 0, 0]
            if tk["post"] != want:
                fails.append({"sig": "logical-not-top",
                              "what": "no fade running at tick %d: logical colour %s, highest-priority entry %s"
                                      % (t, tk["post"], want)})
        # the visible entry is an opaque fade in progress: between its endpoints, no jump when it starts
        covered = top is not None and any((fp, k) > (top["p"], topk) for k, (fp, _) in fadeouts.items())
        if top is not None and top["end"] > t and not covered:
            if top["t0"] == t:
                top["start"] = list(tk["post"])
                if top["solo"] and tk["post"] != tk["pre"]:
                    fails.append({"sig": "fade-start-jump",
                                  "what": "a fading command that becomes the visible entry makes the logical colour jump "
                                          "from %s to %s at tick %d" % (tk["pre"], tk["post"], t)})
            if top["start"] is not None:
                for i in range(3):
                    lo, hi = sorted((top["start"][i], top["c"][i]))
                    if not lo <= tk["post"][i] <= hi:
                        fails.append({"sig": "fade-outside-endpoints",
                                      "what": "tick %d: %s not between %s and %s" % (t, tk["post"], top["start"], top["c"])})
                        break
    # at rest (the history ends after every fade): hardware == logical colour
    last = out["ticks"][-1]
    for t, f4 in case.get("bright", []):
        if t < len(out["ticks"]) and out["ticks"][t]["fac_end"] != f4:
            fails.append({"sig": "brightness-var-ignored", "what": "machine variable brightness=%s/4 at tick %d, "
                          "light controller factor %s/4" % (f4, t, out["ticks"][t]["fac_end"])})
    fac_now = last["fac_end"]
    fac_cmd = 4
    for tk in out["ticks"]:
        if tk["cmds"]:
            fac_cmd = tk["fac"]          # factor in effect when the last command was sent
    want = [x / 255.0 for x in chan_map(kind, corrected(kind, last["post"], fac_now))]
    want_cmd = [x / 255.0 for x in chan_map(kind, corrected(kind, last["post"], fac_cmd))]
    got = [0.0 if g is None else g for g in out["final"]]     # never commanded: still off

    def same(a, b):
        return len(a) == len(b) and all(abs(x - y) <= 1e-9 for x, y in zip(a, b))
    if not same(got, want):
        if fac_cmd != fac_now and same(got, want_cmd):
            # exactly the recorded defect: the brightness changed after the last command this light was sent
            # (a repeated command for the same colour is suppressed by _schedule_update) and is never propagated
            fails.append({"sig": "brightness-change-not-propagated",
                          "what": "brightness changed to %s/4 after the light's last hardware command (sent at %s/4); the "
                                  "hardware still shows %s, corrected logical colour is %s" % (fac_now, fac_cmd, got, want)})
        else:
            fails.append({"sig": "hw-differs-at-rest",
                          "what": "all fades finished: last commanded brightness %s, logical colour %s, corrected for "
                                  "brightness %s/4 -> channels %s, %s light"
                                  % (got, last["post"], fac_now, want, KIND_NAMES[kind])})
    if any(tr for _, _, tr in out["stack"]):
        fails.append({"sig": "fadeout-left-behind", "what": "a fade-out entry is still on the stack at rest: %s" % out["stack"]})
    seen = set()
    res = []
    for f in fails:
        if f["sig"] not in seen:
            seen.add(f["sig"])
            res.append(f)
    return res


def shrink(case):
    ops = case["ops"]
    for i in range(len(ops)):
        yield dict(case, ops=ops[:i] + ops[i + 1:])
    for i, o in enumerate(ops):
        if o[1] == "color" and o[2] not in ([255, 255, 255], [0, 0, 0]):
            yield dict(case, ops=ops[:i] + [[o[0], "color", [255, 255, 255], o[3], o[4], o[5]]] + ops[i + 1:])
    br = case.get("bright", [])
    for i in range(len(br)):
        yield dict(case, bright=br[:i] + br[i + 1:])
    if ops and ops[0][0] > 0 and all(b[0] >= ops[0][0] for b in br):
        d = ops[0][0]
        yield dict(case, nticks=case["nticks"] - d, ops=[[o[0] - d] + o[1:] for o in ops],
                   bright=[[b[0] - d, b[1]] for b in br])


def nontrivial(case, out):
    ends = []
    for o in case["ops"]:
        if any(o[0] < e for e in ends):
            return True
        f = o[3] if o[1] in ("color", "remove") else 0
        if f:
            ends.append(o[0] + f / 125.0)
    return False


def describe(case):
    return "%s ops=%d%s" % (KIND_NAMES[case["kind"]], len(case["ops"]), " +brightness" if case.get("bright") else "")


SUITES = [
    Suite("grid", gen_grid, run_history, HDR, coq_grid, oracle, shrink, nontrivial,
          {"quick": 2000, "thorough": 40000}, worker_init=worker_init, shard=150, describe=describe),
    Suite("generic", gen_generic, run_history, None, None, oracle, shrink, nontrivial,
          {"quick": 700, "thorough": 20000}, worker_init=worker_init, describe=describe),
]

LEVEL_TEXT = ("Machine-checked proof (Coq) about an executable model of Light's priority stack, colour interpolation, "
              "hardware-update suppression and the software/direct fade channel: the logical colour is the top entry's, "
              "fades stay between their endpoints and end on the target, removal restores the colour beneath, clearing "
              "turns the light off, and at rest the last commanded brightness equals the logical colour for every history; "
              "the model is tied to the working tree by running both on the same generated histories on every run.")
LEVEL_NOTE = ("Trusted: Coq kernel + vm_compute; no axioms. Model hand-written; the differential run validates it tick by "
              "tick (logical colour, set_fade commands, brightness commands). The batched back end is covered by the direct "
              "oracle only. Gamma/colour correction are the identity in the runs.")
TECHNIQUE = "Coq proof over hand-written executable model + differential correspondence (vm_compute) + direct property oracle"
DESIGN_REF = "DESIGN.md section 3, C09"
