"""C09 — Light hardware output equals the priority stack's colour."""
import math
import sys

from vlib import Suite, zlist, zlit, coqlist

ID = "C09"
READY = True
RULE = ("grid: histories of 3-12 color/remove_from_stack_by_key/clear_stack commands (2-5 keys, priorities with ties, "
        "fades 0/125/250/500/1000/2000 ms, about half of the commands placed exactly at, one tick before or one tick "
        "after the end of an earlier fade, several commands at one instant) on a fresh RGB, single-channel, RGBW "
        "(duck_rgb, white_only, min_rgb), RGB-with-colour-profile, DriverLight (software fade, 125 ms) or direct-fade "
        "(250 ms) light of a real machine on the virtual clock; every 125 ms tick is observed (get_color before/after the "
        "commands, what every hardware channel shows, _get_color_and_fade(stack, max_fade_ms) for max_fade_ms in a subset "
        "of 125/250/500, every set_fade the drivers receive, every brightness command the fade channel issues, the "
        "delays that fired and their instants). non-trivial = at least one command lands while a fade of the same light "
        "is running. "
        "offgrid: the same on the virtual-light kinds with fade lengths off the tick grid (257..2999 ms, chosen so that "
        "float and exact interpolation cannot differ), delays firing between ticks. "
        "batch: the real PlatformBatchLightSystem with 2-5 recording PlatformBatchLight lights (successor structure) on a "
        "bare virtual-time loop: 2-10 set_fade calls (instant, or fades of arbitrary ms length that started up to 5 "
        "ticks ago), max_fade 0/125/250/500 ms, poll 125/250 ms, batch size 1/2/3/8, and in 60% of the cases a callback "
        "that per script yields for 0/125/250 ms and issues further set_fade calls while it is awaited; the order of the "
        "atomic blocks of the two tasks is observed and fed to the model together with the calls; compared: every "
        "callback list and, after every tick in which something happened, the complete internal state. non-trivial = a "
        "set_fade arrives while the callback is awaited or while that light's fade is being stepped. "
        "generic (oracle only): arbitrary fade lengths (multiples of 25 ms) on all kinds including the batched back end "
        "behind a real Light. "
        "45% of the Light histories also change the machine variable 'brightness' (0.25..1.0) one to three times between "
        "commands and draw their colours from three values so that earlier colours return after a change; the oracle "
        "compares the hardware with the logical colour corrected in the harness (int(x*factor), then the profile's "
        "lookup table recomputed from its parameters), at the end of every history and at every tick at which no fade "
        "is running.")
TRUSTED_BASE = [
    "Coq 8.16.1 kernel (coqc), vm_compute for refutation witnesses and for evaluating the model in the correspondence run",
    "axioms: none (every Print Assumptions is 'Closed under the global context')",
    "hand-written models coq/C09/Model.v (Light, fade channel, VirtualLight) and coq/C09/Batch.v (batch light system) tied "
    "to the repository by correspondence: harness/props/c09.py drives real Light devices of a booted machine (virtual "
    "platform, drivers platform) resp. the real PlatformBatchLightSystem and the models with the same history",
    "CPython float arithmetic: exact on the 1/8 s grid with power-of-two fade lengths; for the off-grid lengths of the "
    "offgrid suite int((end-start)*ratio) equals the exact quotient (argument in NOTES.md, divisibility asserted at import); "
    "batch brightnesses are compared after rounding to 1/(255*1024), cases with two floats closer than 1e-9 are not fed "
    "to the model",
    "asyncio/TimeTravelLoop ordering inside one instant: Light suites: timers, then task wake-ups (validated on every run "
    "by bad_fires); batch suite: not assumed, the order of blocks is observed (clock proxy, Event subclass, callback) and "
    "their enabledness is checked by the model",
    "harness-defined recording subclasses of LightPlatformDirectFade / PlatformBatchLight and a harness-defined callback "
    "coroutine (no in-tree direct-fade class exists; in-tree batch callbacks do not yield); the RGBW style of a light is "
    "set on the light object after boot (Light._rbgw_style), not through mpf:rgbw_white_behavior",
    "the colour-profile lookup table given to the model is recomputed in the harness from the profile parameters",
]
ASSUMPTIONS = [
    "brightness factor in {0.25, 0.5, 0.75, 1.0} (exact floats), changed only between ticks",
    "priorities >= 0, keys are strings, start_time is not passed by the caller",
    "model domain of the Light suites: fade lengths 125 ms * 2^k, and (virtual-light kinds only) the off-grid lengths of "
    "OFFGRID_FADES; other lengths and off-grid lengths on the fade-channel kinds are covered by the oracle only",
    "batch: set_fade start times are not in the future (as Light issues them); max_fade_ms and poll time are multiples of "
    "125 ms; update_hz 8 or 4",
    "the check models the code WITH fixes/C09-batch-light-dirty-while-sending.patch",
]

KEYS = ["", "a", "b", "c", "d", "e"]
FADES = [0, 0, 0, 125, 250, 500, 1000, 2000]
PALETTE = [[255, 0, 0], [0, 255, 0], [0, 0, 255], [255, 255, 255], [0, 0, 0], [77, 77, 77], [255, 128, 64], [1, 2, 3],
           [254, 255, 253], [10, 200, 90]]
TICK = 0.125
T_OFF = 1000000           # model time of tick 0 (ms)
KIND_NAMES = {0: "rgb", 1: "white", 2: "rgbw", 3: "driverlight", 4: "direct", 5: "batch", 6: "rgb+profile",
              7: "rgbw-white_only", 8: "rgbw-min_rgb"}
RGBW_STYLE = {7: "white_only", 8: "min_rgb"}
VIRTUAL_KINDS = (0, 1, 2, 6, 7, 8)
PROFILE = {"gamma": 2.5, "whitepoint": [0.9, 0.8, 0.7], "linear_slope": 1.0, "linear_cutoff": 0.0}
POOL = 30                 # lights of each configured kind per boot


# ------------------------------------------------------------------------------------------------
def _gen_ops(rng, fades, kinds):
    kind = rng.choice(kinds)
    nkeys = rng.choice([1, 2, 3, 3, 4, 5])
    keys = rng.sample(KEYS, nkeys)
    prios = [rng.choice([0, 0, 1, 1, 2, 5]) for _ in keys]
    nops = rng.randint(3, 12)
    bright_case = rng.random() < 0.45
    pal = rng.sample(PALETTE, 3) if bright_case else PALETTE     # few colours: they come back after a change
    ops = []
    interesting = []
    t = 0
    last = 0
    for _ in range(nops):
        r = rng.random()
        if interesting and r < 0.5:
            t = max(0, rng.choice(interesting) + rng.choice([0, 0, 0, -1, 1]))
        elif r < 0.7:
            t = last
        else:
            t = last + rng.randint(0, 6)
        t = max(t, last)      # history is issued in time order
        last = t
        r = rng.random()
        ki = rng.randrange(nkeys)
        fade = rng.choice(fades)
        if r < 0.62:
            c = rng.choice(pal) if (bright_case or rng.random() < 0.7) else [rng.randrange(256) for _ in range(3)]
            p = prios[ki] if rng.random() < 0.8 else rng.choice([0, 1, 2, 3, 5])
            ops.append([t, "color", c, fade, p, keys[ki]])
        elif r < 0.94:
            ops.append([t, "remove", keys[ki], fade])
        else:
            ops.append([t, "clear"])
        if fade:
            interesting.append(t + fade_ticks(fade))
    end = max([o[0] for o in ops] + interesting) + 3
    bright = []
    if bright_case:
        # changes of the machine variable "brightness" (applied at the end of the tick, after the commands)
        tks = sorted(set(rng.randrange(0, end) if rng.random() < 0.5 else rng.choice(ops)[0]
                         for _ in range(rng.randint(1, 3))))
        bright = [[t, rng.choice([1, 2, 2, 3, 4])] for t in tks]
    return {"kind": kind, "nticks": end + 1, "ops": ops, "bright": bright}


def fade_ticks(fade):
    return int(math.ceil(fade / 125.0))


def gen_grid(rng, tier, i):
    c = _gen_ops(rng, FADES, [0, 0, 1, 2, 3, 3, 3, 4, 4, 6, 7, 8])
    # _get_color_and_fade(stack, max_fade_ms) is sampled every tick for these max_fade_ms
    c["mfs"] = rng.choice([[], [125, 250], [250], [500, 125]])
    return c


# fade lengths off the 125 ms grid for which the float arithmetic of RGBColor.blend cannot round across an integer:
# int((end-start) * ratio) differs from the exact quotient only if (end-start)*elapsed/length is an integer, and
# elapsed is a multiple of 125 ms (commands are issued on ticks).  Lengths q*m with q prime > 255 and m <= 125
# never divide (end-start)*125*j for 0 < 125*j < length (checked below).
OFFGRID_FADES = [257, 263, 331, 499, 514, 771, 997, 1021, 1285, 1499, 2003, 2570, 2999]


def _check_offgrid():
    for den in OFFGRID_FADES:
        for j in range(1, den // 125 + 1):
            for d in range(1, 256):
                assert (d * 125 * j) % den != 0, (den, j, d)


_check_offgrid()


def gen_offgrid(rng, tier, i):
    fades = [0, 0, 0] + OFFGRID_FADES + [125, 500, 1000]
    c = _gen_ops(rng, fades, [0, 0, 1, 2, 6, 7, 8])
    c["mfs"] = []
    return c


def gen_generic(rng, tier, i):
    fades = [0, 0, 25, 50, 100, 125, 175, 300, 375, 450, 750, 1100, 1500, 2900]
    return _gen_ops(rng, fades, [0, 1, 2, 3, 4, 5, 5, 5, 6, 7, 8])


# ------------------------------------------------------------------------------------------------
# implementation side
_R = {}


def _config():
    lights = {}
    coils = {}
    for i in range(POOL):
        lights["rgb%d" % i] = {"number": str(100 + i), "subtype": "led"}
        lights["white%d" % i] = {"number": str(300 + i), "subtype": "matrix"}
        lights["rgbw%d" % i] = {"start_channel": "q%d" % i, "subtype": "led", "type": "rgbw"}
        coils["lc%d" % i] = {"number": str(i), "allow_enable": True, "max_hold_power": 1.0}
        lights["drv%d" % i] = {"number": "lc%d" % i, "platform": "drivers"}
        lights["dir%d" % i] = {"number": str(500 + i), "subtype": "matrix"}
        lights["bat%d" % i] = {"number": str(700 + i), "subtype": "matrix"}
        lights["cc%d" % i] = {"number": str(900 + i), "subtype": "led", "color_correction_profile": "p1"}
        lights["rwo%d" % i] = {"start_channel": "u%d" % i, "subtype": "led", "type": "rgbw"}
        lights["rmn%d" % i] = {"start_channel": "v%d" % i, "subtype": "led", "type": "rgbw"}
    return {"mpf": {"default_light_hw_update_hz": 8}, "coils": coils, "lights": lights,
            "light_settings": {"color_correction_profiles": {"p1": dict(PROFILE)}}}


def _install_recorders():
    """class-level recording wrappers around the real methods (the originals are always called)"""
    if _R.get("installed"):
        return
    from mpf.platforms.virtual import VirtualLight
    from mpf.platforms.driver_light_platform import DriverLight
    from mpf.platforms.interfaces.light_platform_interface import LightPlatformDirectFade
    from mpf.core.platform_batch_light_system import PlatformBatchLight, PlatformBatchLightSystem
    from mpf.devices.light import Light

    rec = _R["rec"] = {"cmds": [], "hw": [], "fired": []}
    _R["hwlast"] = {}

    o_vsf = VirtualLight.set_fade

    def vsf(self, sb, st, tb, tt):
        rec["cmds"].append((id(self), sb, st, tb, tt))
        return o_vsf(self, sb, st, tb, tt)
    VirtualLight.set_fade = vsf

    o_dsf = LightPlatformDirectFade.set_fade

    def dsf(self, sb, st, tb, tt):
        rec["cmds"].append((id(self), sb, st, tb, tt))
        return o_dsf(self, sb, st, tb, tt)
    LightPlatformDirectFade.set_fade = dsf

    o_sb = DriverLight.set_brightness

    def sb_(self, b):
        rec["hw"].append((id(self), b, 0))
        return o_sb(self, b)
    DriverLight.set_brightness = sb_

    o_bsf = PlatformBatchLight.set_fade

    def bsf(self, sb, st, tb, tt):
        rec["cmds"].append((id(self), sb, st, tb, tt))
        return o_bsf(self, sb, st, tb, tt)
    PlatformBatchLight.set_fade = bsf

    o_rfo = Light._remove_fade_out

    def rfo(self, key):
        rec["fired"].append((self.name, key, self.machine.clock.get_time()))
        return o_rfo(self, key)
    Light._remove_fade_out = rfo

    class RecDirect(LightPlatformDirectFade):
        __slots__ = []

        def get_max_fade_ms(self):
            return 250

        def set_brightness_and_fade(self, brightness, fade_ms):
            rec["hw"].append((id(self), brightness, fade_ms))

        def get_board_name(self):
            return "rec"

    class RecBatch(PlatformBatchLight):
        __slots__ = []

        def get_max_fade_ms(self):
            return 250

        def get_board_name(self):
            return "rec"

        def is_successor_of(self, other):
            return False

        def __lt__(self, other):
            return self.number < other.number

    _R["RecDirect"] = RecDirect
    _R["RecBatch"] = RecBatch
    _R["BatchSystem"] = PlatformBatchLightSystem
    _R["installed"] = True


def _boot():
    from rig import Rig
    _install_recorders()
    if _R.get("rig"):
        try:
            if _R.get("batch"):
                _R["batch"].stop()
            _R["rig"].stop()
        except BaseException:
            pass
    rig = Rig(_config()).start()
    _R["rig"] = rig
    _R["used"] = {k: 0 for k in range(9)}
    m = rig.machine
    rec = _R["rec"]

    async def batch_cb(items):
        now = m.clock.get_time()
        for light, b, f in items:
            rec["hw"].append((id(light), b, f))
    bs = _R["BatchSystem"](m.clock, batch_cb, 8, 4)
    bs.start()
    _R["batch"] = bs
    for i in range(POOL):
        d = m.lights["dir%d" % i]
        d.hw_drivers["white"] = [_R["RecDirect"]("d%d" % i, m.clock.loop)]
        b = m.lights["bat%d" % i]
        b.hw_drivers["white"] = [_R["RecBatch"]("b%03d" % i, bs)]
        # the RGBW style is a machine-wide setting (mpf: rgbw_white_behavior) which Light._initialize copies into
        # the light; one machine serves all three styles here
        for k, pre in ((7, "rwo"), (8, "rmn")):
            lt = m.lights["%s%d" % (pre, i)]
            if lt._rbgw_style is None:
                raise AssertionError("RGBW light without a style")
            lt._rbgw_style = RGBW_STYLE[k]


def worker_init():
    _boot()


PREFIX = {0: "rgb", 1: "white", 2: "rgbw", 3: "drv", 4: "dir", 5: "bat", 6: "cc", 7: "rwo", 8: "rmn"}


def _fresh_light(kind):
    if _R["used"][kind] >= POOL:
        _boot()
    i = _R["used"][kind]
    _R["used"][kind] += 1
    return _R["rig"].machine.lights["%s%d" % (PREFIX[kind], i)]


def run_history(case):
    kind = case["kind"]
    light = _fresh_light(kind)
    rig = _R["rig"]
    rec = _R["rec"]
    lc = rig.machine.light_controller

    def set_brightness(f4):
        rig.machine.variables.set_machine_var("brightness", f4 / 4.0)
        for _ in range(4):
            rig.advance(0)
        return int(round(lc.brightness_factor * 4))
    if lc.brightness_factor != 1.0:
        set_brightness(4)
    fac = int(round(lc.brightness_factor * 4))
    brt = dict((t, f) for t, f in case.get("bright", []))
    now = rig.now()
    base = math.floor(now) + 2.0
    rig.advance(base - now)
    for k in ("cmds", "hw", "fired"):
        del rec[k][:]
    chans = []
    for cname in ("red", "green", "blue", "white"):
        if cname in light.hw_drivers:
            chans.append(light.hw_drivers[cname][0])
    ids = [id(c) for c in chans]
    byt = {}
    for o in case["ops"]:
        byt.setdefault(o[0], []).append(o)
    ticks = []
    errors = []
    hwlast = [None]

    def tm(t):
        if t <= 0:
            return int(t)
        return int(round((t - base) * 1000)) + T_OFF

    def drain():
        per = {i: [] for i in ids}
        for (i, sb, st, tb, tt) in rec["cmds"]:
            if i in per:
                per[i].append((sb, st, tb, tt))
        del rec["cmds"][:]
        n = len(per[ids[0]])
        cm = []
        if any(len(per[i]) != n for i in ids):
            errors.append("channels received different numbers of commands")
            n = min(len(per[i]) for i in ids)
        for j in range(n):
            row = [per[i][j] for i in ids]
            if any((r[1], r[3]) != (row[0][1], row[0][3]) for r in row):
                errors.append("channels received different times")
            cm.append([0] + [int(round(r[0] * 255)) for r in row] + [tm(row[0][1])] +
                      [int(round(r[2] * 255)) for r in row] + [tm(row[0][3])])
        hw = [[1, int(round(b * 255 * 1024)), int(round(f))] for (i, b, f) in rec["hw"] if i in ids]
        hwraw = [[b, f] for (i, b, f) in rec["hw"] if i in ids]
        del rec["hw"][:]
        if hwraw:
            hwlast[0] = hwraw[-1][0]
        return cm, hw, hwraw

    for t in range(case["nticks"]):
        target = base + t * TICK
        d = target - rig.now()
        if d > 0:
            rig.advance(d)
        fired = []
        for (n, k, ft) in rec["fired"]:
            if n == light.name:
                if fired and fired[-1][0] == tm(ft):
                    fired[-1][1].append(k)
                else:
                    fired.append([tm(ft), [k]])
        del rec["fired"][:]
        pre = list(light.get_color())
        for o in byt.get(t, []):
            try:
                if o[1] == "color":
                    light.color(tuple(o[2]), fade_ms=o[3], priority=o[4], key=o[5])
                elif o[1] == "remove":
                    light.remove_from_stack_by_key(o[2], fade_ms=o[3])
                else:
                    light.clear_stack()
            except Exception as e:   # noqa
                errors.append("%s: %s" % (type(e).__name__, e))
        rig.advance(0)
        rig.advance(0)
        post = list(light.get_color())
        cm, hw, hwraw = drain()
        # what the hardware shows (virtual lights: VirtualLight.current_brightness) / was last told (fade channel, batch)
        if kind in VIRTUAL_KINDS:
            hwnow = [c.current_brightness for c in chans]
        else:
            hwnow = [0.0 if hwlast[0] is None else hwlast[0]]
        cf = []
        for mf in case.get("mfs", []):
            c_, f_, d_ = light._get_color_and_fade(light.stack, mf)
            cf.append([3, mf] + list(c_) + [int(f_), 1 if d_ else 0])
        tkrec = {"fired": fired, "pre": pre, "post": post, "cmds": cm, "hw": hw, "hwraw": hwraw, "fac": fac,
                 "hwnow": hwnow, "cfade": cf}
        if t in brt:
            fac = set_brightness(brt[t])       # in effect from the next tick on
            cm2, hw2, _ = drain()
            if cm2 or hw2:
                errors.append("hardware commands during a brightness change")
        tkrec["fac_end"] = fac
        ticks.append(tkrec)
    # at rest: what the hardware shows / was last told
    final = []
    if kind in VIRTUAL_KINDS:
        final = [c.current_brightness for c in chans]
    else:
        lastb = None
        for tk in ticks:
            for b, f in tk["hwraw"]:
                lastb = b
        final = [lastb]
    if rig.exception():
        errors.append("loop exception: %r" % (rig.exception(),))
    stack = [[e.priority, e.key, e.dest_color is None] for e in light.stack]
    return {"ticks": ticks, "final": final, "errors": errors, "stack": stack}


# ------------------------------------------------------------------------------------------------
# Coq printers
def crgb(c):
    return "(%s,%s,%s)" % (zlit(c[0]), zlit(c[1]), zlit(c[2]))


def cop(o):
    if o[1] == "color":
        return "(OColor %s %s %s %s)" % (crgb(o[2]), zlit(o[3]), zlit(o[4]), zlit(KEYS.index(o[5])))
    if o[1] == "remove":
        return "(ORemove %s %s)" % (zlit(KEYS.index(o[2])), zlit(o[3]))
    return "OClear"


def coq_grid(case, out):
    if out["errors"]:
        return None
    byt = {}
    for o in case["ops"]:
        byt.setdefault(o[0], []).append(o)
    tks = []
    exp = []
    mfs = zlist(case.get("mfs", []))
    for t, tk in enumerate(out["ticks"]):
        fired = coqlist("(%s, %s)" % (zlit(ft), zlist([KEYS.index(k) for k in ks])) for ft, ks in tk["fired"])
        tks.append("(mkTick %s %s %s %s %s)" % (zlit(T_OFF + 125 * t), zlit(tk["fac"]), fired,
                                             coqlist(cop(o) for o in byt.get(t, [])), mfs))
        rows = ([tk["pre"] + tk["post"] + [0]] + [[2] + [int(round(b * 255 * 1024)) for b in tk["hwnow"]]] + tk["cfade"] +
                tk["cmds"] + tk["hw"])
        exp.append(coqlist(zlist(r) for r in rows))
    return "((%s, %s), %s)" % (zlit(case["kind"]), coqlist(tks), coqlist(exp))


def _ptab_coq():
    return coqlist(zlist(row) for row in profile_table())


def hdr():
    return ("From C09 Require Import Model.\nDefinition ptab : list (list Z) := %s.\n"
            "Definition run := run_case ptab.\nDefinition out_eqb := case_out_eqb.\n" % _ptab_coq())


# ------------------------------------------------------------------------------------------------
# oracle: the property's predicate on what the implementation did
def profile_table():
    """the lookup tables of RGBColorCorrectionProfile.generate_from_parameters, computed here from PROFILE"""
    if "table" not in _R:
        g, wp, ls, lco = PROFILE["gamma"], PROFILE["whitepoint"], PROFILE["linear_slope"], PROFILE["linear_cutoff"]
        scale = 1.0 - lco
        tab = []
        for ch in range(3):
            row = []
            for i in range(256):
                v = i / 255.0 * wp[ch]
                if v * ls <= lco:
                    v = int(ls * v * 255)
                else:
                    v = int(lco + pow((v - ls * lco) / scale, g) * scale * 255)
                row.append(max(0, min(v, 255)))
            tab.append(row)
        _R["table"] = tab
    return _R["table"]


def corrected(kind, c, f4):
    """brightness (machine variable) and colour correction of a logical colour, independent of light.py"""
    c = [int(x * (f4 / 4.0)) for x in c]
    if kind == 6:
        tab = profile_table()
        c = [tab[i][c[i]] for i in range(3)]
    return c


def chan_map(kind, c):
    r, g, b = c
    m = min(r, g, b)
    if kind in (0, 6):
        return [r, g, b]
    if kind == 2:
        return [r - m, g - m, b - m, m]
    if kind == 7:          # white_only: any shade of white goes to the white channel alone
        return [0, 0, 0, r] if r == g == b else [r, g, b, 0]
    if kind == 8:          # min_rgb: white is the minimum, RGB unchanged
        return [r, g, b, m]
    return [m]


def _same(a, b):
    return len(a) == len(b) and all(abs(x - y) <= 1e-9 for x, y in zip(a, b))


def oracle(case, out):
    fails = []
    if out["errors"]:
        fails.append({"sig": "exception", "what": "the light raised or misbehaved: %s" % out["errors"][:2]})
        return fails
    kind = case["kind"]
    byt = {}
    for o in case["ops"]:
        byt.setdefault(o[0], []).append(o)
    # specification-level view of the history.  live: key -> dict(p, c, end, t0, start, solo); fadeouts: key -> (p, end)
    live = {}
    fadeouts = {}
    settle = 0.0       # tick after which no fade of this history so far is running any more
    for t, tk in enumerate(out["ticks"]):
        for k in [k for k, e in fadeouts.items() if e[1] <= t]:
            del fadeouts[k]            # a removal fade that has ended is gone
        ops = byt.get(t, [])
        for o in ops:
            settle = max(settle, t + (o[3] / 125.0 if o[1] in ("color", "remove") else 0))
            if o[1] == "color":
                _, _, c, fade, p, k = o
                cur = live[k]["p"] if k in live else fadeouts[k][0] if k in fadeouts else 0
                if (live or fadeouts) and p < cur:
                    continue          # light.py: ignored when lower than the existing entry with the same key
                fadeouts.pop(k, None)
                live[k] = {"p": p, "c": c, "end": t + fade / 125.0, "t0": t, "start": None, "solo": len(ops) == 1}
            elif o[1] == "remove":
                k = o[2]
                if k in live:
                    e = live.pop(k)
                    if o[3]:
                        fadeouts[k] = (e["p"], t + o[3] / 125.0)
                elif k in fadeouts:
                    del fadeouts[k]   # removing a fade-out removes it at once
            else:
                live.clear()
                fadeouts.clear()
        topk = max(live, key=lambda k: (live[k]["p"], k)) if live else None
        top = live[topk] if live else None
        if any(not 0 <= c <= 255 for c in tk["pre"] + tk["post"]):
            fails.append({"sig": "colour-out-of-range", "what": "logical colour %s at tick %d" % (tk["post"], t)})
        running = any(e["end"] > t for e in live.values()) or bool(fadeouts)
        if not running:
            want = top["c"] if top else [0, 0, 0]
            if tk["post"] != want:
                fails.append({"sig": "logical-not-top",
                              "what": "no fade running at tick %d: logical colour %s, highest-priority entry %s"
                                      % (t, tk["post"], want)})
            # ... and the hardware shows it, at every such moment of the history, not only at its end (the batched back
            # end transmits at its next poll; histories that change the brightness are judged at the end, see below)
            # a software / direct fade channel takes its last step up to one interval (<= 250 ms) after the fade's end
            if kind != 5 and not case.get("bright") and "hwnow" in tk and (kind in VIRTUAL_KINDS or t >= settle + 3):
                hw_want = [x / 255.0 for x in chan_map(kind, corrected(kind, want, 4))]
                if not _same(tk["hwnow"], hw_want):
                    fails.append({"sig": "hw-differs-at-rest",
                                  "what": "no fade running at tick %d: hardware shows %s, logical colour %s -> channels %s, "
                                          "%s light" % (t, tk["hwnow"], want, hw_want, KIND_NAMES[kind])})
        # the visible entry is an opaque fade in progress: between its endpoints, no jump when it starts
        covered = top is not None and any((fp, k) > (top["p"], topk) for k, (fp, _) in fadeouts.items())
        if top is not None and top["end"] > t and not covered:
            if top["t0"] == t:
                top["start"] = list(tk["post"])
                if top["solo"] and tk["post"] != tk["pre"]:
                    fails.append({"sig": "fade-start-jump",
                                  "what": "a fading command that becomes the visible entry makes the logical colour jump "
                                          "from %s to %s at tick %d" % (tk["pre"], tk["post"], t)})
            if top["start"] is not None:
                for i in range(3):
                    lo, hi = sorted((top["start"][i], top["c"][i]))
                    if not lo <= tk["post"][i] <= hi:
                        fails.append({"sig": "fade-outside-endpoints",
                                      "what": "tick %d: %s not between %s and %s" % (t, tk["post"], top["start"], top["c"])})
                        break
    # at rest (the history ends after every fade): hardware == logical colour
    last = out["ticks"][-1]
    for t, f4 in case.get("bright", []):
        if t < len(out["ticks"]) and out["ticks"][t]["fac_end"] != f4:
            fails.append({"sig": "brightness-var-ignored", "what": "machine variable brightness=%s/4 at tick %d, "
                          "light controller factor %s/4" % (f4, t, out["ticks"][t]["fac_end"])})
    fac_now = last["fac_end"]
    fac_cmd = 4
    for tk in out["ticks"]:
        if tk["cmds"]:
            fac_cmd = tk["fac"]          # factor in effect when the last command was sent
    want = [x / 255.0 for x in chan_map(kind, corrected(kind, last["post"], fac_now))]
    want_cmd = [x / 255.0 for x in chan_map(kind, corrected(kind, last["post"], fac_cmd))]
    got = [0.0 if g is None else g for g in out["final"]]     # never commanded: still off

    same = _same
    if not same(got, want):
        if fac_cmd != fac_now and same(got, want_cmd):
            # exactly the recorded defect: the brightness changed after the last command this light was sent
            # (a repeated command for the same colour is suppressed by _schedule_update) and is never propagated
            fails.append({"sig": "brightness-change-not-propagated",
                          "what": "brightness changed to %s/4 after the light's last hardware command (sent at %s/4); the "
                                  "hardware still shows %s, corrected logical colour is %s" % (fac_now, fac_cmd, got, want)})
        else:
            fails.append({"sig": "hw-differs-at-rest",
                          "what": "all fades finished: last commanded brightness %s, logical colour %s, corrected for "
                                  "brightness %s/4 -> channels %s, %s light"
                                  % (got, last["post"], fac_now, want, KIND_NAMES[kind])})
    if any(tr for _, _, tr in out["stack"]):
        fails.append({"sig": "fadeout-left-behind", "what": "a fade-out entry is still on the stack at rest: %s" % out["stack"]})
    seen = set()
    res = []
    for f in fails:
        if f["sig"] not in seen:
            seen.add(f["sig"])
            res.append(f)
    return res


# ------------------------------------------------------------------------------------------------
# suite `batch`: PlatformBatchLightSystem / PlatformBatchLight on their own (no machine), model coq/C09/Batch.v
B_T0 = 1000000
B_BASE = 1000.0
ID_SETS = [[0, 1, 2, 4, 5], [0, 2, 3, 4, 7], [1, 2, 3, 4, 5], [0, 3, 6], [2, 3]]
B_FADES = [0, 0, 0, 100, 125, 175, 250, 257, 300, 331, 375, 500, 640, 750, 1000, 1100, 1499, 2000]
B_LEVELS = [0, 0, 255, 255, 128, 77, 1, 254, 51, 102, 204]


def gen_batch(rng, tier, i):
    ids = rng.choice(ID_SETS)
    maxf = rng.choice([0, 125, 250, 250, 250, 500])
    poll = rng.choice([125, 125, 125, 250])
    maxb = rng.choice([1, 2, 2, 3, 8])
    nops = rng.randint(2, 10)
    levels = rng.sample(B_LEVELS, 4) if rng.random() < 0.5 else B_LEVELS

    def fade_op(t_for_start=None):
        lid = rng.choice(ids)
        tb = rng.choice(levels)
        r = rng.random()
        if r < 0.4:
            return [lid, tb, -1, tb, 0]                       # instant (what Light sends: start = target, no times)
        fade = rng.choice(B_FADES[3:])
        sb = rng.choice(levels)
        back = rng.choice([0, 0, 0, 1, 2, 5])                 # the fade started `back` ticks ago (stack change revealing it)
        return [lid, sb, back, tb, fade]
    ops = []
    t = 1
    for _ in range(nops):
        r = rng.random()
        if r < 0.35:
            pass
        elif r < 0.8:
            t += rng.randint(1, 3)
        else:
            t += rng.randint(4, 9)
        ops.append([t] + fade_op())
    cb = {}
    if rng.random() < 0.6:
        for k in rng.sample(range(0, 14), rng.randint(1, 5)):
            cb[str(k)] = [rng.choice([0, 1, 1, 2, 3]), [fade_op() for _ in range(rng.choice([0, 1, 1, 2]))]]
    longest = max([o[5] for o in ops] + [o[4] for v in cb.values() for o in v[1]] + [0])
    nticks = t + int(math.ceil(longest / 125.0)) + 4
    return {"ids": ids, "maxf": maxf, "poll": poll, "maxb": maxb, "ops": ops, "cb": cb, "nticks": nticks}


def run_batch(case):
    import asyncio
    from mpf.tests.loop import TimeTravelLoop, TestClock
    from mpf.core.platform_batch_light_system import PlatformBatchLight, PlatformBatchLightSystem

    trace = []
    errors = []
    loop = TimeTravelLoop()
    loop.set_time(B_BASE)
    clock = TestClock(loop)
    maxf = case["maxf"]

    def ms(t):
        if t <= 0:
            return int(t)
        return int(round((t - B_BASE) * 1000)) + B_T0

    class Ev(asyncio.Event):
        def __init__(self, name):
            super().__init__()
            self._nm = name

        def clear(self):
            if self._nm == "dirty":
                trace.append(["wake", ms(loop.time())])
            super().clear()

    class ClockProxy:
        def __init__(self):
            self.loop = loop

        def get_time(self):
            t = clock.get_time()
            if sys._getframe(1).f_code.co_name == "_schedule_updates":
                trace.append(["sched", ms(t)])
            return t

    class RL(PlatformBatchLight):
        __slots__ = []

        def get_max_fade_ms(self):
            return maxf

        def get_board_name(self):
            return "rec"

        def is_successor_of(self, other):
            return self.number == other.number + 1

        def __lt__(self, other):
            return self.number < other.number

    lights = {}
    cur = {}            # current fade of every light as the harness issued it (floats)
    ncb = [0]

    def do_set(o):
        lid, sb, back, tb, fade = o
        now = loop.time()
        if fade == 0:
            args = (sb / 255.0, -1, tb / 255.0, -1)
            margs = [lid, sb, -1, tb, -1]
        else:
            st = now - back * 0.125
            args = (sb / 255.0, st, tb / 255.0, st + fade / 1000.0)
            margs = [lid, sb, ms(st), tb, ms(st) + fade]
        cur.setdefault(lid, [(0, 0)]).append((sb, tb))
        trace.append(["set", ms(now)] + margs)
        lights[lid].set_fade(*args)

    async def cb(items):
        k = ncb[0]
        ncb[0] += 1
        trace.append(["cb", ms(loop.time()), [[l.number, b, f] for (l, b, f) in items],
                      [[list(x) for x in cur.get(l.number, [(0, 0)])] for (l, b, f) in items]])
        for (l, b, f) in items:
            cur[l.number] = cur.get(l.number, [(0, 0)])[-1:]
        yk, ops = case["cb"].get(str(k), [0, []])
        if yk == 1:
            await asyncio.sleep(0)
        elif yk == 2:
            await asyncio.sleep(0.125)
        elif yk == 3:
            await asyncio.sleep(0.25)
        for o in ops:
            do_set(o)
        trace.append(["cbret", ms(loop.time())])

    bs = PlatformBatchLightSystem(ClockProxy(), cb, 1000 // case["poll"], case["maxb"])
    bs.dirty_lights_changed = Ev("dirty")
    bs.schedule_changed = Ev("sched")
    for i in case["ids"]:
        lights[i] = RL(i, bs)
    try:
        bs.start()

        def adv_to(t):
            d = t - loop.time()
            loop.run_until_complete(asyncio.sleep(d if d > 0 else 0))

        def dump():
            lst = {}
            for l, v in bs.last_state.items():
                lst[l.number] = v
            trace.append(["dump", ms(loop.time()),
                          int(bs.dirty_lights_changed.is_set()), int(bs.schedule_changed.is_set()),
                          [l.number for l in bs.dirty_lights],
                          [[ms(t), l.number] for (t, l) in bs.dirty_schedule],
                          [[i, lights[i]._last_brightness, lst.get(i, [None, None])[0],
                            None if i not in lst else ms(lst[i][1])] for i in case["ids"]]])
        byt = {}
        for o in case["ops"]:
            byt.setdefault(o[0], []).append(o[1:])
        t = 0
        seen = -1
        busy_until = 0
        while t < case["nticks"] or t < busy_until + 5:
            mark = len(trace)
            adv_to(B_BASE + t * 0.125)
            for o in byt.get(t, []):
                do_set(o)
            # everything runnable at this instant runs (no timer lies strictly inside a tick)
            adv_to(B_BASE + t * 0.125 + 0.0625)
            if bs.dirty_lights or bs.dirty_schedule or any(r[0] in ("set", "cb") for r in trace[mark:]):
                busy_until = t
            if len(trace) != seen:
                dump()              # something happened since the last observation: observe the complete state
                seen = len(trace)
            t += 1
            if t > 600:
                break               # does not come to rest: the final observation shows what is left (oracle)
        dump()
        for tk in (bs.update_task, bs.scheduler_task):
            if tk.done() and not tk.cancelled() and tk.exception():
                errors.append("task died: %r" % (tk.exception(),))
    except Exception as e:   # noqa
        errors.append("%s: %s" % (type(e).__name__, e))
    finally:
        try:
            bs.stop()
            loop.run_until_complete(asyncio.sleep(0))
            loop.close()
        except BaseException:
            pass
    return {"trace": trace, "errors": errors}


def bround(b):
    return -1 if b is None else int(round(b * 255 * 1024))


def batch_events(case, out):
    """the history of atomic blocks, and the rows the model has to produce for it"""
    evs = []
    exp = []
    tr = out["trace"]
    hw = {i: 0.0 for i in case["ids"]}
    n = len(tr)
    j = 0
    incb = False
    while j < n:
        r = tr[j]
        kind = r[0]
        if kind == "set":
            evs.append("(%d, ESet %s)" % (r[1], " ".join(zl(x) for x in r[2:])))
        elif kind == "sched":
            evs.append("(%d, ESched)" % r[1])
            exp.append([2, 1])
        elif kind in ("wake", "cbret"):
            if kind == "cbret":
                incb = False
            row = [1, 1]
            if j + 1 < n and tr[j + 1][0] == "cb":
                for (i, b, f) in tr[j + 1][2]:
                    row += [i, bround(b), f]
                    hw[i] = b
                incb = True
            evs.append("(%d, ESend)" % r[1])
            exp.append(row)
        elif kind == "cb":
            pass
        elif kind == "dump":
            evs.append("(%d, EDump %s)" % (r[1], _zl(case["ids"])))
            exp.append([4, r[2], r[3], 1 if incb else 0, 1])
            exp.append([5] + r[4])
            exp.append([6] + [x for e in r[5] for x in e])
            for (i, lb, sb, st) in r[6]:
                exp.append([7, i, bround(lb), bround(sb), -1 if st is None else st, bround(hw[i])])
        j += 1
    return evs, exp


def zl(x):
    return "(%d)" % x if x < 0 else "%d" % x


def _zl(l):
    return "[" + "; ".join(zl(x) for x in l) + "]"


def fragile(out):
    """two different floats for (rationally) the same brightness of one light: the code's float == and the
    model's exact == may disagree"""
    seen = {}
    for r in out["trace"]:
        if r[0] == "cb":
            for (i, b, f) in r[2]:
                for b2 in seen.setdefault(i, set()):
                    if b2 != b and abs(b2 - b) < 1e-9:
                        return True
                seen[i].add(b)
    return False


def coq_batch(case, out, fixed=True):
    if out["errors"] or fragile(out):
        return None
    evs, exp = batch_events(case, out)
    cfg = "(mkCfg %d %d %d %d %s)" % (case["maxf"], case["poll"], case["poll"], case["maxb"], "true" if fixed else "false")
    return "((%s, [%s]), [%s])" % (cfg, "; ".join(evs), "; ".join(_zl(r) for r in exp))


def oracle_batch(case, out):
    fails = []
    if out["errors"]:
        return [{"sig": "batch-exception", "what": "the batch light system raised: %s" % out["errors"][:2]}]
    hw = {i: 0.0 for i in case["ids"]}
    want = {i: 0 for i in case["ids"]}
    for r in out["trace"]:
        if r[0] == "set":
            want[r[2]] = r[5]
        elif r[0] == "cb":
            for (i, b, f), fds in zip(r[2], r[3]):
                hw[i] = b
                # the fades this light was given since it was last transmitted (a brightness computed just before a
                # new set_fade may still be in the sender's hands)
                if not any(min(sb, tb) / 255.0 - 1e-9 <= b <= max(sb, tb) / 255.0 + 1e-9 for (sb, tb) in fds):
                    fails.append({"sig": "batch-brightness-outside-fade",
                                  "what": "light %d was sent brightness %r, outside the endpoints of its fade(s) %s (x/255)"
                                          % (i, b, fds)})
                if f < 0 or f > max(case["maxf"], 0) + case["poll"]:
                    fails.append({"sig": "batch-fade-too-long", "what": "light %d: fade_ms %r, max_fade_ms %d" % (i, f, case["maxf"])})
    last = [r for r in out["trace"] if r[0] == "dump"][-1]
    if last[4] or last[5]:
        fails.append({"sig": "batch-not-at-rest", "what": "5 idle ticks after the last transmission lights are still dirty %s / "
                      "scheduled %s" % (last[4], last[5])})
    for i in case["ids"]:
        if abs(hw[i] - want[i] / 255.0) > 1e-9:
            fails.append({"sig": "batch-hw-differs-at-rest",
                          "what": "all fades finished and the batch system is idle: light %d was last sent brightness %r, its "
                                  "last set_fade asked for %d/255 (max_fade_ms %d, batch size %d, callback script %s)"
                                  % (i, hw[i], want[i], case["maxf"], case["maxb"], case["cb"])})
            break
    seen = set()
    return [f for f in fails if not (f["sig"] in seen or seen.add(f["sig"]))]



def shrink_batch(case):
    ops = case["ops"]
    for i in range(len(ops)):
        yield dict(case, ops=ops[:i] + ops[i + 1:])
    cb = case["cb"]
    for k in list(cb):
        yield dict(case, cb={a: b for a, b in cb.items() if a != k})
    for k, (yk, cops) in cb.items():
        for i in range(len(cops)):
            yield dict(case, cb=dict(cb, **{k: [yk, cops[:i] + cops[i + 1:]]}))
        if yk > 1:
            yield dict(case, cb=dict(cb, **{k: [1, cops]}))
    if len(case["ids"]) > 1:
        used = set(o[1] for o in ops) | set(o[0] for v in cb.values() for o in v[1])
        for i in case["ids"]:
            if i not in used:
                yield dict(case, ids=[x for x in case["ids"] if x != i])
    if case["maxb"] != 8:
        yield dict(case, maxb=8)


def nontrivial_batch(case, out):
    """a set_fade arrived while the callback was awaited, or while a fade of that light was being stepped"""
    incb = False
    stepping = set()
    for r in out.get("trace", []):
        if r[0] == "cb":
            incb = True
            for (i, b, f) in r[2]:
                if f == case["maxf"] and f > 0:
                    stepping.add(i)
        elif r[0] == "cbret":
            incb = False
        elif r[0] == "set":
            if incb or r[2] in stepping:
                return True
    return False


def describe_batch(case):
    return "max_fade=%d poll=%d batch=%d lights=%d ops=%d cb-scripts=%d" % (
        case["maxf"], case["poll"], case["maxb"], len(case["ids"]), len(case["ops"]), len(case["cb"]))


BHDR = ("From C09 Require Import Batch.\nDefinition run := brun_case.\nDefinition out_eqb := bcase_out_eqb.\n")


def shrink(case):
    ops = case["ops"]
    for i in range(len(ops)):
        yield dict(case, ops=ops[:i] + ops[i + 1:])
    for i, o in enumerate(ops):
        if o[1] == "color" and o[2] not in ([255, 255, 255], [0, 0, 0]):
            yield dict(case, ops=ops[:i] + [[o[0], "color", [255, 255, 255], o[3], o[4], o[5]]] + ops[i + 1:])
    br = case.get("bright", [])
    for i in range(len(br)):
        yield dict(case, bright=br[:i] + br[i + 1:])
    if ops and ops[0][0] > 0 and all(b[0] >= ops[0][0] for b in br):
        d = ops[0][0]
        yield dict(case, nticks=case["nticks"] - d, ops=[[o[0] - d] + o[1:] for o in ops],
                   bright=[[b[0] - d, b[1]] for b in br])


def nontrivial(case, out):
    ends = []
    for o in case["ops"]:
        if any(o[0] < e for e in ends):
            return True
        f = o[3] if o[1] in ("color", "remove") else 0
        if f:
            ends.append(o[0] + f / 125.0)
    return False


def describe(case):
    return "%s ops=%d%s" % (KIND_NAMES[case["kind"]], len(case["ops"]), " +brightness" if case.get("bright") else "")


SUITES = [
    Suite("grid", gen_grid, run_history, hdr(), coq_grid, oracle, shrink, nontrivial,
          {"quick": 700, "thorough": 20000}, worker_init=worker_init, shard=177, describe=describe),
    Suite("offgrid", gen_offgrid, run_history, hdr(), coq_grid, oracle, shrink, nontrivial,
          {"quick": 240, "thorough": 8000}, worker_init=worker_init, shard=61, describe=describe),
    Suite("batch", gen_batch, run_batch, BHDR, coq_batch, oracle_batch, shrink_batch, nontrivial_batch,
          {"quick": 260, "thorough": 12000}, shard=66, describe=describe_batch),
    Suite("generic", gen_generic, run_history, None, None, oracle, shrink, nontrivial,
          {"quick": 400, "thorough": 12000}, worker_init=worker_init, describe=describe),
]

LEVEL_TEXT = ("Machine-checked proof (Coq) about executable models of Light's priority stack, colour interpolation "
              "(_get_color_and_fade for any max_fade_ms), hardware-update suppression, brightness and colour-profile "
              "correction, the RGB/white/RGBW (three styles) channel mapping, the software/direct fade channel, VirtualLight "
              "and the batch light system (both tasks, events, schedule, last_state, yielding callback): the logical colour "
              "is the top entry's, fades stay between their endpoints and end on the target, removal restores the colour "
              "beneath, clearing turns the light off; one theorem about complete runs: whenever no fade is in progress "
              "every hardware channel shows the corrected logical colour; for the batch system, in every interleaving, no "
              "update and no wake-up is lost and at rest every light was last sent its target. The models are tied to the "
              "working tree by running both on the same generated histories on every run.")
LEVEL_NOTE = ("Trusted: Coq kernel + vm_compute; no axioms. Models hand-written; the differential run validates them tick by "
              "tick (logical colour, hardware channels, set_fade commands, brightness commands, delays) resp. block by block "
              "with the complete internal state of the batch system. Brightness factor: proved for the factor of the light's "
              "last command (known finding brightness-change-not-propagated), in full for a constant factor. The end-to-end "
              "run Light -> batch back end and fade lengths in 25 ms steps are covered by the direct oracle only.")
TECHNIQUE = "Coq proof over hand-written executable models + differential correspondence (vm_compute) + direct property oracle"
DESIGN_REF = "DESIGN.md section 3, C09"
