"""C06 — game lifecycle: turns, balls and lifecycle events are well-formed."""
import os

from vlib import Suite, zlit, coqlist, blit

ID = "C06"
READY = True
RULE = ("suite game: one case = one or two games on a real MPF machine (rig.FakeGameRig, virtual clock): generated balls_per_game (1-4), "
        "max_players (1-5), num_balls_known (0-4), answer to the game's own first player_add_request, and a list of "
        "inputs consumed one per suspension of the game coroutine (every lifecycle event post, every idle wait for "
        "end-of-ball / first player / empty playfield).  An input carries the operations a handler of that lifecycle event issues "
        "(drain n = ball_drain relay + the balls leave the playfield, playfield count += d (stray ball in the drain, lost/found ball), "
        "balls_in_play += d, end_ball, end_game, slam tilt, request_player_add allowed/denied, release of the oldest/newest "
        "player_adding queue held open by a handler (cases with such a handler: profile heldadds and 10% of the others), "
        "extra-ball award), the batches that arrive while a queue-event handler holds a wait, and the batch used when the game is idle. "
        "Every operation is followed by an observation of balls_in_play (compared with the model and used by the oracle to attribute "
        "every change to one operation).  Half of the cases without held adds start a second game with its own configuration on the "
        "same Game mode object when the first has ended (playfield left as it is) and feed it the remaining inputs. "
        "Profiles bias towards: adds in every gap, extra balls, multiball arithmetic, early ends, plain games, balls ended by request "
        "that drain at every later suspension point (latedrain), negative / left-over playfield counts (strays), joins inside the "
        "last player's turn-ending events with balls_per_game 1 (lastjoin), two further game modes gm0/gm1 that start and stop during the "
        "game (their start / stop events arrive inside held lifecycle queue events and idle waits), the stop of gm0 held by a handler of "
        "mode_gm0_stopping across turn ends and the game end (modes), the game mode stopped "
        "from outside (modes.game.stop(), what service_mode_entered does) at a generated quiescent suspension point: idle waits and every "
        "batch of held lifecycle queue events; afterwards every held handler finishes and lifecycle events of the stopped game are "
        "recorded (stopper; 76 of 600 quick games are stopped, in all six queue events). "
        "suite devices: real trough + plunger + playfield on the smart_virtual platform with the real ball "
        "controller and the real tilt mode; a script attaches physical drains, stray balls, playfield switch hits, end_ball requests, "
        "tilt / slam tilt / tilt warning switch hits and queue holds to the lifecycle events, to held queue events, to live balls and to "
        "the time the tilt mode holds ball_ending; balls in play drain after a while.  Game-level clauses: oracle only; the tilt mode's "
        "request functions: request-level correspondence with Tilt.v. "
        "non-trivial = the game got at least one operation inside a lifecycle event (not only idle drains); distinct by case hash")
TRUSTED_BASE = [
    "Coq 8.16.1 kernel (coqc), vm_compute for refutation witnesses and for evaluating the model in the correspondence run; no native_compute",
    "axioms: none (every Print Assumptions is 'Closed under the global context')",
    "hand-written model coq/C06/Model.v (pc machine of Game._run incl. the wait of BallController.wait_until_playfields_are_empty, the "
    "playfield count read by it, and the re-initialisation at the top of _run for further games on the same mode object) tied to the "
    "working tree by correspondence: harness/props/c06.py runs the real game mode and the model on the same generated inputs and compares "
    "the whole chronological trace (lifecycle events with player, ball, is_extra_ball, balls_in_play, number of players; one observation "
    "of balls_in_play per operation with the kind of request; idle observations with balls_in_play, players and playfield count; awards; end)",
    "the MPF event manager (depth-first event queue, callbacks after the queue is empty, queue events as tasks) and asyncio are used as they "
    "are; their effect on the game is summarised in the model as 'a batch takes effect in order, player-add chains complete at the end of the batch'",
    "mpf.tests.MpfFakeGameTestCase for suite game (no ball devices: playfield.add_ball stubbed to count available_balls, num_balls_known set, "
    "drains posted as ball_drain relay events); suite devices uses real ball devices: its game-level clauses are checked by the oracle only",
    "hand-written coq/C06/Outer.v (stop procedure of the game mode: Mode.stop / Game._stop_game_modes / AsyncMode._stopped / Game.mode_stop, "
    "and one further game mode with a stop that a handler can hold) layered over the unchanged coroutine model; part of the whole-trace "
    "correspondence of suite game (run = orun)",
    "hand-written coq/C06/Tilt.v (Tilt.tilt / slam_tilt / tilt_warning as functions on the game object's fields) tied by a request-level "
    "correspondence in suite devices: every switch hit of the real tilt mode with the state before and right after it",
]
ASSUMPTIONS = [
    "no handler of player_added/player_will_add acts on the game; a player_adding handler, when present, holds every new player's "
    "queue until an explicit release, and releases happen only while the machine is quiescent (idle batch or inside a held lifecycle "
    "queue event): the interleaving of an unheld player_adding queue task with the next lifecycle event belongs to C01/C02",
    "operations reach the game only at lifecycle events (handlers), inside held queue events, or while the game idles (end of ball, first "
    "player, empty playfield); the silent awaits of _start_ball (single/multi_player_ball_started, ball_start_target) get no operations",
    "bonus/high-score modes are not loaded; in suite game slam tilt is the effect of Tilt.slam_tilt on a game object that is not tilted "
    "(slam_tilted=True, end_ball unless ending; Coq: slam_request_is_core_op); the real tilt mode runs in suite devices, where its hold of "
    "ball_ending (balls to collect, settle time) is a handler delay that is not modelled",
    "the external stop of the game mode, the start / stop events of the further game modes, the release of a held player_adding queue and the "
    "release of gm0's held stop are issued only while "
    "the machine is quiescent (idle batch / batch inside a held lifecycle queue event): inside a handler their completion races with the "
    "resumption of the coroutine (C01/C02); no game mode start / stop event after the first generated stop request; the handler that holds "
    "gm0's stop lets go at the latest at the next ball_ending; after an external stop attract is restarted by posting game_ended (as the "
    "service mode's exit does)",
    "/repo carries fixes/C06-ball-starting-after-game-stop.patch (without it the check reports machine-error: AttributeError in "
    "ModeController._ball_starting after a stop inside a held ball_starting)",
    "balls_per_game >= 1, max_players >= 1, num_balls_known >= 0; one playfield; wait_for_empty_playfields_on_ball_start at its default (true)",
    "new_game_starts_clean assumes that no player_adding queue is still held open when the game ends (second games are generated only "
    "for cases without such a handler)",
]

KINDS = ["game_will_start", "game_starting", "game_started", "game_will_end", "game_ending", "game_ended",
         "player_turn_will_start", "player_turn_starting", "player_turn_started",
         "player_turn_will_end", "player_turn_ending", "player_turn_ended",
         "ball_will_start", "ball_starting", "ball_started", "ball_will_end", "ball_ending", "ball_ended"]
K = {n: i for i, n in enumerate(KINDS)}
QUEUE = {1, 4, 7, 10, 13, 16}
GWS, GSg, GSd, GWE, GEg, GEd, PTWS, PTSg, PTSd, PTWE, PTEg, PTEd, BWS, BSg, BSd, BWE, BEg, BEd = range(18)

# operations that are only issued while the machine is quiescent (idle batch, batch inside a held lifecycle queue event): they
# complete in queue-event tasks / callbacks, and inside a handler of a lifecycle event that completion races with the resumption of
# the coroutine and with the operations of the NEXT lifecycle event (event manager / asyncio: C01/C02).  Observed: a stop of gm0
# issued by a handler of ball_starting is still under way when the handlers of ball_started run.
EV_EXCLUDED = ("release", "mrelease", "stop", "mstart", "mstop")

# two further game modes (game modes have to stop at the ball end: the config validator refuses stop_on_ball_end: false for them).
# gm0: a handler of mode_gm0_stopping (a goodbye show) can keep the queue of a stop that gm0's own stop event started; it lets go
# at the latest when the next ball_ending is posted.  gm1: an ordinary game mode whose stop is never held.
GAME_MODES = {
    "gm0": {"mode": {"start_events": "verif_gm0_start", "stop_events": "verif_gm0_stop", "game_mode": True, "priority": 210}},
    "gm1": {"mode": {"start_events": "verif_gm1_start", "stop_events": "verif_gm1_stop", "game_mode": True, "priority": 220}},
}

PROFILES = ["plain", "busy", "adds", "heldadds", "heldadds", "extras", "multiball", "enders", "mixed",
            "latedrain", "strays", "lastjoin", "modes", "modes", "stopper", "stopper"]


# ------------------------------------------------------------------------------------------------
# generator
def gen_op(rng, prof):
    w = {"drain": 2, "addbip": 1, "endball": 1, "endgame": 0.25, "slam": 0.25, "addplayer": 2.5, "award": 1, "release": 0.7}
    if prof == "adds":
        w = {"drain": 1, "addbip": 0, "endball": 1, "endgame": 0, "slam": 0, "addplayer": 8, "award": 1, "release": 0.5}
    elif prof == "heldadds":
        # player_adding queues held open across turn ends and ball starts, released late and out of step
        w = {"drain": 1, "addbip": 0, "endball": 1, "endgame": 0.05, "slam": 0.05, "addplayer": 6, "award": 0.5, "release": 1.2}
    elif prof == "extras":
        w = {"drain": 1, "addbip": 0, "endball": 1, "endgame": 0.2, "slam": 0.3, "addplayer": 1, "award": 6}
    elif prof == "multiball":
        w = {"drain": 4, "addbip": 5, "endball": 0.5, "endgame": 0.2, "slam": 0.2, "addplayer": 1, "award": 1}
    elif prof == "enders":
        w = {"drain": 1, "addbip": 1, "endball": 3, "endgame": 3, "slam": 2, "addplayer": 2, "award": 1}
    elif prof == "plain":
        w = {"drain": 1, "addbip": 0.3, "endball": 1, "endgame": 0.1, "slam": 0.1, "addplayer": 2, "award": 1}
    elif prof == "latedrain":
        # balls ended by request while still on the playfield; they drain at every later suspension point
        w = {"drain": 6, "addbip": 0.2, "endball": 2.5, "endgame": 0.05, "slam": 0.2, "addplayer": 0.7, "award": 0.5, "pfadd": 0.3}
    elif prof == "strays":
        # stray balls roll into the drain / balls get lost between two balls: the playfield count goes negative / stays up
        w = {"drain": 3, "addbip": 0.5, "endball": 1, "endgame": 0.05, "slam": 0.1, "addplayer": 0.7, "award": 0.5, "pfadd": 4}
    elif prof == "lastjoin":
        # joins inside the turn-ending events of the (so far) last player
        w = {"drain": 1, "addbip": 0, "endball": 1, "endgame": 0, "slam": 0, "addplayer": 7, "award": 0.3, "pfadd": 0.1}
    elif prof == "modes":
        # further game modes start and stop during the game; the stop of gm0 is held by a handler across ball ends and the game end
        w = {"drain": 1, "addbip": 0.2, "endball": 1, "endgame": 0.5, "slam": 0.2, "addplayer": 1, "award": 0.5,
             "mstart": 4, "mstop": 3, "mrelease": 1.2}
    elif prof == "stopper":
        w = {"drain": 1, "addbip": 0.3, "endball": 1, "endgame": 0.1, "slam": 0.1, "addplayer": 1.5, "award": 1,
             "mstart": 1, "mstop": 0.7, "mrelease": 0.5}
    w.setdefault("release", 0.3)
    w.setdefault("pfadd", 0.25)
    w.setdefault("mstart", 0.15)
    w.setdefault("mstop", 0.1)
    w.setdefault("mrelease", 0.1)
    ks = list(w)
    k = rng.choices(ks, [w[x] for x in ks])[0]
    if k == "mstart":
        return ["mstart", rng.choice([0, 0, 0, 1])]
    if k == "mstop":
        if rng.random() < 0.25:
            return ["mstop", 1, False]
        return ["mstop", 0, rng.random() < 0.6]
    if k == "mrelease":
        return ["mrelease"]
    if k == "drain":
        return ["drain", rng.choice([0, 1, 1, 1, 2, 3])]
    if k == "addbip":
        return ["addbip", rng.choice([1, 1, 2, -1, -2, 5, -7, 0])]
    if k == "pfadd":
        return ["pfadd", rng.choice([-1, -1, -1, 1, 1, -2, 2, -3])]
    if k in ("endball", "endgame"):
        return [k, rng.choice(["call", "event"])]
    if k == "addplayer":
        return ["addplayer", rng.random() < 0.85]
    if k == "release":
        return ["release", rng.random() < 0.3]
    return [k]


def gen_batch(rng, prof, p_any, maxn=3, ev=False):
    if rng.random() >= p_any:
        return []
    b = [gen_op(rng, prof) for _ in range(rng.choice([1, 1, 1, 2, 2, maxn]))]
    if ev:
        # a player_adding queue is only released while the machine is quiescent (idle batch / batch inside a held
        # lifecycle queue event): inside a handler the relative order of the queue task and the next lifecycle event
        # is a matter of the event manager (C01/C02), not of the game.  The same holds for the release of a held
        # mode_gm0_stopping queue (it may complete the stop of the game mode).
        b = [o for o in b if o[0] not in EV_EXCLUDED]
    return b


def gen_idle(rng, prof):
    r = rng.random()
    if prof == "latedrain" and r < 0.45:
        # the ball is ended by request (it stays on the playfield and comes home later)
        b = [["endball", rng.choice(["call", "event"])]]
        if rng.random() < 0.2:
            b.append(["drain", 1])
        return b
    if r < 0.55:
        b = [["drain", 1]]
    elif r < 0.63:
        b = [["drain", 0]]
    elif r < 0.70:
        b = [["drain", rng.choice([2, 3])]]
    elif r < 0.75:
        b = []
    elif r < 0.80:
        b = [["endball", rng.choice(["call", "event"])]]
    else:
        b = [gen_op(rng, prof)]
    if rng.random() < 0.25:
        b = b + [gen_op(rng, prof)]
    if rng.random() < 0.1:
        b = [gen_op(rng, prof)] + b
    return b


def gen_input(rng, prof, dens):
    holds = []
    if rng.random() < (0.4 if prof == "modes" else 0.12):
        holds = [gen_batch(rng, prof, 0.7) for _ in range(rng.choice([0, 1, 1, 2, 3]))]
    return {"ev": gen_batch(rng, prof, dens, ev=True), "holds": holds, "idle": gen_idle(rng, prof)}


def gen_game(rng, tier, i):
    prof = rng.choice(PROFILES)
    if os.environ.get("VERIF_C06_PROFILES"):
        # development aid: restrict the generator to some profiles (never set by ./check itself)
        prof = rng.choice(os.environ["VERIF_C06_PROFILES"].split(","))
    dens = {"plain": 0.04, "busy": 0.35, "adds": 0.25, "heldadds": rng.choice([0.08, 0.2, 0.4]), "extras": 0.12, "multiball": 0.15, "enders": 0.06,
            "mixed": rng.choice([0.02, 0.1, 0.5]), "latedrain": rng.choice([0.15, 0.3, 0.5]), "strays": rng.choice([0.1, 0.3]),
            "lastjoin": rng.choice([0.3, 0.6]), "modes": rng.choice([0.3, 0.5, 0.7]), "stopper": rng.choice([0.05, 0.2, 0.4])}[prof]
    if prof == "adds" and rng.random() < 0.5:
        dens = 0.6
    n = rng.choice([6, 15, 30, 60, 100, 160, 240])
    if tier == "thorough" and rng.random() < 0.2:
        n *= 2
    ins = [gen_input(rng, prof, dens) for _ in range(n)]
    if prof == "modes":
        # gm0 starts and gets its own stop event, held by a handler, while a lifecycle queue event is held (when that is
        # player_turn_ending of the last turn or game_ending, the game ends while gm0's stop is still held)
        for inp in ins:
            r = rng.random()
            if r < 0.2:
                inp["holds"] = [[["mstart", 0]], [["mstop", 0, True]]] + inp["holds"]
            elif r < 0.3:
                inp["holds"] = inp["holds"] + [[["mstop", 0, True]]]
    if prof == "stopper" or (prof == "modes" and rng.random() < 0.3):
        # the game mode is stopped from outside (service mode entered, machine code calling modes.game.stop()) at a generated
        # suspension point: inside a handler of a lifecycle event, while a handler holds a lifecycle queue event, or while the
        # game idles.  The stop request is the only operation of its batch; after the first one no further game mode
        # starts / stop events are generated (a game mode starting while the game mode stops is C07 material).
        k = rng.randrange(0, max(1, min(n, rng.choice([8, 20, 40, 80, n]))))
        first = True
        for j in range(k, n):
            inp = ins[j]
            for f in ("ev", "idle"):
                inp[f] = [o for o in inp[f] if o[0] not in ("mstart", "mstop")]
            inp["holds"] = [[o for o in h if o[0] not in ("mstart", "mstop")] for h in inp["holds"]]
            if first or rng.random() < 0.4:
                first = False
                loc = rng.choice(["hold", "hold", "idle", "all"])
                if loc in ("hold", "all"):
                    hs = inp["holds"] or [[]]
                    hs[rng.randrange(len(hs))] = [["stop"]]
                    inp["holds"] = hs
                if loc in ("idle", "all"):
                    inp["idle"] = [["stop"]]
    if rng.random() < 0.75:
        # a calm tail so that most games run to their end
        for _ in range(rng.choice([40, 120, 300])):
            ins.append({"ev": [], "holds": [], "idle": [["drain", rng.choice([1, 1, 1, 2])]]})
    case = {"bpg": rng.choice([1, 1, 2, 2, 3, 3, 4]), "maxp": rng.choice([1, 2, 2, 3, 4, 4, 5]),
            "nbk": rng.choice([0, 1, 2, 3, 3, 4]), "own": rng.random() < 0.93,
            "holdadds": prof == "heldadds" or (prof not in ("modes", "stopper") and rng.random() < 0.1), "ins": ins, "profile": prof}
    if prof == "lastjoin":
        case["bpg"] = rng.choice([1, 1, 1, 2])
        case["maxp"] = rng.choice([2, 3, 4, 5])
    if not case["holdadds"] and rng.random() < 0.5:
        # a second game on the same Game mode object, started when the first one has ended, fed with the rest of the inputs
        case["g2"] = {"bpg": rng.choice([1, 2, 3]), "maxp": rng.choice([1, 2, 4]), "own": rng.random() < 0.95}
    return case


# ------------------------------------------------------------------------------------------------
# implementation side: one rig per worker, one game per case
_R = {}


def _new_rig():
    from rig import FakeGameRig
    r = FakeGameRig({"game": {"balls_per_game": 3, "max_players": 4}, "modes": ["gm0", "gm1"]}, modes=GAME_MODES)
    r.start()
    m = r.machine

    def ctx():
        return _R.get("ctx")

    def post_batch(ops):
        for op in ops:
            m.events.post("verif_op", op=op)

    def lifecycle(kind):
        def h(**kwargs):
            c = ctx()
            g = m.game
            if c is None:
                return
            if c["phase"] == "restart":
                if kind == GSd:
                    c["restart_started"] = True
                return
            if c["phase"] == "linger":
                # a lifecycle event although the game mode has been stopped and machine.game is cleared
                c["log"].append({"t": "zombie", "k": kind})
                return
            if c["phase"] != "run" or c["stop"]:
                return
            if kind == GEd:
                c["ged"] = True
            if kind == BEg and c["mheld"] is not None and not (c["pos"] < len(c["ins"]) and c["ins"][c["pos"]]["holds"]):
                # the handler that holds gm0's stop lets go when the ball ends: the mode controller (a later handler of
                # ball_ending) is about to wait for gm0.  (When this handler holds ball_ending itself, the driver releases
                # gm0's stop together with that hold.)
                q = c["mheld"]
                c["mheld"] = None
                q.clear()
            pl = g.player if g else None
            rec = {"t": "ev", "k": kind, "p": pl.number if pl else 0, "b": pl.ball if pl else 0,
                   "x": bool(kwargs.get("is_extra_ball", False)), "bip": g.balls_in_play if g else -99,
                   "np": len(g.player_list) if g else -99, "active": g is not None,
                   "ending": bool(g.ending) if g else None, "slam": bool(g.slam_tilted) if g else None}
            if kind in (BWS, BSg, BSd):
                rec["kw"] = [kwargs.get("player"), kwargs.get("ball"), kwargs.get("balls_remaining")]
            elif PTWS <= kind <= PTEd:
                rec["kw"] = [kwargs.get("number"), 1 if kwargs.get("player") is pl else 0]
            c["log"].append(rec)
            c["evc"] += 1
            if c["pos"] >= len(c["ins"]):
                c["stop"] = True
                return
            inp = c["ins"][c["pos"]]
            c["pos"] += 1
            post_batch([o for o in inp["ev"] if o[0] not in EV_EXCLUDED])
            if kind in QUEUE and inp["holds"]:
                kwargs["queue"].wait()
                c["hold"] = [kwargs["queue"], list(inp["holds"]), kind]
        return h

    for i, name in enumerate(KINDS):
        m.events.add_handler(name, lifecycle(i), priority=1000)

    def verif_op(op, **kwargs):
        c = ctx()
        g = m.game
        if c is None or g is None:
            return
        c["log"].append({"t": "op", "op": op[0], "bip": g.balls_in_play, "ending": bool(g.ending),
                         "pf": m.playfield.available_balls,
                         "gm0": [bool(m.modes["gm0"].active), bool(m.modes["gm0"].stopping), c["mhold"], c["mheld"] is not None]})
        k = op[0]
        code = 0
        if k == "drain":
            # MpfFakeGameTestCase.drain_one_ball: the relay event, and the balls leave the playfield
            m.events.post_relay("ball_drain", balls=op[1])
            m.playfield.available_balls -= op[1]
        elif k == "pfadd":
            # a stray ball rolls into the trough while the playfield had none / a ball is found or lost
            m.playfield.available_balls += op[1]
        elif k == "addbip":
            g.balls_in_play += op[1]
        elif k == "endball":
            code = 1
            if op[1] == "event":
                m.events.post("end_ball")
            else:
                g.end_ball()
        elif k == "endgame":
            code = 2
            if op[1] == "event":
                m.events.post("end_game")
            else:
                g.end_game()
        elif k == "slam":
            # Tilt.slam_tilt(): game.slam_tilted = True; self.tilt() returns early when the game is ending, else end_ball()
            code = 4 if g.ending else 3
            g.slam_tilted = True
            if not g.ending:
                g.end_ball()
        elif k == "addplayer":
            c["flags"].append(bool(op[1]))
            if not g.request_player_add():
                c["flags"].pop()
        elif k == "release":
            if c["heldq"]:
                c["heldq"].pop(-1 if op[1] else 0).clear()
        elif k == "stop":
            # the game mode is stopped from outside (what the stop event service_mode_entered / machine code does)
            m.modes["game"].stop()
        elif k == "mstart":
            m.events.post("verif_gm%d_start" % op[1])
        elif k == "mstop":
            if op[1] == 0:
                # the goodbye-show handler keeps the queue of the stop this event starts (if it starts one)
                md = m.modes["gm0"]
                if op[2] and md.active and not md.stopping:
                    c["mhold"] = True
            m.events.post("verif_gm%d_stop" % op[1])
        elif k == "mrelease":
            if c["mheld"] is not None:
                q = c["mheld"]
                c["mheld"] = None
                q.clear()
        elif k == "award":
            if g.player:
                g.player.extra_balls += 1
                c["log"].append({"t": "award", "p": g.player.number})
            else:
                c["log"].append({"t": "award", "p": 0})
        # events posted by a handler are processed before the rest of the queue, in order: the observation below
        # comes after the ball_drain / end_ball / end_game event of this operation and before the next operation
        m.events.post("verif_after", code=code)

    def verif_after(code, **kwargs):
        c = ctx()
        g = m.game
        if c is None or g is None:
            return
        c["log"].append({"t": "opobs", "code": code, "bip": g.balls_in_play})

    def player_add_request(**kwargs):
        c = ctx()
        if c is None:
            return None
        ok = c["flags"].pop(0) if c["flags"] else c["own"]
        return None if ok else False

    def player_adding(queue, **kwargs):
        c = ctx()
        if c is None or c["phase"] != "run":
            return
        queue.wait()
        c["heldq"].append(queue)

    def gm0_stopping(queue, **kwargs):
        # a handler of mode_gm0_stopping (a goodbye show, a slide): keeps the queue when the stop came with hold=True
        c = ctx()
        if c is None or c["phase"] not in ("run", "linger"):
            return
        if c["mhold"]:
            c["mhold"] = False
            queue.wait()
            c["mheld"] = queue
    m.events.add_handler("mode_gm0_stopping", gm0_stopping, priority=1000)

    r._player_adding = player_adding
    m.events.add_handler("verif_op", verif_op)
    m.events.add_handler("verif_after", verif_after)
    m.events.add_handler("player_add_request", player_add_request, priority=1000)

    def _add_ball(**kwargs):
        # (MpfFakeGameTestCase also counts playfield.balls; only available_balls is read by the code under test, and
        # leaving balls at 0 keeps the ball search of the playfield out of the picture)
        m.playfield.available_balls += 1
    m.playfield.add_ball = _add_ball
    r._post_batch = post_batch
    return r


def _drop_rig():
    r = _R.pop("rig", None)
    if r is not None:
        try:
            r.stop()
        except BaseException:   # noqa
            pass


def _finish_game(r):
    """end whatever game is running, without recording; False when it cannot be ended"""
    m = r.machine
    for _ in range(80):
        if m.game is None:
            break
        m.playfield.available_balls = 0     # a ball start waits for the balls to come home
        m.game.end_game()
        r.advance_time_and_run(1)
    if m.game is None and not m.modes["attract"].active:
        # the last game was stopped from outside (no game_ended): bring attract back the way the service mode's exit does
        m.events.post("game_ended")
        r.advance_time_and_run(1)
    return m.game is None and bool(m.modes["attract"].active)


def run_game(case):
    from mpf.core.placeholder_manager import NativeTypeTemplate
    if "rig" not in _R:
        _R["rig"] = _new_rig()
    r = _R["rig"]
    m = r.machine
    _R["ctx"] = None
    if (m.game is not None or not m.modes["attract"].active) and not _finish_game(r):
        _drop_rig()
        _R["rig"] = r = _new_rig()
        m = r.machine
    m.config["game"]["balls_per_game"] = NativeTypeTemplate(int(case["bpg"]), m)
    m.config["game"]["max_players"] = NativeTypeTemplate(int(case["maxp"]), m)
    m.ball_controller.num_balls_known = int(case["nbk"])
    m.playfield.balls = 0
    m.playfield.available_balls = 0
    c = {"phase": "run", "stop": False, "log": [], "evc": 0, "pos": 0, "ins": case["ins"], "hold": None,
         "flags": [], "heldq": [], "own": bool(case["own"]), "restart_started": False, "gameno": 1, "lastfin": None,
         "ged": False, "mhold": False, "mheld": None}
    _R["ctx"] = c
    m.events.remove_handler(r._player_adding)
    if case.get("holdadds"):
        # a handler of the player_adding queue event that keeps every new player's queue open until it is told to
        # release it (op "release"); without it the event manager completes player_adding on its fast path
        m.events.add_handler("player_adding", r._player_adding, priority=1000)
    out = {"log": c["log"], "err": None, "splits": []}
    try:
        r.hit_and_release_switch("s_start")
        guard = 0
        while True:
            guard += 1
            if guard > 20000:
                out["err"] = "driver-loop-guard"
                break
            r.advance_time_and_run(0.5)
            if c["stop"]:
                break
            if c["hold"] is not None and m.game is not None:
                q, rem = c["hold"][0], c["hold"][1]
                if rem:
                    r._post_batch(rem.pop(0))
                elif c["hold"][2] == BEg and c["mheld"] is not None:
                    # the handler that holds gm0's stop lets go before ball_ending goes on to the mode controller
                    mq = c["mheld"]
                    c["mheld"] = None
                    mq.clear()
                else:
                    c["hold"] = None
                    q.clear()
                continue
            if m.game is None:
                if c["evc"] == 0:
                    if c["lastfin"] is not None:
                        c["lastfin"]["restart_ok"] = False
                    else:
                        out["err"] = "game-did-not-start"
                    break
                # the game mode has stopped: the coroutine returned (game_ended was posted) or it was stopped from outside
                gm_active = [n for n in ("gm0", "gm1") if m.modes[n].active]
                fin = {"t": "fin" if c["ged"] else "killed", "game_none": True, "gm_active": gm_active,
                       "game_mode_active": bool(m.modes["game"].active)}
                if not c["ged"]:
                    # nothing of the dead game may go on: let every handler that still holds a lifecycle queue finish
                    c["phase"] = "linger"
                    if c["hold"] is not None:
                        c["hold"][0].clear()
                        c["hold"] = None
                    for q in c["heldq"]:
                        q.clear()
                    c["heldq"] = []
                    r.advance_time_and_run(3)
                    c["phase"] = "between"
                    # the game mode did not end by itself: attract is brought back the way the service mode does on exit
                    if not m.modes["attract"].active:
                        m.events.post("game_ended")
                        r.advance_time_and_run(1)
                    c["phase"] = "run"
                if case.get("g2") and c["gameno"] == 1 and c["pos"] < len(c["ins"]):
                    # a second game on the same mode object, with its own configuration; the playfield stays as it is
                    g2 = case["g2"]
                    c["gameno"] = 2
                    c["evc"] = 0
                    c["ged"] = False
                    c["own"] = bool(g2["own"])
                    c["flags"] = []
                    c["lastfin"] = fin
                    fin["restart_ok"] = True
                    c["log"].append(fin)
                    out["splits"].append(c["pos"])
                    m.config["game"]["balls_per_game"] = NativeTypeTemplate(int(g2["bpg"]), m)
                    m.config["game"]["max_players"] = NativeTypeTemplate(int(g2["maxp"]), m)
                    r.hit_and_release_switch("s_start")
                    continue
                c["phase"] = "restart"
                c["own"] = True
                c["flags"] = []
                r.hit_and_release_switch("s_start")
                r.advance_time_and_run(1)
                fin["restart_ok"] = bool(m.game is not None and c["restart_started"])
                c["log"].append(fin)
                break
            if c["pos"] >= len(c["ins"]):
                break
            inp = c["ins"][c["pos"]]
            c["pos"] += 1
            evc = c["evc"]
            r._post_batch(inp["idle"])
            # wait_until_playfields_are_empty polls once per second: the 1.5 s window after the batch contains a poll
            # whatever the phase of the poll (deadlines that coincide with the end of an advance are served by the next one)
            r.advance_time_and_run(1.5)
            if c["evc"] == evc and not c["stop"] and m.game is not None:
                g = m.game
                c["log"].append({"t": "idle", "bip": g.balls_in_play, "np": len(g.player_list), "ending": bool(g.ending),
                                 "pf": m.playfield.available_balls, "held": len(c["heldq"]), "ged": c["ged"],
                                 "gm": [n for n in ("gm0", "gm1") if m.modes[n].active]})
    except Exception as e:   # an exception inside the machine is data, not a harness error
        out["err"] = "%s: %s" % (type(e).__name__, str(e)[:300])
    if r.exception() is not None and out["err"] is None:
        out["err"] = "machine-exception: %r" % (r.exception(),)
    c["phase"] = "cleanup"
    if c["mheld"] is not None:
        try:
            c["mheld"].clear()
            c["mheld"] = None
            r.advance_time_and_run(1)
        except Exception as e:   # noqa
            if out["err"] is None:
                out["err"] = "%s: %s" % (type(e).__name__, str(e)[:300])
    m.events.remove_handler(r._player_adding)
    out["consumed"] = c["pos"]
    clean = False
    try:
        if out["err"] is None:
            clean = _finish_game(r)
    except Exception:   # noqa
        clean = False
    _R["ctx"] = None
    if not clean:
        out["stuck_at_cleanup"] = out["err"] is None
        _drop_rig()
    elif any(e["t"] in ("killed", "zombie") for e in c["log"]):
        # a game that was stopped from outside leaves cancelled tasks and half-run queue events behind: the next case of this
        # worker gets a fresh machine (cases must not depend on their predecessor)
        _drop_rig()
    return out


# ------------------------------------------------------------------------------------------------
# Coq printers
def cop(op):
    k = op[0]
    if k == "drain":
        return "Drain %s" % zlit(op[1])
    if k == "addbip":
        return "AddBip %s" % zlit(op[1])
    if k == "pfadd":
        return "PfAdd %s" % zlit(op[1])
    if k == "endball":
        return "EndBall"
    if k == "endgame":
        return "EndGame"
    if k == "slam":
        return "SlamTilt"
    if k == "addplayer":
        return "AddPlayerReq %s" % blit(op[1])
    if k == "release":
        return "ReleaseAdd %s" % blit(op[1])
    if k == "award":
        return "AwardExtra"
    if k == "stop":
        return "Aux StopGame"
    if k == "mstart":
        return "Aux MStart" if op[1] == 0 else "Aux Noise"
    if k == "mstop":
        return ("Aux (MStop %s)" % blit(op[2])) if op[1] == 0 else "Aux Noise"
    if k == "mrelease":
        return "Aux MRelease"
    raise ValueError(op)


def cbatch(b):
    return coqlist(cop(o) for o in b)


def enc_log(log):
    rows = []
    for e in log:
        t = e["t"]
        if t == "ev":
            game_level = e["k"] <= GEd      # game_* events carry no player
            rows.append([1, e["k"], 0 if game_level else e["p"], 0 if game_level else e["b"], 1 if e["x"] else 0,
                         e["bip"], e["np"]])
        elif t == "idle":
            rows.append([2, e["bip"], e["np"], e["pf"]])
        elif t == "opobs":
            rows.append([5, e["code"], e["bip"]])
        elif t == "award":
            rows.append([3, e["p"]])
        elif t == "fin":
            rows.append([4])
        elif t == "killed":
            rows.append([6])
        elif t == "zombie":
            rows.append([7, e["k"]])
    return rows


def coq_game(case, out):
    if out.get("err"):
        return None     # reported by the oracle (sig machine-error)
    def cins(lst):
        return coqlist("mkin %s %s %s" % (cbatch([o for o in i["ev"] if o[0] not in EV_EXCLUDED]), coqlist(cbatch(h) for h in i["holds"]),
                                          cbatch(i["idle"])) for i in lst)

    def ccfg(d):
        return "cfgz %s %s %s %s %s" % (zlit(d["bpg"]), zlit(d["maxp"]), zlit(case["nbk"]), blit(d["own"]),
                                        blit(case.get("holdadds", False)))
    # the inputs are cut where the implementation's first game ended (a game that has ended ignores further inputs)
    splits = out.get("splits") or []
    if splits:
        games = [(case, case["ins"][:splits[0]]), (case["g2"], case["ins"][splits[0]:])]
    else:
        games = [(case, case["ins"])]
    gs = coqlist("(%s, %s)" % (ccfg(d), cins(lst)) for d, lst in games)
    exp = coqlist("[" + ";".join(zlit(x) for x in row) + "]" for row in enc_log(out["log"]))
    return "(%s, %s)" % (gs, exp)


HDR = "From C06 Require Import Model Outer.\nDefinition run := orun.\n"


# ------------------------------------------------------------------------------------------------
# oracle: the property's own predicates on the implementation's trace (independent of the model)
def oracle_game(case, out):
    fails = []

    def fail(sig, what):
        if not any(f["sig"] == sig for f in fails):
            fails.append({"sig": sig, "what": what})

    if out.get("err"):
        fail("machine-error", "the machine raised / the driver could not run the game: %s" % out["err"])
        return fails
    # one segment per game (a case may run a second game on the same mode object after the first has ended)
    segs, cur_seg = [], []
    for e in out["log"]:
        cur_seg.append(e)
        if e["t"] in ("fin", "killed"):
            segs.append(cur_seg)
            cur_seg = []
    if cur_seg or not segs:
        segs.append(cur_seg)
    if any(e["t"] == "zombie" for e in out["log"]):
        z = [KINDS[e["k"]] for e in out["log"] if e["t"] == "zombie"]
        fail("lifecycle-after-stop", "the game mode was stopped from outside and machine.game is cleared, but the stopped game goes on "
                                     "posting lifecycle events once the handler that held its queue event has finished: %s" % z[:8])
    if len(segs) > 2 or (len(segs) == 2 and not case.get("g2")):
        fail("grammar", "events after the end of the game")
        segs = segs[:1]
    for gi, seg in enumerate(segs):
        cfg = case if gi == 0 else case["g2"]
        last = gi == len(segs) - 1
        _oracle_one(case, out, cfg["bpg"], seg, last, fail, "" if gi == 0 else "second game: ")
    return fails


def _oracle_one(case, out, bpg, log, last_game, fail0, prefix, device_rig=False):
    nbk = case["nbk"]

    def fail(sig, what):
        fail0(sig, prefix + what)
    evs = [e for e in log if e["t"] == "ev"]

    # -- balls in play always between 0 and num_balls_known
    for e in log:
        if "bip" in e and not (0 <= e["bip"] <= nbk):
            fail("bip-bounds", "balls_in_play=%s outside [0,%s]" % (e["bip"], nbk))

    # -- grammar with player / ball numbers (prefix acceptance)
    st = "G0"
    turn = None          # (player, ball)
    ballx = None
    finished = False
    turns = []
    np_at_turn = []
    for idx, e in enumerate(evs):
        k, p, b, x = e["k"], e["p"], e["b"], e["x"]
        ok = True
        if finished or not e["active"]:
            ok = False
        elif st == "G0":
            ok, st = (k == GWS), "G1"
        elif st == "G1":
            ok, st = (k == GSg), "G2"
        elif st == "G2":
            ok, st = (k == GSd), "L"
        elif st == "L":
            if k == GWE:
                st = "E1"
            elif k == PTWS and p >= 1:
                turn = (p, b + 1)
                np_at_turn.append(e["np"])
                st = "T1"
            else:
                ok = False
        elif st == "T1":
            ok, st = (k == PTSg and (p, b + 1) == turn), "T2"
        elif st == "T2":
            ok, st = (k == PTSd and (p, b) == turn), "B0"
            turns.append(turn)
            ballx = False
        elif st == "B0":
            ok, st = (k == BWS and (p, b) == turn and x == ballx), "B1"
        elif st == "B1":
            ok, st = (k == BSg and (p, b) == turn and x == ballx), "B2"
        elif st == "B2":
            ok, st = (k == BSd and (p, b) == turn and x == ballx), "B3"
        elif st == "B3":
            ok, st = (k == BWE and (p, b) == turn), "B4"
        elif st == "B4":
            ok, st = (k == BEg and (p, b) == turn), "B5"
        elif st == "B5":
            ok, st = (k == BEd and (p, b) == turn), "TA"
        elif st == "TA":
            if k == BWS and (p, b) == turn and x:
                ballx = True
                st = "B1"
            elif k == PTWE and (p, b) == turn:
                st = "T4"
            else:
                ok = False
        elif st == "T4":
            ok, st = (k == PTEg and (p, b) == turn), "T5"
        elif st == "T5":
            ok, st = (k == PTEd and (p, b) == turn), "L"
        elif st == "E1":
            ok, st = (k == GEg), "E2"
        elif st == "E2":
            ok, st = (k == GEd), "E3"
        elif st == "E3":
            ok = False
        if not ok:
            fail("grammar", "lifecycle event #%d %s(player=%s, ball=%s, extra=%s) is not allowed by the lifecycle grammar "
                            "after %s" % (idx, KINDS[k], p, b, x, [KINDS[z["k"]] for z in evs[max(0, idx - 3):idx]]))
            break
        kw = e.get("kw")
        if kw is not None:
            if k in (BWS, BSg, BSd) and (kw[0] != p or kw[1] != b or kw[2] != bpg - b):
                fail("event-args", "%s posted with player=%s ball=%s balls_remaining=%s but the game is at player %s ball %s "
                                   "of %s" % (KINDS[k], kw[0], kw[1], kw[2], p, b, bpg))
            if PTWS <= k <= PTEd and (kw[0] != p or kw[1] != 1):
                fail("event-args", "%s posted with number=%s / a player object that is not the current player %s" %
                     (KINDS[k], kw[0], p))

    # -- turn structure: players rotate 1..n, ball numbers 1..balls_per_game, nobody joins after round 1
    for i, (p, b) in enumerate(turns):
        if i == 0:
            if (p, b) != (1, 1):
                fail("turn-order", "first turn is player %s ball %s" % (p, b))
        else:
            pp, pb = turns[i - 1]
            n = np_at_turn[i]
            exp = (pp + 1, pb) if pp < n else (1, pb + 1)
            if (p, b) != exp:
                fail("turn-order", "turn (player %s, ball %s) follows (player %s, ball %s) with %s players; expected %s" %
                     (p, b, pp, pb, n, exp))
        if b > bpg:
            fail("ball-number-exceeds", "player %s plays ball %s of a %s-ball game" % (p, b, bpg))
    ended_by_request = False
    slam_seen = False
    awarded, played = {}, {}
    for e in log:
        if e["t"] == "op" and e["op"] in ("endgame", "slam"):
            ended_by_request = True
        if e["t"] == "op" and e["op"] == "slam":
            slam_seen = True
        if e["t"] == "award" and e["p"]:
            awarded[e["p"]] = awarded.get(e["p"], 0) + 1
        if e["t"] == "ev" and e["k"] == BWS and e["x"]:
            played[e["p"]] = played.get(e["p"], 0) + 1
            if played[e["p"]] > awarded.get(e["p"], 0):
                fail("extra-ball-count", "player %s starts extra ball #%s but was awarded %s" %
                     (e["p"], played[e["p"]], awarded.get(e["p"], 0)))
        if e["t"] == "ev" and e["k"] == PTWE and not slam_seen:
            if played.get(e["p"], 0) != awarded.get(e["p"], 0):
                fail("extra-ball-count", "turn of player %s ends with %s extra balls played but %s awarded" %
                     (e["p"], played.get(e["p"], 0), awarded.get(e["p"], 0)))
        if e["t"] == "ev" and e["k"] == GWE and not ended_by_request:
            last = turns_before(log, e)
            if last is None or last != (e["np"], bpg):
                fail("game-end-early", "game_will_end without an end request after turn %s; %s players, %s balls per game" %
                     (last, e["np"], bpg))

    check_slam([("slam",) if (e["t"] == "op" and e["op"] == "slam") else ("ev", e["k"], e["x"])
                for e in log if e["t"] == "ev" or (e["t"] == "op" and e["op"] == "slam")], fail)
    if device_rig:
        return      # the clauses below need the per-operation observations of the fake-game rig
    # -- a ball ends exactly when balls in play reaches zero or an end is requested.
    #    The window of a ball opens with ball_will_start (_run_ball clears the end-of-ball event just before) and
    #    closes with ball_will_end.  Causes inside the window: an end request (end_ball, end_game, slam tilt while the
    #    game is not ending); balls_in_play going from > 0 to 0 by a direct assignment at any time; balls_in_play
    #    going from > 0 to 0 by a drain while the ball is live (from ball_started on).  A drain that arrives before
    #    ball_started belongs to an earlier ball (one that was ended by request and comes home late): it must not end
    #    this ball.  Every operation is followed by an observation of balls_in_play, so each change is attributed to
    #    one operation.
    #    Progress: while the game idles between ball_will_start and ball_starting the playfield must still hold a
    #    ball (wait_until_playfields_are_empty); while it idles after ball_started no cause may have occurred; it
    #    idles nowhere else except while waiting for the first player.
    phase = "none"       # none | start (ball_will_start seen) | starting (ball_starting seen) | live (ball_started seen)
    cause = False
    cur_op = None
    waiting_player = False
    stop_requested = False
    for e in log:
        t = e["t"]
        if t == "op" and e["op"] == "stop":
            stop_requested = True
        if t == "idle" and (e.get("ged") or stop_requested):
            # game_ended has been posted / the game mode was told to stop: machine.game may only stay set while a game mode is
            # still stopping (the game mode waits for all game modes)
            if not e.get("gm"):
                fail("game-not-cleared", "%s and no game mode is active, but machine.game is still set" %
                     ("game_ended was posted" if e.get("ged") else "the game mode was stopped from outside"))
            if e.get("ged"):
                continue
        if t == "ev":
            k = e["k"]
            cur_op = None
            waiting_player = (k == GSg)
            if k == BWS:
                phase, cause = "start", False
            elif k == BSg and phase == "start":
                phase = "starting"
            elif k == BSd and phase == "starting":
                phase = "live"
            elif k == BWE:
                if phase != "none" and not cause:
                    fail("ball-end-no-cause", "ball_will_end although no end was requested and balls in play did not reach "
                                              "zero through this ball (no drain of a live ball, no assignment)")
                phase = "none"
            continue
        if t == "op":
            cur_op = e
            continue
        if t == "opobs" and cur_op is not None:
            o = cur_op
            cur_op = None
            if phase == "none":
                continue
            if o["op"] in ("endball", "endgame") or (o["op"] == "slam" and not o["ending"]):
                cause = True
            if o["bip"] > 0 and e["bip"] == 0:
                if o["op"] == "addbip" or (o["op"] == "drain" and phase == "live"):
                    cause = True
            continue
        if t == "idle":
            if phase == "live":
                if cause:
                    fail("ball-not-ended", "balls in play reached zero or an end was requested, but the ball did not end")
            elif phase == "start":
                if e["pf"] <= 0:
                    fail("ball-start-stuck", "ball_will_start was posted and the playfield holds %s balls, but the ball does "
                                             "not start (no ball_starting): the game neither continues nor ends" % e["pf"])
            elif not waiting_player:
                fail("lifecycle-stalled", "the game idles after %s although nothing holds it" %
                     (KINDS[[z for z in log[:log.index(e)] if z["t"] == "ev"][-1]["k"]]))

    # -- after the game has ended no game is active and a new one can start; a game must not hang
    for i, e in enumerate(log):
        if e["t"] in ("fin", "killed"):
            how = "game_ended" if e["t"] == "fin" else "the stop of the game mode"
            if not e["game_none"] or e.get("game_mode_active"):
                fail("ended-game-active", "machine.game is still set / the game mode is still active after %s" % how)
            if e.get("gm_active"):
                fail("game-cleared-before-modes-stopped", "machine.game was cleared after %s although the game mode(s) %s are "
                                                          "still active" % (how, e["gm_active"]))
            if not e["restart_ok"]:
                fail("restart-failed", "a new game could not be started after %s" % how)
            if i != len(log) - 1:
                fail("grammar", "events after the end of the game")
        if e["t"] == "idle" and e["ending"] and not any(z["k"] == GSd for z in evs):
            fail("game-hangs", "end_game was requested before the first player was added: the game neither starts nor ends")
    if evs and evs[-1]["k"] == GEd and out.get("consumed", 0) < len(case["ins"]) and not any(e["t"] == "fin" for e in log) \
            and not any(e["t"] == "idle" and e.get("ged") and e.get("gm") for e in log[-1:]):
        fail("ended-game-active", "game_ended was posted but the game mode did not stop")
    if last_game and out.get("stuck_at_cleanup"):
        fail("game-hangs", "the game could not be ended with end_game() (it hangs)")


def check_slam(items, fail):
    """slam-tilt requests arriving at any point of the lifecycle end the game: after a slam-tilt request that reached a running
    game, no extra ball is started and no further turn starts once the current turn has ended (a turn that has not begun when
    the request arrives before the first turn is still played).  items: ("ev", kind, is_extra_ball) | ("slam",) in order."""
    sl = fin = False
    last_k = None
    for it in items:
        if it[0] == "slam":
            sl = True
            if last_k == PTEd:
                fin = True
        else:
            k, x = it[1], it[2]
            if k == PTWS and fin:
                fail("slam-tilt-ignored", "a slam tilt was requested during the game, but after the turn had ended another turn "
                                          "starts (player_turn_will_start) instead of the game ending")
            if k == BWS and x and sl:
                fail("slam-tilt-ignored", "a slam tilt was requested during the game, but an extra ball is started afterwards")
            if k == PTEd and sl:
                fin = True
            if k == GWS:
                sl = fin = False
            last_k = k


def turns_before(log, upto):
    last = None
    for e in log:
        if e is upto:
            break
        if e["t"] == "ev" and e["k"] == PTSd:
            last = (e["p"], e["b"])
    return last


# ------------------------------------------------------------------------------------------------
def shrink_game(case):
    ins = case["ins"]
    n = len(ins)

    def mk(new, **kw):
        d = dict(case)
        d["ins"] = new
        d.update(kw)
        return d
    # drop the tail, halves, single inputs
    for cut in (n // 2, n - n // 4, n - 10, n - 1):
        if 0 < cut < n:
            yield mk(ins[:cut])
    step = max(1, n // 8)
    for i in range(0, n, step):
        yield mk(ins[:i] + ins[i + step:])
    if n <= 40:
        for i in range(n):
            yield mk(ins[:i] + ins[i + 1:])
    # empty parts of inputs
    for i, inp in enumerate(ins):
        if n > 60:
            break
        for f in ("ev", "idle"):
            if len(inp[f]) > 1:
                for j in range(len(inp[f])):
                    yield mk(ins[:i] + [dict(inp, **{f: inp[f][:j] + inp[f][j + 1:]})] + ins[i + 1:])
            elif inp[f] and not (f == "idle" and inp[f] == [["drain", 1]]):
                yield mk(ins[:i] + [dict(inp, **{f: [] if f == "ev" else [["drain", 1]]})] + ins[i + 1:])
        if inp["holds"]:
            yield mk(ins[:i] + [dict(inp, holds=[])] + ins[i + 1:])
    if case["bpg"] > 1:
        yield mk(ins, bpg=case["bpg"] - 1)
    if case["maxp"] > 1:
        yield mk(ins, maxp=case["maxp"] - 1)
    if not case["own"]:
        yield mk(ins, own=True)
    if case.get("holdadds"):
        yield mk(ins, holdadds=False)
    if case["nbk"] != 3:
        yield mk(ins, nbk=3)


def nontrivial_game(case, out):
    used = case["ins"][:out.get("consumed", 0)]
    return any(i["ev"] or i["holds"] for i in used)


def describe_game(case):
    return "%s bpg=%d" % (case.get("profile", "?"), case["bpg"])


# ------------------------------------------------------------------------------------------------
# Suite "devices" (oracle-only supplement): real ball devices (trough + plunger + playfield on the smart_virtual platform),
# the real ball controller and the real playfield counts.  A script attaches physical actions and requests to the
# lifecycle events of Game._run (a ball rolls into the trough, a stray ball nobody knew about rolls into the trough,
# a playfield switch is hit, end_ball is requested, a queue event is held for some seconds); between events the driver
# lets the ball in play drain after a while.  No model run: the observable counts depend on device timing that belongs
# to C04/C05; the game-level clauses are checked by the oracle below.
DEV_ACTIONS = ["none", "none", "none", "drain", "stray", "endball", "pfhit"]
TILT_ACTIONS = ["tilt", "slam", "warn", "warn"]
TILT_W2T = 2          # warnings_to_tilt of the test machine
TILT_WINDOW = 0.3     # multiple_hit_window (s)


def gen_dev(rng, tier, i):
    n = rng.choice([20, 40, 60])
    script = []
    # the real tilt mode (tilt / slam tilt / tilt warning switches, settle time 2 s, 2 warnings to tilt) is the source of tilt and
    # slam-tilt requests: in two thirds of the cases they arrive at lifecycle events, while a queue event is held (also while the
    # ball is already tilted, during the settle time, while the game is ending) and while a ball is live
    tiltw = rng.choice([0, 1, 2])
    acts = DEV_ACTIONS + TILT_ACTIONS * tiltw
    for _ in range(n):
        # [action issued by a handler of the lifecycle event, seconds a handler holds the event when it is a queue event]
        script.append([rng.choice(acts), rng.choice([0, 0, 0, 1, 2, 3, 5])])
    live_acts = [rng.choice(["none", "none"] + TILT_ACTIONS * tiltw) for _ in range(12)]
    return {"bpg": rng.choice([1, 2, 2, 3]), "script": script, "live": rng.choice([2, 3, 6]),
            "second_hold_action": rng.choice(["none", "drain", "stray", "stray", "endball"] + TILT_ACTIONS * tiltw),
            "live_acts": live_acts}


def _dev_config(bpg):
    sw = {"s_start": {"number": "1", "tags": "start"}, "s_pf": {"number": "2", "tags": "playfield_active"},
          "s_plunger": {"number": "3"}, "s_tilt": {"number": "20", "tags": "tilt"},
          "s_slam": {"number": "21", "tags": "slam_tilt"}, "s_tw": {"number": "22", "tags": "tilt_warning"}}
    for i in range(1, 6):
        sw["s_t%d" % i] = {"number": str(10 + i)}
    return {
        "game": {"balls_per_game": bpg},
        "modes": ["tilt"],
        "machine": {"min_balls": 1},
        "switches": sw,
        "coils": {"c_trough": {"number": "1"}, "c_plunger": {"number": "2"}},
        "ball_devices": {
            "trough": {"ball_switches": "s_t1, s_t2, s_t3, s_t4, s_t5", "eject_coil": "c_trough", "tags": "trough, home, drain",
                       "eject_targets": "plunger", "eject_timeouts": "2s"},
            "plunger": {"ball_switches": "s_plunger", "eject_coil": "c_plunger", "eject_targets": "playfield",
                        "eject_timeouts": "2s"}},
        "playfields": {"playfield": {"default_source_device": "plunger", "tags": "default"}},
        "virtual_platform_start_active_switches": ["s_t1", "s_t2", "s_t3"],
    }


def run_dev(case):
    from rig import GameRig
    r = GameRig(_dev_config(case["bpg"]), platform="smart_virtual",
                modes={"tilt": {"tilt": {"settle_time": "2s", "warnings_to_tilt": TILT_W2T,
                                         "multiple_hit_window": "%dms" % int(TILT_WINDOW * 1000)}}})
    r.start()
    m = r.machine
    log = []
    st = {"n": 0, "hold": None, "last": None, "stop": False, "total": 3, "onpf": 0}
    trough_sw = ["s_t%d" % i for i in range(1, 6)]

    def now():
        return int(round(m.clock.get_time() * 1000))

    def plunger_left(**kwargs):
        # physical truth: a ball that leaves the plunger lane is on the playfield
        st["onpf"] += 1
    m.switch_controller.add_switch_handler("s_plunger", plunger_left, state=0)

    def free_trough():
        for x in trough_sw:
            if not m.switches[x].state:
                return x
        return None

    def snap():
        g = m.game
        tm = m.modes["tilt"]
        lw = tm._last_warning
        d = {"active": g is not None, "player": bool(g and g.player), "tilted": bool(g and g.tilted),
             "ending": bool(g and g.ending), "slam": bool(g and g.slam_tilted),
             "endev": bool(g and g._end_ball_event is not None and g._end_ball_event.is_set()),
             "warn": int(g.player["tilt_warnings"]) if (g and g.player) else 0,
             "win_ok": (not lw) or (lw + TILT_WINDOW <= m.clock.get_time())}
        return d

    def act(a, src):
        g = m.game
        if a in TILT_ACTIONS:
            # the player nudges the machine / kicks the coin door: the switches of the real tilt mode
            pre = snap()
            swn = {"tilt": "s_tilt", "slam": "s_slam", "warn": "s_tw"}[a]
            m.switch_controller.process_switch(swn, 1, logical=True)
            m.switch_controller.process_switch(swn, 0, logical=True)
            log.append({"t": "treq", "a": a, "src": src, "ms": now(), "pre": pre, "post": snap()})
            return
        if a == "drain":
            # a ball that is on the playfield rolls into the trough
            if st["onpf"] > 0 and free_trough():
                st["onpf"] -= 1
                log.append({"t": "act", "a": "drain", "src": src, "ms": now()})
                m.switch_controller.process_switch(free_trough(), 1, logical=True)
        elif a == "stray":
            # a ball nobody knew about (it was stuck somewhere) rolls into the trough
            if st["total"] < 5 and free_trough():
                st["total"] += 1
                log.append({"t": "act", "a": "stray", "src": src, "ms": now()})
                m.switch_controller.process_switch(free_trough(), 1, logical=True)
        elif a == "endball":
            if g is not None:
                log.append({"t": "act", "a": "endball", "src": src, "ms": now()})
                g.end_ball()
        elif a == "pfhit":
            log.append({"t": "act", "a": "pfhit", "src": src, "ms": now()})
            m.switch_controller.process_switch("s_pf", 1, logical=True)
            m.switch_controller.process_switch("s_pf", 0, logical=True)

    def lifecycle(kind):
        def h(**kwargs):
            g = m.game
            pl = g.player if g else None
            log.append({"t": "ev", "k": kind, "p": pl.number if pl else 0, "b": pl.ball if pl else 0,
                        "x": bool(kwargs.get("is_extra_ball", False)), "bip": g.balls_in_play if g else -99,
                        "np": len(g.player_list) if g else -99, "active": g is not None,
                        "pf": m.playfield.available_balls, "known": m.ball_controller.num_balls_known, "ms": now()})
            st["last"] = kind
            if st["stop"]:
                return
            if st["n"] >= len(case["script"]):
                return
            a = case["script"][st["n"]]
            st["n"] += 1
            act(a[0], KINDS[kind])
            if kind in QUEUE and a[1] > 0:
                kwargs["queue"].wait()
                st["hold"] = [kwargs["queue"], a[1], kind]
                log.append({"t": "act", "a": "hold", "src": KINDS[kind], "ms": now(), "secs": a[1]})
        return h

    for i, name in enumerate(KINDS):
        m.events.add_handler(name, lifecycle(i), priority=1000)

    def drained(balls=0, **kwargs):
        g = m.game
        log.append({"t": "drainev", "balls": balls, "bip": g.balls_in_play if g else -99, "ms": now()})
    m.events.add_handler("ball_drain", drained, priority=-1000)     # after the game's handler
    out = {"log": log, "err": None}
    try:
        r.advance_time_and_run(2)
        r.hit_and_release_switch("s_start")
        live_for = 0
        budget = 60 * len(case["script"]) // 20 + 200
        calm_from = budget - 160
        for tick in range(budget):
            r.advance_time_and_run(1)
            g = m.game
            if tick >= calm_from:
                st["stop"] = True
            log.append({"t": "tick", "bip": g.balls_in_play if g else None, "pf": m.playfield.available_balls,
                        "known": m.ball_controller.num_balls_known, "held": st["hold"] is not None,
                        "last": st["last"], "active": g is not None, "onpf": st["onpf"], "ms": now(),
                        "tilt_hold": m.modes["tilt"].ball_ending_tilted_queue is not None,
                        "tilt_collect": m.modes["tilt"]._balls_to_collect, "tilted": bool(g and g.tilted)})
            if g is None and any(e["t"] == "ev" for e in log):
                break
            if st["hold"] is not None:
                q, secs, kind = st["hold"]
                if secs == 2 and not st["stop"]:
                    act(case["second_hold_action"], "held " + KINDS[kind])
                if secs <= 1 or st["stop"]:
                    st["hold"] = None
                    q.clear()
                else:
                    st["hold"][1] = secs - 1
                continue
            if m.modes["tilt"].ball_ending_tilted_queue is not None and not st["stop"] and case.get("live_acts"):
                # further nudges / kicks while the tilted ball rolls home and while the settle time runs
                st["la"] = st.get("la", 0) + 1
                act(case["live_acts"][st["la"] % len(case["live_acts"])], "tilt-hold")
            # the ball in play drains after a while
            if st["last"] == BSd and st["onpf"] > 0 and not st["stop"] and case.get("live_acts"):
                st["la"] = st.get("la", 0) + 1
                act(case["live_acts"][st["la"] % len(case["live_acts"])], "live")
            if st["last"] == BSd and st["onpf"] > 0:
                live_for += 1
                if live_for >= (2 if st["stop"] else case["live"]):
                    live_for = 0
                    act("drain", "idle")
            elif st["onpf"] > 0 and st["last"] in (BWS, BWE, BEg, BEd, PTWE, PTEg, PTEd, PTWS, PTSg, PTSd, GWE, GEg):
                # balls that are still on the playfield although no ball is live come home too
                live_for += 1
                if live_for >= 2:
                    live_for = 0
                    act("drain", "idle-home")
            else:
                live_for = 0
    except Exception as e:   # an exception inside the machine is data
        out["err"] = "%s: %s" % (type(e).__name__, str(e)[:300])
    if r.exception() is not None and out["err"] is None:
        out["err"] = "machine-exception: %r" % (r.exception(),)
    try:
        r.stop()
    except BaseException:   # noqa
        pass
    return out


def oracle_dev(case, out):
    fails = []

    def fail(sig, what):
        if not any(f["sig"] == sig for f in fails):
            fails.append({"sig": sig, "what": what})
    if out.get("err"):
        fail("machine-error", "the machine raised / the driver could not run the game: %s" % out["err"])
        return fails
    log = out["log"]
    # grammar, turn order, event arguments: the same predicates as for the fake-game suite
    # (a slam-tilt request of the real tilt mode that reaches a running game counts as the operation "slam")
    glog = [e if e["t"] == "ev" else {"t": "op", "op": "slam"} for e in log
            if e["t"] == "ev" or (e["t"] == "treq" and e["a"] == "slam" and e["pre"]["active"])]
    _oracle_one({"nbk": 99}, {}, case["bpg"], glog, False, fail, "", device_rig=True)
    phase, cause, stuck, zero = "none", False, 0, 0
    for e in log:
        t = e["t"]
        if t == "ev":
            k = e["k"]
            stuck = zero = 0
            if not (0 <= e["bip"] <= e["known"]):
                fail("bip-bounds", "balls_in_play=%s outside [0,%s]" % (e["bip"], e["known"]))
            if k == BWS:
                phase, cause = "start", False
            elif k == BSg and phase == "start":
                phase = "starting"
            elif k == BSd and phase == "starting":
                phase = "live"
            elif k == BWE:
                if phase != "none" and not cause:
                    fail("ball-end-no-cause", "ball_will_end although no end was requested and no ball of this ball drained "
                                              "to zero balls in play")
                phase = "none"
        elif t == "act" and e["a"] == "endball" and phase != "none":
            cause = True
        elif t == "treq" and phase != "none":
            # a tilt (switch, slam tilt, or the last tilt warning) is a request to end the ball, unless the ball is already
            # tilted or the game is ending
            p = e["pre"]
            if p["active"] and not p["tilted"] and not p["ending"]:
                if e["a"] in ("tilt", "slam") or (e["a"] == "warn" and p["player"] and p["win_ok"] and p["warn"] + 1 >= TILT_W2T):
                    cause = True
            if e["a"] == "slam" and p["active"] and not e["post"]["slam"]:
                fail("slam-tilt-ignored", "a slam tilt was requested while a game is running (tilted=%s ending=%s) but the game's "
                                          "slam_tilted flag is not set" % (p["tilted"], p["ending"]))
        elif t == "drainev" and phase == "live" and e["bip"] == 0:
            cause = True
        elif t == "tick":
            if e["active"] and e["bip"] is not None and not (0 <= e["bip"] <= e["known"]):
                fail("bip-bounds", "balls_in_play=%s outside [0,%s]" % (e["bip"], e["known"]))
            if phase == "start" and not e["held"] and e["pf"] <= 0:
                stuck += 1
                if stuck >= 3:
                    fail("ball-start-stuck", "ball_will_start was posted, the playfield count is %s and nothing holds the game, "
                                             "but ball_starting does not follow: the game neither continues nor ends" % e["pf"])
            if phase == "live" and cause:
                zero += 1
                if zero >= 2:
                    fail("ball-not-ended", "balls in play reached zero or an end was requested, but the ball did not end")
    ticks = [e for e in log if e["t"] == "tick"]
    if ticks and ticks[-1]["active"] and not ticks[-1].get("tilt_hold"):
        # (a ball_ending that the tilt mode holds for ever is a handler delay that never ends: outside this property)
        fail("game-not-ended", "the game did not reach game_ended although every ball was drained and nothing was held for "
                               "160 s (last lifecycle event: %s)" % (KINDS[ticks[-1]["last"]] if ticks[-1]["last"] is not None else None))
    if not any(e["t"] == "ev" for e in log):
        fail("game-did-not-start", "no lifecycle event was posted after the start button")
    return fails


HDR_DEV = "From C06 Require Import Model Tilt.\nDefinition run := tilt_run.\n"


def _tg(d):
    return [1 if d["active"] else 0, 1 if d["player"] else 0, 1 if d["tilted"] else 0, 1 if d["ending"] else 0,
            1 if d["slam"] else 0, 1 if d["endev"] else 0, d["warn"]]


def coq_dev(case, out):
    """request-level correspondence for the tilt mode: every tilt / slam tilt / tilt warning switch hit of the game, with the
    state of the game object before it, is given to the model functions of Tilt.v; expected = the state right after it"""
    if out.get("err"):
        return None
    reqs = [e for e in out["log"] if e["t"] == "treq"]
    ins = coqlist("(%s, [%s])" % (zlit({"tilt": 0, "slam": 1, "warn": 2}[e["a"]]),
                                  ";".join(zlit(x) for x in _tg(e["pre"]) + [TILT_W2T, 1 if e["pre"]["win_ok"] else 0]))
                  for e in reqs)
    exp = coqlist("[" + ";".join(zlit(x) for x in _tg(e["post"])) + "]" for e in reqs)
    return "(%s, %s)" % (ins, exp)


def shrink_dev(case):
    sc = case["script"]
    n = len(sc)
    for cut in (n // 2, n - n // 4):
        if 0 < cut < n:
            yield dict(case, script=sc[:cut])
    for i in range(n):
        if sc[i] != ["none", 0]:
            yield dict(case, script=sc[:i] + [["none", 0]] + sc[i + 1:])
    if case["second_hold_action"] != "none":
        yield dict(case, second_hold_action="none")
    la = case.get("live_acts") or []
    if any(a != "none" for a in la):
        yield dict(case, live_acts=["none"] * len(la))
        for i in range(len(la)):
            if la[i] != "none":
                yield dict(case, live_acts=la[:i] + ["none"] + la[i + 1:])
    if case["bpg"] > 1:
        yield dict(case, bpg=case["bpg"] - 1)


def nontrivial_dev(case, out):
    acts = set(e["a"] for e in out.get("log", []) if e["t"] == "act")
    return len(acts - {"pfhit"}) >= 2


SUITES = [
    Suite("game", gen_game, run_game, HDR, coq_game, oracle_game, shrink_game, nontrivial_game,
          {"quick": 600, "thorough": 20000}, describe=describe_game, shard=60, case_timeout=120),
    Suite("devices", gen_dev, run_dev, HDR_DEV, coq_dev, oracle_dev, shrink_dev, nontrivial_dev,
          {"quick": 40, "thorough": 1500}, describe=lambda c: "bpg=%d" % c["bpg"], case_timeout=120),
]

LEVEL_TEXT = ("Machine-checked proof (Coq) about a program-counter model of the game coroutine (Game._run and callees incl. the wait for "
              "empty playfields and the re-initialisation for further games) under every sequence of environment operations at every "
              "suspension point: the lifecycle trace is accepted by the lifecycle grammar with consistent player and ball numbers; turns "
              "rotate 1..n with ball numbers 1..balls_per_game and nobody joins after the first round; the game ends exactly after the turn "
              "of the last player on the last ball unless end_game / slam tilt was requested; a ball ends only after an end request or after "
              "balls in play went from > 0 to 0 and a live ball with such a cause does not go on; extra balls played never exceed and at the "
              "end of a turn equal the extra balls awarded; balls in play stays within [0, num_balls_known]; the coroutine's end coincides "
              "with machine.game being cleared; a further game on the same mode object starts from the state of a first game.  Around the "
              "coroutine (Outer.v): when the game mode is stopped from outside at any quiescent suspension point the stopped game posts "
              "nothing more whatever arrives, machine.game is cleared only when every game mode has stopped and no stop is pending, the "
              "state left behind re-initialises to the initial state, and the trace up to the stop is a prefix of a coroutine trace (so the "
              "monitor theorems hold up to the stop).  Tilt mode (Tilt.v): a slam-tilt request that reaches a game always registers "
              "(tilted, ending, between balls) and requests the ball end unless tilted / ending; after a slam-tilt request no extra ball and, "
              "once the turn has ended, no further turn starts (monitor over every trace).  The unfixed "
              "code of three earlier findings is refuted by vm_compute witnesses.  The model is tied to the working tree by running real "
              "games on the same inputs on every run.")
LEVEL_NOTE = ("Trusted: Coq kernel + vm_compute; no axioms.  Model hand-written; the correspondence run compares whole traces of "
              "real games (MpfFakeGameTestCase rig, playfield count kept as that test case does) with the model.  The event manager and asyncio "
              "are not modelled beyond the batch rule stated in Model.v (starts / stops of modes complete at the end of the batch); bonus/high-score "
              "modes are not loaded.  The suite on real ball devices (smart_virtual) checks the game-level clauses by oracle only (progress, "
              "ball-end causes, bounds, grammar, slam tilt ends the game) and ties the tilt mode's request functions to Tilt.v request by request; "
              "that a registered slam tilt lets no further turn / extra ball start is the theorem slam_tilt_ends_game about the coroutine model and "
              "an oracle clause on both suites.")
TECHNIQUE = ("Coq proof over hand-written executable pc-machine model (seven trace monitors + state invariants), a layered model of the game "
             "mode's stop procedure (invariant, prefix refinement) and a function model of the tilt requests + differential correspondence "
             "(vm_compute; whole traces and request level) + direct lifecycle / progress oracle")
DESIGN_REF = "DESIGN.md section 3, C06"
