"""C04 — Ball counts agree with the physical machine and are conserved.

Trace acceptance: a physical-world simulator (props/balls_common.py) drives the switches of a real MPF machine with
a generated device topology under generated game actions and eject faults; every assignment to a ball counter and
every balldevice_* event is recorded in exact program order; the Coq ledger (coq/C04/Model.v) must accept the whole
run and reproduce every snapshot of the real counters.  Independently the oracle compares the real counters with
the simulator's truth at every rest point, checks the bounds at every point where other code can observe them and
checks every coil pulse against the room physically left in its target.
"""
from vlib import Suite, zlit, coqlist

from props import balls_common as bc

ID = "C04"
READY = True
RULE = ("ledger suite: simulated machines [outhole (confirm by switch/event) ->] trough (2-5 ball switches) -> plunger / "
        "staging device (1-2) -> playfield, optional lock (1-2, switch-counted or entrance-switch-counted) that captures "
        "from the playfield and ejects to the playfield or into the plunger (second source of the same target); eject "
        "confirmation by target count, confirm switch or confirm event per source; pulse-coil or enable-coil ejectors; "
        "optionally one ball MPF has never seen; scripts of 2-16 actions (add_ball, request at plunger / at the trough "
        "(never servable), drain, lock shot, ball rolling back into the plunger lane, lock release / eject_all, collect, "
        "playfield switch hit, ball dropping in and bouncing out again, balls leaking out of the idle lock) at generated "
        "distances (0 ms .. 15 s); environment handlers that hold the queue event balldevice_X_ball_eject_attempt for "
        "0.7-6 s; per coil pulse a generated physical outcome (leaves after 20-120 ms, arrives after 150 ms .. 1.5 x "
        "ball_missing_timeout, stays stuck, falls back, two balls kicked out by one pulse); 36 % of the cases come from "
        "nine scenario templates with randomised numbers (two sources racing for a one-slot target, entrance-counted "
        "lock filled beyond capacity, switch flicker at the source while its ball is late, two balls lost from an idle "
        "device inside one count window, double kick-out, source ready while a two-ball target is mid-eject, eject "
        "attempt held while the target's last slot is taken, two queued requests of which the first can never be served, "
        "externally confirmed ball later than ball_missing_timeout while its target is mid-eject); 10 % from three further "
        "templates (a ball landing in the waiting target less than entrance_count_delay before its source's eject "
        "timeout; a 2-3 place staging device filling up -- ejected ball falling back, balls rolling in from the "
        "playfield -- while a source waits for its eject to the playfield to end; a ball lying on the playfield until the "
        "ball search gives up while another ball is promised to the playfield but not loose yet: requested just before, "
        "held by an eject_attempt handler, stuck in the trough); ball search (timeout 3-9 s, phase 1) also in 8 % of the "
        "uniform worlds; 6 % real games "
        "(ball_save with eject_delay + multiball as request sources); non-trivial = at least one eject and one rest point "
        "after it.  counter suite: one switch-counted device (1-4 ball switches, optional jam switch, entrance/exit "
        "count delays 250-1000 ms, entrance events) and one entrance-counted device (capacity 1-4, 1-2 entrance "
        "switches + entrance event, ignore window 0-3000 ms) on "
        "switch timelines of 4-20 events on a 125 ms grid (bounces, several switches inside one count window, bursts); "
        "non-trivial = the count changes; distinct by case hash")
TRUSTED_BASE = [
    "Coq 8.16.1 kernel (coqc), vm_compute to replay recorded runs in the model; no native_compute",
    "axioms: none (every Print Assumptions is 'Closed under the global context')",
    "hand-written ledger model coq/C04/Model.v; tie = trace acceptance: harness/props/balls_common.py records "
    "the run of the real code (class-level __setattr__ wrappers for the seven counters, wrappers of "
    "EventManager.post*, of IncomingBall.add_external_confirm_*/_external_confirm and of "
    "BallDevice.lost_incoming_ball, of DefaultBallSearch.ball_search and BallSearch.give_up, the virtual platform "
    "driver's pulse/enable) and parse_log groups adjacent raw items into labels",
    "hand-written counter model coq/C04/Counter.v (SwitchCounter._run/_count_switches_sync/is_jammed, "
    "EntranceSwitchCounter._entrance_switch_handler); tie = pointwise: same switch timeline to the real counters of "
    "a real machine and to the model, _last_count / is_count_unreliable / recorded activities compared after every "
    "event",
    "the physical-world simulator of balls_common.py (balls as tokens, switches as seats) is the ground truth of "
    "the ledger oracle and of the ledger's physical readiness guard (LEjecting: a seat free in a switch-counted "
    "target); the counter oracle uses the switch timeline itself (hits on one entrance inside its ignore window = one "
    "ball)",
    "the model is of the code WITH fixes/C04-balls-negative-after-confirm.patch and "
    "fixes/C04-give-up-keeps-promised-balls.patch",
]
ASSUMPTIONS = [
    "topologies: one playfield; switch-counted and entrance-switch-counted devices; pulse-coil and enable-coil "
    "ejectors; confirm_eject_type target / switch / event; ball search with phase 1 only (non-trough devices tagged "
    "no-eject-on-ballsearch, no game running when it gives up). Not generated: mechanical / player-controlled ejects "
    "(ball skipping), hold-coil ejectors, ball-search phases 2/3, several playfields, entrance_switch_full_timeout; an "
    "entrance-counted device never gets a stuck or falling-back ball or a double kick-out (it cannot notice any of "
    "them); jam switches only in "
    "the counter suite (idle device), not in the simulated machines",
    "the counter model covers a device that is not ejecting (no wait_for_ball_to_leave / _ball_left); that the "
    "ledger's LCount inputs are the counter's reports is validated on every simulated run by the oracle (counts = "
    "simulator truth at rest), the composition theorem conservation_with_counters states it as a hypothesis",
]
DESIGN_REF = "DESIGN.md section 3, C04"
TECHNIQUE = ("Coq proof over a hand-written ledger transition system and a hand-written counter state machine + trace "
             "acceptance of recorded runs of the real code (vm_compute) + pointwise differential test of the real "
             "switch counters + direct physical-truth oracle")
LEVEL_TEXT = ("Machine-checked proof (Coq). Ledger, for all traces it accepts: the step invariants sum(counted) + "
              "playfield.balls = num_balls_known + pending and sum(available) = num_balls_known - pending, hence at "
              "every rest point (books closed) all counts sum to num_balls_known and, when the counters agree with the "
              "physical device contents, playfield.balls equals the balls physically loose; 0 <= balls <= capacity for "
              "every device at every observable point; a coil is pulsed only in state 'ejecting' and only after the "
              "readiness check of that attempt was announced, which is accepted only while capacity - counted "
              "exceeds the balls the target expects from other sources (MPF's numbers at the check) and, for a "
              "switch-counted target, a seat is physically free at that moment; a ball-search pulse only at an idle "
              "device counting 0; giving up writes off exactly playfield.balls from num_balls_known, playfield.balls "
              "and playfield.available_balls and num_balls_known changes at no other step except a newly found ball; "
              "an arriving ball is matched only "
              "with an expected ball that has passed its confirm switch/event, and a ball is booked as lost only "
              "while it is still expected (never both).  Counting layer, for all switch timelines of an idle device: "
              "0 <= count <= number of switches (entrance counter: <= ball_capacity); a switch state stable for the "
              "count delays is reported exactly (only-jam-switch case flagged unreliable) and never as 0 while a "
              "switch is active (lone ball on the jam switch of an empty device); no count change without a "
              "switch change; entrance counter with any number of entrances: balls through pairwise different "
              "entrances are all counted up to the capacity whatever the ignore window.  Composition: with counts taken from settled counters the playfield clause holds "
              "without assuming counted = physical.  That the real coroutines emit only traces the ledger accepts is "
              "validated on every run (sampled), not proved; the counter model is tied pointwise to the real classes.")
LEVEL_NOTE = ("Proved: bookkeeping layer (all traces) and counting layer of an idle device (all switch timelines). "
              "Validated by sampled runs only: the ledger tie (real runs are accepted and every snapshot is "
              "reproduced), the counter during an eject, and that the ledger's LCount inputs are the counter's "
              "reports. For the code without fixes/C04-give-up-keeps-promised-balls.patch 'giving up preserves the available-ball "
              "sum' is refuted (give_up_zeroing_available_refuted) and reproduced (VIOLATION until the patch is "
              "applied). the available balls summing to num_balls_known is refuted (available_sum_refuted, known finding, excess "
              "tracked exactly); playfield.balls >= 0 is refuted in the model (pf_balls_nonneg_refuted) and reproduced on the "
              "code (known finding); 'no pulse towards a full device' holds for MPF's believed numbers only (known "
              "findings for late balls / two sources). The oracle clause 'a queued request is served once a ball is "
              "available' is a supplement borrowed from C05 (oracle only).")

ST = {s: i for i, s in enumerate(bc.STATES)}


def dz(name):
    return zlit(bc.DEV_ID[name])


def zl(xs):
    return "[" + ";".join(zlit(x) for x in xs) + "]"


def label_term(l, devs):
    k = l[0]
    if k == "Count":
        return "LCount %s %s" % (dz(l[1]), zlit(l[2]))
    if k == "State":
        return "LState %s %s" % (dz(l[1]), zlit(ST[l[2]]))
    if k == "Chain":
        return "LChain %s %s" % (dz(l[1]), dz(l[2]))
    if k == "Enter":
        return "LEnter %s %s" % (dz(l[1]), zlit(l[2]))
    if k == "Captured":
        return "LCaptured"
    if k == "PfRemoved":
        return "LPfRemoved"
    if k == "Added":
        return "LAdded %s" % dz(l[1])
    if k == "Entered":
        return "LEntered %s %s" % (dz(l[1]), zlit(l[2]))
    if k == "Attempt":
        return "LAttempt %s %s %s" % (dz(l[1]), dz(l[2]), zlit(l[3]))
    if k == "Ejecting":
        return "LEjecting %s %s %s" % (dz(l[1]), dz(l[2]), zlit(l[3]))
    if k == "PfReq":
        return "LPfReq %s" % zlit(l[1])
    if k == "Success":
        return "LSuccess %s %s" % (dz(l[1]), dz(l[2]))
    if k == "Failed":
        return "LFailed %s %s %s %s" % (dz(l[1]), dz(l[2]), zlit(l[3]), zlit(l[4]))
    if k == "PfAdded":
        return "LPfAdded"
    if k == "AvailDec":
        return "LAvailDec %s" % dz(l[1])
    if k == "MissingToPf":
        return "LMissingToPf"
    if k == "CancelMissing":
        return "LCancelMissing"
    if k == "Lost":
        return "LLost %s" % dz(l[1])
    if k == "FoundNew":
        return "LFoundNew"
    if k == "MissingEv":
        return "LMissingEv %s" % dz(l[1])
    if k == "Broken":
        return "LBroken %s" % dz(l[1])
    if k == "Pulse":
        return "LPulse %s" % dz(l[1])
    if k == "ExtWait":
        return "LExtWait %s" % dz(l[1])
    if k == "Confirmed":
        return "LConfirmed %s %s" % (dz(l[1]), dz(l[2]))
    if k == "IncTimeout":
        return "LIncTimeout %s %s" % (dz(l[1]), dz(l[2]))
    if k == "IncLost":
        return "LIncLost %s %s" % (dz(l[1]), dz(l[2]))
    if k == "SearchPulse":
        return "LSearchPulse %s" % dz(l[1])
    if k == "GiveUp":
        return "LGiveUp %s %s %s" % (zlit(l[1]), zlit(l[2]), zlit(l[3]))
    if k == "S":
        kind = l[1]
        if kind == "leave":
            return "SLeave %s %s" % (dz(l[2]), dz(l[3]))
        if kind == "arrive":
            return "SArrive %s %s" % (dz(l[2]), dz(l[3]))
        if kind == "bounce":
            return "SBounce %s %s" % (dz(l[2]), dz(l[3]))
        if kind == "leak":
            return "SLeak %s" % dz(l[2])
        return "SNop"
    if k == "Snap":
        s = l[1]
        ds = coqlist(zl([bc.DEV_ID[d], s[d][0], s[d][2], ST[s[d][3]], s[d][4]]) for d in devs)
        return "LSnap %s %s" % (ds, zl(list(s["playfield"]) + [s["known"]]))
    return "LStray"


def labels_to_terms(labels, devs):
    out = []
    prev_snap = None
    for l in labels:
        if l[0] == "Snap":
            key = repr(l[1])
            if key != prev_snap:
                out.append(label_term(l, devs))
                prev_snap = key
            if l[2] == "T":
                truth = l[4]
                out.append("LTruth %s %s" % (coqlist(zl([bc.DEV_ID[d], truth["dev"][d]]) for d in devs),
                                             zlit(truth["loose"])))
                if l[3]:
                    out.append("LRest")
        else:
            prev_snap = None
            out.append(label_term(l, devs))
    return out


def cfg_term(devs):
    return coqlist("(%s,%s)" % (dz(d), zlit(v["cap"])) for d, v in devs.items())


def coq_case(case, out):
    if out.get("error") or out.get("sim_error"):
        return None         # MPF raised: the oracle reports it; there is no complete run to replay
    devs = bc.device_table(case["topo"])
    labels = bc.parse_log(out["log"], devs)
    first = labels[0]
    s, truth = first[1], first[4]
    ds = coqlist(zl([bc.DEV_ID[d], s[d][0], s[d][2], ST[s[d][3]], truth["dev"][d]]) for d in devs)
    pf = zl(list(s["playfield"]) + [s["known"], truth["loose"]])
    # configuration labels: how each device counts (ball switches = one seat per switch / entrance switch)
    kinds = ["LKind %s %s" % (dz(d), zlit(1 if v["kind"] == "switch" else 0)) for d, v in devs.items()]
    terms = kinds + labels_to_terms(labels[1:], devs)
    return "((%s, (%s, %s), %s), (-1))" % (cfg_term(devs), ds, pf, coqlist(terms))


def run_impl(case):
    return bc.run_world(case)


def gen(rng, tier, i):
    r = rng.random()
    if r < 0.06:
        # a real game: ball start, ball_save (eject_delay) and multiball as the sources of the ball requests
        return bc.gen_case(rng, tier, i, profile="save_twice")
    if r < 0.16:
        # fourth pass: target filling up while a source waits for its eject to end; ball search giving up
        return bc.gen_case(rng, tier, i, profile=rng.choice(bc.C04_TEMPLATES))
    case = bc.gen_case(rng, tier, i)
    if rng.random() < 0.08 and not case["topo"].get("game"):
        # ball search in an arbitrary world: whatever lingers on the playfield for longer than the timeout is searched
        # for and written off
        case["topo"]["search"] = {"timeout": rng.choice([3000, 5000, 9000]), "k1": rng.choice([1, 2]),
                                  "wait": rng.choice([1000, 2000])}
    return case


def nontrivial(case, out):
    log = out.get("log", [])
    pulses = [j for j, it in enumerate(log) if it[0] == "C"]
    if not pulses:
        return False
    return any(it[0] == "T" and it[2] for it in log[pulses[0]:])


def describe(case):
    t = case["topo"]
    return "%s trough=%d lock=%d%s" % (case.get("profile", "?"), t["trough_n"], t.get("lock_k", 0),
                                       " unknown-ball" if t.get("loose") else "")


HDR = "From C04 Require Import Model.\nDefinition run := c04_run.\nDefinition out_eqb := c04_out_eqb.\n"


# ------------------------------------------------------------------------------------------------
# counting layer: the real SwitchCounter / EntranceSwitchCounter of an idle device on generated switch timelines
# (bounces, several switches inside one count window, jam switch, entrance events) against coq/C04/Counter.v
GRID = 125      # ms; every instant is a multiple of 1/8 s after an integer second: float arithmetic is exact


def gen_counter(rng, tier, i):
    n = rng.choice([1, 2, 3, 4])
    jam = rng.random() < 0.4
    cfg = {"n": n, "jam": jam, "ent": rng.choice([250, 500, 500, 750]), "exit": rng.choice([250, 500, 500, 1000]),
           "ecap": rng.choice([1, 2, 3, 4]), "ignore": rng.choice([0, 0, 250, 1000, 3000]),
           "nent": rng.choice([1, 2, 2])}       # entrance switches of the entrance-counted device (+ its entrance event)
    nsw = n + (1 if jam else 0)
    ev = []
    t = 0
    state = [0] * nsw
    style = rng.choice(["bounce", "slow", "burst", "mixed"])
    for _ in range(rng.choice([4, 8, 12, 20])):
        if style == "slow":
            t += GRID * rng.choice([2, 4, 6, 8, 12, 50])
        elif style == "bounce":
            t += GRID * rng.choice([0, 1, 1, 2, 3, 4, 9])
        elif style == "burst":
            t += GRID * rng.choice([0, 0, 0, 1, 2, 16])
        else:
            t += GRID * rng.choice([0, 1, 2, 4, 5, 8, 9, 44])
        r = rng.random()
        if r < 0.68:
            k = rng.randrange(nsw)
            if jam and rng.random() < (0.25 if style != "slow" else 0.5):
                k = n       # (slow timelines with a jam switch: a ball coming to rest on the jam switch alone)
            state[k] ^= 1
            ev.append([t, "sw", k, state[k]])
        elif r < 0.78:
            ev.append([t, "ent"])
        else:
            ev.append([t, "tick"])
    ev.append([t + GRID * rng.choice([1, 3, 5, 9, 20]), "tick"])
    ev.append([ev[-1][0] + GRID * 10, "tick"])
    eev = []
    t = 0
    for _ in range(rng.choice([2, 4, 6, 9])):
        t += GRID * rng.choice([1, 1, 2, 3, 8, 20])
        if rng.random() < 0.75:
            eev.append([t, "hit", rng.randrange(cfg["nent"])])     # a ball rolls over entrance switch k
        else:
            eev.append([t, "event"])                               # a ball comes in through the entrance event
    return {"cfg": cfg, "ev": ev, "eev": eev}


def run_counter(case):
    import rig as rigmod
    from mpf.devices.ball_device.physical_ball_counter import BallLostActivity, BallEntranceActivity, \
        UnknownBallActivity, BallReturnActivity
    c = case["cfg"]
    sw = {"s_b%d" % k: {"number": str(10 + k)} for k in range(c["n"])}
    names = ["s_b%d" % k for k in range(c["n"])]
    box = {"ball_switches": ", ".join(names), "eject_coil": "c_box", "tags": "trough",
           "entrance_count_delay": "%dms" % c["ent"], "exit_count_delay": "%dms" % c["exit"],
           "entrance_events": "verif_box_entrance", "eject_timeouts": "10s"}
    if c["jam"]:
        sw["s_jam"] = {"number": "30"}
        box["jam_switch"] = "s_jam"
        names.append("s_jam")
    enames = ["s_e%d" % k for k in range(c.get("nent", 1))]
    for k, nm in enumerate(enames):
        sw[nm] = {"number": str(40 + k)}
    ebox = {"entrance_switch": ", ".join(enames), "ball_capacity": c["ecap"], "eject_coil": "c_ebox", "tags": "trough",
            "entrance_switch_ignore_window_ms": c["ignore"], "entrance_events": "verif_ebox_entrance"}
    cfg = {"switches": sw, "coils": {"c_box": {"number": "1"}, "c_ebox": {"number": "2"}},
           "ball_devices": {"box": box, "ebox": ebox},
           "playfields": {"playfield": {"default_source_device": "box", "tags": "default"}}}
    rig = rigmod.Rig(cfg)
    rig.start()
    try:
        m = rig.machine
        rig.advance(3.0)
        now = rig.now()
        base = float(int(now) + 2)
        rig.advance(base - now)
        if rig.now() != base:
            return {"error": "clock not on the grid: %r" % rig.now()}
        cb = m.ball_devices["box"].ball_count_handler.counter
        ce = m.ball_devices["ebox"].ball_count_handler.counter
        qb, qe = cb.register_change_stream(), ce.register_change_stream()
        acts = {"lost": 0, "unk": 0, "ent": 0, "ret": 0}
        eacts = [0]

        def drain():
            while not qb.empty():
                a = qb.get_nowait()
                key = "lost" if isinstance(a, BallLostActivity) else "ent" if isinstance(a, BallEntranceActivity) else \
                    "ret" if isinstance(a, BallReturnActivity) else "unk" if isinstance(a, UnknownBallActivity) else None
                acts[key] += 1
            while not qe.empty():
                a = qe.get_nowait()
                eacts[0] += 1 if isinstance(a, BallEntranceActivity) else 1000

        merged = sorted([(e[0], 0, j, e) for j, e in enumerate(case["ev"])] +
                        [(e[0], 1, j, e) for j, e in enumerate(case["eev"])])
        tb, te = [], []
        for t, which, _, e in merged:
            target = base + t / 1000.0
            if target > rig.now():
                rig.advance(target - rig.now())
            if rig.now() != target:
                return {"error": "clock drift: %r != %r" % (rig.now(), target)}
            if which == 0:
                if e[1] == "sw":
                    m.switch_controller.process_switch(names[e[2]], state=e[3], logical=True)
                elif e[1] == "ent":
                    m.events.post("verif_box_entrance")
                rig.advance(0)
                drain()
                tb.append([cb._last_count, 1 if cb.is_count_unreliable() else 0, acts["lost"], acts["unk"],
                           acts["ent"], acts["ret"]])
            else:
                if e[1] == "hit":
                    nm = enames[e[2] if len(e) > 2 else 0]
                    m.switch_controller.process_switch(nm, state=1, logical=True)
                    m.switch_controller.process_switch(nm, state=0, logical=True)
                else:
                    m.events.post("verif_ebox_entrance")
                rig.advance(0)
                drain()
                te.append([ce._last_count, eacts[0]])
        # let everything settle, then look at what the device itself believes
        rig.advance(8.0)
        drain()
        final = {"box": [cb._last_count, m.ball_devices["box"].counted_balls, m.ball_devices["box"].balls],
                 "ebox": [ce._last_count, m.ball_devices["ebox"].counted_balls, m.ball_devices["ebox"].balls],
                 "unrel": 1 if cb.is_count_unreliable() else 0}
        return {"tb": tb, "te": te, "final": final, "error": None}
    finally:
        try:
            rig._exception = None
        except Exception:
            pass
        rig.stop()


def coq_counter(case, out):
    if out.get("error"):
        return None
    c = case["cfg"]
    cev = []
    for e in case["ev"]:
        if e[1] == "sw":
            cev.append("CSw %s %s %s" % (zlit(e[0]), zlit(e[2]), "true" if e[3] else "false"))
        elif e[1] == "ent":
            cev.append("CEnt %s" % zlit(e[0]))
        else:
            cev.append("CTick %s" % zlit(e[0]))
    eev = ["EHit %s %s" % (zlit(e[0]), zlit(e[2] if len(e) > 2 else 0)) if e[1] == "hit" else "EEvent %s" % zlit(e[0])
           for e in case["eev"]]
    inp = "((mkc %s %s %s %s 5000, %s), (mke %s %s, %s))" % (
        zlit(c["n"]), "true" if c["jam"] else "false", zlit(c["ent"]), zlit(c["exit"]), coqlist(cev),
        zlit(c["ecap"]), zlit(c["ignore"]), coqlist(eev))
    exp = "(%s, %s)" % (coqlist(zl(r) for r in out["tb"]), coqlist(zl(r) for r in out["te"]))
    return "(%s, %s)" % (inp, exp)


def oracle_counter(case, out):
    """the property's own clauses for the counting layer, from the switch timeline alone (no model):
    a count never exceeds the number of switches / ball_capacity, never is negative, and once every switch has been
    quiet for longer than both delays the count equals the number of active ball switches"""
    if out.get("error"):
        return [{"sig": "counter-harness", "what": out["error"]}]
    c = case["cfg"]
    fails = []
    nsw = c["n"] + (1 if c["jam"] else 0)
    for r in out["tb"]:
        if r[0] < 0 or r[0] > nsw:
            fails.append({"sig": "switch-count-out-of-range", "what": "SwitchCounter reports %d balls with %d switches" %
                          (r[0], nsw)})
            break
    for r in out["te"]:
        if r[0] < 0 or r[0] > c["ecap"]:
            fails.append({"sig": "entrance-count-above-capacity", "what": "EntranceSwitchCounter reports %d balls, "
                          "ball_capacity %d" % (r[0], c["ecap"])})
            break
    # physical state at the end (8 s after the last event: far beyond every delay)
    state = [0] * nsw
    for e in case["ev"]:
        if e[1] == "sw":
            state[e[2]] = e[3]
    fin = out["final"]
    only_jam = c["jam"] and state[c["n"]] and sum(state) == 1
    if only_jam and fin["box"][0] < 1:
        # a ball resting on the jam switch is a ball in the device, whatever the counter thinks of its reliability
        fails.append({"sig": "ball-on-jam-switch-not-counted", "what": "only the jam switch has been active for 8 s "
                      "(a ball rests on it) but the counter reports %d balls" % fin["box"][0]})
    if not only_jam and not fin["unrel"]:
        if fin["box"][0] != sum(state):
            fails.append({"sig": "stable-count-wrong", "what": "switches %r quiet for 8 s but the counter reports %d" %
                          (state, fin["box"][0])})
        elif fin["box"][1] != sum(state):
            if c["jam"] and any(r[1] for r in out["tb"]):
                # known: a ball whose first debounced appearance is followed by the only-jam-switch state before
                # BallCountHandler._run got to handle it is skipped ("count unreliable"); when the jam clears with an
                # unchanged count the SwitchCounter records no activity, so the handler never looks again
                fails.append({"sig": "device-count-stale-after-jam", "what": "switches %r quiet for 8 s, the counter "
                              "reports %d but the device still counts %d (count was unreliable in between: only the "
                              "jam switch active)" % (state, fin["box"][0], fin["box"][1])})
            else:
                fails.append({"sig": "device-count-differs-from-counter", "what": "switches %r quiet for 8 s, counter "
                              "%d, device %d" % (state, fin["box"][0], fin["box"][1])})
    # without a switch change the count does not change: two consecutive samples that both lie beyond both delays
    # after the last switch change must agree
    prev, prev_settled = None, False
    last_change_t = -10 ** 9
    for e, r in zip(case["ev"], out["tb"]):
        if e[1] == "sw":
            last_change_t = e[0]
        settled = e[0] - last_change_t >= max(c["ent"], c["exit"])
        if e[1] != "sw" and prev is not None and prev_settled and prev[0] != r[0]:
            fails.append({"sig": "count-changed-without-switch-change", "what": "count %d -> %d at t=%d ms, last switch "
                          "change at %d ms" % (prev[0], r[0], e[0], last_change_t)})
            break
        prev, prev_settled = r, settled
    # debounce, from the timeline alone: the reported count is the number of active switches at the latest instant
    # (125 ms grid) at which every switch had been unchanged for its delay (jam-free devices)
    # (with a jam switch: the same, except that while ONLY the jam switch is active the counter keeps its previous
    #  count if that was not 0 -- the device is then never reported empty)
    if True:
        hist = [[(-10 ** 7, 0)] for _ in range(nsw)]         # per switch: (time, state) changes
        k = 0
        for e, r in zip(case["ev"], out["tb"]):
            if e[1] == "sw":
                hist[e[2]].append((e[0], e[3]))
            t = e[0]
            exp = None
            tau = t - t % GRID
            jam_alone = False
            while tau >= -GRID and exp is None:
                n_act, ok = 0, True
                for hi, h in enumerate(hist):
                    # state at tau: timers due at tau run before a change made at tau (strict <)
                    past = [x for x in h if x[0] < tau]
                    since, st = past[-1]
                    if tau - since < (c["ent"] if st else c["exit"]):
                        ok = False
                        break
                    n_act += st
                    if c["jam"] and hi == c["n"]:
                        jam_state = st
                if ok:
                    exp = n_act
                    jam_alone = bool(c["jam"] and jam_state and n_act == 1)
                tau -= GRID
            if exp is None:
                exp = 0
            if jam_alone:
                if r[0] < 1:
                    fails.append({"sig": "ball-on-jam-switch-not-counted", "what": "at t=%d ms the counter reports 0 "
                                  "balls although the jam switch (alone) has been active for the count delay: a ball "
                                  "rests on it" % t})
                    break
            elif r[0] != exp:
                fails.append({"sig": "count-not-debounced", "what": "at t=%d ms the counter reports %d; the last switch "
                              "state that was stable for the count delays had %d active switches" % (t, r[0], exp)})
                break
    # entrance-counted device: hits on the SAME entrance inside its ignore window are one ball rattling on that switch
    # (that is what the option says); every other hit is a ball of its own, through whichever entrance it came
    until = {}
    balls_in = 0
    for e, r in zip(case["eev"], out["te"]):
        name = e[2] if e[1] == "hit" else "event"
        if e[0] >= until.get(name, -1):
            balls_in += 1
            if c["ignore"] > 0:
                until[name] = e[0] + c["ignore"]
        if r[0] != min(c["ecap"], balls_in):
            fails.append({"sig": "entrance-ball-not-counted", "what": "at t=%d ms %d balls have entered the device "
                          "(capacity %d; entrances used: %s) but the counter reports %d" %
                          (e[0], balls_in, c["ecap"], sorted({str(x[2]) if x[1] == "hit" else "event"
                                                              for x in case["eev"]}), r[0])})
            break
    hits = sum(1 for e in case["eev"])
    if out["te"] and out["te"][-1][0] > hits:
        fails.append({"sig": "entrance-count-above-hits", "what": "%d balls counted after %d entrance hits" %
                      (out["te"][-1][0], hits)})
    if fin["ebox"][1] != fin["ebox"][0]:
        fails.append({"sig": "device-count-differs-from-counter", "what": "ebox counter %d, device %d" %
                      (fin["ebox"][0], fin["ebox"][1])})
    return fails


def shrink_counter(case):
    for key in ("ev", "eev"):
        l = case[key]
        for i in range(len(l)):
            yield dict(case, **{key: l[:i] + l[i + 1:]})


def nontrivial_counter(case, out):
    return not out.get("error") and len({r[0] for r in out["tb"]}) >= 2


HDR_CNT = "From C04 Require Import Counter.\nDefinition run := counter_run.\nDefinition out_eqb := counter_out_eqb.\n"

SUITES = [
    Suite("ledger", gen, run_impl, HDR, coq_case, bc.oracle_c04, bc.shrink_case, nontrivial,
          {"quick": 240, "thorough": 6000}, describe=describe, shard=30, case_timeout=120),
    Suite("counter", gen_counter, run_counter, HDR_CNT, coq_counter, oracle_counter, shrink_counter, nontrivial_counter,
          {"quick": 120, "thorough": 3000}, shard=200, case_timeout=60),
]
