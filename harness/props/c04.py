"""C04 — Ball counts agree with the physical machine and are conserved.

Trace acceptance: a physical-world simulator (props/balls_common.py) drives the switches of a real MPF machine with
a generated device topology under generated game actions and eject faults; every assignment to a ball counter and
every balldevice_* event is recorded in exact program order; the Coq ledger (coq/C04/Model.v) must accept the whole
run and reproduce every snapshot of the real counters.  Independently the oracle compares the real counters with
the simulator's truth at every rest point, checks the bounds at every point where other code can observe them and
checks every coil pulse against the room physically left in its target.
"""
from vlib import Suite, zlit, coqlist

from props import balls_common as bc

ID = "C04"
READY = True
RULE = ("simulated machines: trough (2-5 ball switches) -> plunger / staging device (1-2) -> playfield, optional lock "
        "(1-2, switch-counted or entrance-switch-counted) that captures from the playfield and ejects to the playfield or "
        "into the plunger (second source of the same target), optionally one ball MPF has never seen; scripts of 2-16 "
        "actions (add_ball, request, drain, lock shot, lock release / eject_all, collect, playfield switch hit, a ball "
        "dropping into the trough and bouncing out again, one or two balls leaking out of the idle lock) at generated "
        "distances (0 ms .. 15 s); per coil pulse a generated physical outcome (leaves after 20-120 ms and arrives after "
        "150 ms .. beyond eject and ball-missing timeouts, stays stuck, falls back, two balls kicked out by one pulse); "
        "36 % of the cases come from six scenario templates with randomised numbers (two sources racing for a one-slot "
        "target, entrance-counted lock filled beyond capacity, switch flicker at the source while its ball is late, "
        "two balls lost from an idle device inside one count window, double kick-out with two ejects queued, source "
        "getting ready while a two-ball target is mid-eject); non-trivial = at least one eject and one rest point "
        "reached after it; distinct by case hash")
TRUSTED_BASE = [
    "Coq 8.16.1 kernel (coqc), vm_compute to replay recorded runs in the model; no native_compute",
    "axioms: none (every Print Assumptions is 'Closed under the global context')",
    "hand-written ledger model coq/C04/Model.v; tie = trace acceptance: harness/props/balls_common.py records "
    "the run of the real code (class-level __setattr__ wrappers for the seven counters, wrappers of "
    "EventManager.post*, the virtual platform driver's pulse) and parse_log groups adjacent raw items into labels",
    "the physical-world simulator of balls_common.py (balls as tokens, switches as seats) is the ground truth of "
    "the oracle",
]
ASSUMPTIONS = [
    "topologies: one playfield; switch-counted and entrance-switch-counted devices; pulse-coil ejectors; "
    "confirm_eject_type target. Not generated: mechanical/player-controlled ejects (ball skipping), jam switches, "
    "ball search, several playfields, entrance_switch_full_timeout; an entrance-counted device never gets a stuck or "
    "falling-back ball (it cannot notice either, its count would be wrong by design)",
    "the debounce / settle layer (switch_counter._run, entrance_count_delay, exit_count_delay) is validated by the "
    "oracle on sampled runs, not proved: the ledger takes the counter's results (LCount) as input",
]
DESIGN_REF = "DESIGN.md section 3, C04"
TECHNIQUE = ("Coq proof over a hand-written ledger transition system + trace acceptance of recorded runs of the real "
             "code (vm_compute) + direct physical-truth oracle")
LEVEL_TEXT = ("Machine-checked proof (Coq) about the ball ledger, for all traces the ledger accepts: the step invariants "
              "sum(counted) + playfield.balls = num_balls_known + pending and sum(available) = num_balls_known - "
              "pending, hence at every rest point (books closed) all counts sum to num_balls_known and, when the "
              "counters agree with the physical device contents, playfield.balls equals the balls physically loose; "
              "0 <= balls <= capacity for every device at every observable point; a coil is pulsed only in state "
              "'ejecting' and only while capacity - counted exceeds the expected incoming balls of the target.  "
              "That the real coroutines emit only traces the ledger accepts, and that the switch counters turn "
              "physical activity into the right counts, is validated on every run (sampled), not proved.")
LEVEL_NOTE = ("Proved: bookkeeping layer, all traces. Validated by sampled runs only: the tie (real runs are accepted and "
              "every snapshot is reproduced) and the debounce layer (oracle: counts = simulator truth at rest). "
              "playfield.balls >= 0 is refuted in the model (pf_balls_nonneg_refuted) and reproduced on the code "
              "(known finding); 'no pulse towards a full device' holds for MPF's believed numbers only (known "
              "finding for late balls).")

ST = {s: i for i, s in enumerate(bc.STATES)}


def dz(name):
    return zlit(bc.DEV_ID[name])


def zl(xs):
    return "[" + ";".join(zlit(x) for x in xs) + "]"


def label_term(l, devs):
    k = l[0]
    if k == "Count":
        return "LCount %s %s" % (dz(l[1]), zlit(l[2]))
    if k == "State":
        return "LState %s %s" % (dz(l[1]), zlit(ST[l[2]]))
    if k == "Chain":
        return "LChain %s %s" % (dz(l[1]), dz(l[2]))
    if k == "Enter":
        return "LEnter %s %s" % (dz(l[1]), zlit(l[2]))
    if k == "Captured":
        return "LCaptured"
    if k == "PfRemoved":
        return "LPfRemoved"
    if k == "Added":
        return "LAdded %s" % dz(l[1])
    if k == "Entered":
        return "LEntered %s %s" % (dz(l[1]), zlit(l[2]))
    if k == "Attempt":
        return "LAttempt %s %s %s" % (dz(l[1]), dz(l[2]), zlit(l[3]))
    if k == "Ejecting":
        return "LEjecting %s %s %s" % (dz(l[1]), dz(l[2]), zlit(l[3]))
    if k == "PfReq":
        return "LPfReq %s" % zlit(l[1])
    if k == "Success":
        return "LSuccess %s %s" % (dz(l[1]), dz(l[2]))
    if k == "Failed":
        return "LFailed %s %s %s %s" % (dz(l[1]), dz(l[2]), zlit(l[3]), zlit(l[4]))
    if k == "PfAdded":
        return "LPfAdded"
    if k == "AvailDec":
        return "LAvailDec %s" % dz(l[1])
    if k == "MissingToPf":
        return "LMissingToPf"
    if k == "CancelMissing":
        return "LCancelMissing"
    if k == "Lost":
        return "LLost %s" % dz(l[1])
    if k == "FoundNew":
        return "LFoundNew"
    if k == "MissingEv":
        return "LMissingEv %s" % dz(l[1])
    if k == "Broken":
        return "LBroken %s" % dz(l[1])
    if k == "Pulse":
        return "LPulse %s" % dz(l[1])
    if k == "S":
        kind = l[1]
        if kind == "leave":
            return "SLeave %s %s" % (dz(l[2]), dz(l[3]))
        if kind == "arrive":
            return "SArrive %s %s" % (dz(l[2]), dz(l[3]))
        if kind == "bounce":
            return "SBounce %s %s" % (dz(l[2]), dz(l[3]))
        if kind == "leak":
            return "SLeak %s" % dz(l[2])
        return "SNop"
    if k == "Snap":
        s = l[1]
        ds = coqlist(zl([bc.DEV_ID[d], s[d][0], s[d][2], ST[s[d][3]], s[d][4]]) for d in devs)
        return "LSnap %s %s" % (ds, zl(list(s["playfield"]) + [s["known"]]))
    return "LStray"


def labels_to_terms(labels, devs):
    out = []
    prev_snap = None
    for l in labels:
        if l[0] == "Snap":
            key = repr(l[1])
            if key != prev_snap:
                out.append(label_term(l, devs))
                prev_snap = key
            if l[2] == "T":
                truth = l[4]
                out.append("LTruth %s %s" % (coqlist(zl([bc.DEV_ID[d], truth["dev"][d]]) for d in devs),
                                             zlit(truth["loose"])))
                if l[3]:
                    out.append("LRest")
        else:
            prev_snap = None
            out.append(label_term(l, devs))
    return out


def cfg_term(devs):
    return coqlist("(%s,%s)" % (dz(d), zlit(v["cap"])) for d, v in devs.items())


def coq_case(case, out):
    if out.get("error") or out.get("sim_error"):
        return None         # MPF raised: the oracle reports it; there is no complete run to replay
    devs = bc.device_table(case["topo"])
    labels = bc.parse_log(out["log"], devs)
    first = labels[0]
    s, truth = first[1], first[4]
    ds = coqlist(zl([bc.DEV_ID[d], s[d][0], s[d][2], ST[s[d][3]], truth["dev"][d]]) for d in devs)
    pf = zl(list(s["playfield"]) + [s["known"], truth["loose"]])
    terms = labels_to_terms(labels[1:], devs)
    return "((%s, (%s, %s), %s), (-1))" % (cfg_term(devs), ds, pf, coqlist(terms))


def run_impl(case):
    return bc.run_world(case)


def gen(rng, tier, i):
    return bc.gen_case(rng, tier, i)


def nontrivial(case, out):
    log = out.get("log", [])
    pulses = [j for j, it in enumerate(log) if it[0] == "C"]
    if not pulses:
        return False
    return any(it[0] == "T" and it[2] for it in log[pulses[0]:])


def describe(case):
    t = case["topo"]
    return "%s trough=%d lock=%d%s" % (case.get("profile", "?"), t["trough_n"], t.get("lock_k", 0),
                                       " unknown-ball" if t.get("loose") else "")


HDR = "From C04 Require Import Model.\nDefinition run := c04_run.\nDefinition out_eqb := c04_out_eqb.\n"

SUITES = [
    Suite("ledger", gen, run_impl, HDR, coq_case, bc.oracle_c04, bc.shrink_case, nontrivial,
          {"quick": 240, "thorough": 6000}, describe=describe, shard=30, case_timeout=120),
]
