"""C15 — Persistent data is durable, never torn, and survives write failures.

Suite "writer": the REAL DataManager._writing_thread / FileManager.save / YamlInterface.save run in a real thread
that is lock-stepped with the harness: every call the thread makes to time.sleep, Event.is_set/wait/clear,
copy.deepcopy, open(temp,'w') (+ two chunked writes), os.replace is a hand-over point.  The schedule (list of ops
Save v | Shutdown | Crash | IoError | Tick) decides what happens between two hand-over points.  Real files in a
scratch directory; after every op the directory is inspected (file parsed with the real FileManager.load).

Suite "vars": real MachineVariables on a fake machine + real DataManager/YAML file; set/configure/remove/advance
clock, then "reboot" (fresh DataManager + MachineVariables on the same file) at a generated time.
"""
import os
import random
import shutil
import tempfile
import threading

from vlib import Suite, zlit, zlist, coqlist, blit

ID = "C15"
READY = True
RULE = ("writer: schedules of 4-40 ops over {Save v, Shutdown, Crash, IoError, Tick} followed by a drain of Ticks, from "
        "one PRNG, biased so that saves fall into the rate-limit sleep, between clear/deepcopy/open/write/replace, "
        "shutdown falls before/after them, crashes and I/O errors hit every point of the temp-file write and the rename; "
        "optional pre-existing file and left-over temp file; payloads cover the YAML scalar/collection types. "
        "non-trivial = at least one save reached the temp-file write and (a save, shutdown, crash or error happened "
        "while the thread was between clear() and the end of the rate-limit sleep). "
        "fsave: 2-11 direct FileManager.save calls on two files through the real ruamel dumper: good / unrepresentable value / "
        "OSError in the k-th write(); non-trivial = a good save follows a failed one. "
        "vars: 3-14 ops set/configure/remove/advance on real MachineVariables then reboot at now+dt; "
        "non-trivial = at least one persisted variable with an expiry on either side of the reboot time")
TRUSTED_BASE = [
    "Coq 8.16.1 kernel (coqc), vm_compute for refutation witnesses and for evaluating the model in the correspondence run",
    "axioms: none (every Print Assumptions is 'Closed under the global context')",
    "hand-written model coq/C15/Model.v (program-counter machine of _writing_thread + FileManager.save + disk) tied to the "
    "working tree by lock-stepping the real thread (harness/props/c15.py) and comparing flags and directory contents "
    "after every op",
    "the lock-step shims (time.sleep, threading.Event, copy.deepcopy, _thread.start_new_thread as seen by "
    "mpf.core.data_manager; os.replace as seen by mpf.core.file_manager; open() as seen by "
    "mpf.file_interfaces.yaml_interface, which buffers ruamel's writes and emits them in two chunks; the first hand-over "
    "of a write is inside the real dump()); suite fsave uses the real yaml layer with a pass-through file object",
    "CPython file I/O, os.replace atomicity (POSIX rename), ruamel.yaml dump/load (round trip checked by the oracle)",
]
ASSUMPTIONS = [
    "process-crash model: what a crash leaves behind is what had been written+flushed at the last hand-over point; "
    "no power-loss / fsync reordering semantics",
    "one DataManager (one writer thread); two managers racing on the unlocked FileManager.is_busy test-and-set are not modelled",
    "clean shutdown = thread_stopper set and the writer thread allowed to run to its end (MachineController.shutdown "
    "does not join the thread; see NOTES.md)",
    "statement granularity: the thread is only pre-empted at calls the harness can intercept; is_busy reads/writes "
    "are merged with the adjacent intercepted call",
]

VARIANT = os.environ.get("C15_VARIANT", "fixed")     # "orig": compare with the model of the unpatched code (development aid)
CFG = {"fixed": "(true, true)", "orig": "(false, false)", "flush": "(true, false)", "busy": "(false, true)"}[VARIANT]

DRAIN = 26
IO_POINTS = ("open", "w1", "w2", "replace")
PC_CODE = {"sleep1": 1, "stop?": 2, "wait": 3, "sleep02": 4, "clear": 5, "copy": 6, "open": 7, "w1": 8, "w2": 9,
           "replace": 10, "dirty?": 11, "done": 12}

# ------------------------------------------------------------------------------------------------
# lock-step machinery
CUR = None          # the controller of the case that is running in this worker process


class Ctl:
    def __init__(self):
        self.go = threading.Semaphore(0)
        self.ready = threading.Semaphore(0)
        self.at = None
        self.cmd = None
        self.wid = None
        self.exc = None
        self.thread = None

    def kill(self):
        """abandon the writer thread where it stands (it unwinds with SystemExit) and wait until it is gone, so that
        its finally-blocks cannot touch FileManager.is_busy during the next case"""
        if self.at != "done":
            self.cmd = "kill"
            self.go.release()
        if self.thread is not None:
            self.thread.join(10)

    def in_writer(self):
        return self.wid is not None and threading.get_ident() == self.wid

    def hand_over(self, label):
        """called by the writer thread at every intercepted call"""
        self.at = label
        self.ready.release()
        self.go.acquire()
        if self.cmd == "kill":
            raise SystemExit
        if self.cmd == "fault" and label in IO_POINTS:
            raise OSError(5, "injected I/O error at " + label)

    def resume(self, cmd):
        """called by the harness: let the writer run to its next hand-over point"""
        if self.at == "done":
            return
        self.cmd = cmd
        self.go.release()
        if not self.ready.acquire(timeout=20):
            raise RuntimeError("writer thread did not reach a hand-over point (at %s)" % self.at)

    def wait_started(self):
        if not self.ready.acquire(timeout=20):
            raise RuntimeError("writer thread did not start")


class StepEvent:
    """threading.Event as seen by mpf.core.data_manager (and the fake machine's thread_stopper)"""

    label = "dirty?"

    def __init__(self):
        self._flag = False
        self.nset = 0

    def is_set(self):
        c = CUR
        if c is not None and c.in_writer():
            c.hand_over(self.label)
        return self._flag

    def set(self):
        self._flag = True
        self.nset += 1

    def clear(self):
        c = CUR
        if c is not None and c.in_writer():
            c.hand_over("clear")
        self._flag = False

    def wait(self, timeout=None):
        c = CUR
        if c is not None and c.in_writer():
            c.hand_over("wait")
        return self._flag


class StopEvent(StepEvent):
    label = "stop?"


class _Shim:
    def __init__(self, real, **over):
        self._real = real
        self.__dict__.update(over)

    def __getattr__(self, name):
        return getattr(self._real, name)


def _sleep(secs):
    c = CUR
    if c is not None and c.in_writer():
        c.hand_over("sleep1" if secs >= 1 else "sleep02")
        return
    raise RuntimeError("time.sleep outside the writer thread")


def _deepcopy(x, *a, **k):
    import copy
    c = CUR
    if c is not None and c.in_writer():
        c.hand_over("copy")
    return copy.deepcopy(x, *a, **k)


def _start_new_thread(fn, args=(), kwargs=None):
    c = CUR

    def body():
        c.wid = threading.get_ident()
        try:
            fn(*args, **(kwargs or {}))
        except SystemExit:
            return
        except BaseException as e:   # noqa: an exception that escapes _writing_thread ends the thread
            c.exc = type(e).__name__
        c.at = "done"
        c.ready.release()
    t = threading.Thread(target=body, daemon=True)
    c.thread = t
    t.start()
    return t.ident


def _replace(src, dst):
    c = CUR
    if c is not None and c.in_writer():
        c.hand_over("replace")
    os.replace(src, dst)


class ChunkedFile:
    """what YamlInterface.save gets from open(temp, 'w'): the file is created/truncated at open.  The hand-over "w1"
    happens at ruamel's FIRST write() call, i.e. inside the real dump(): an injected fault there propagates through the
    real dumper (this is what wedged the shared YAML() instance before fixes/C15-yaml-dumper-per-save.patch).  The text
    is collected and emitted as two flushed chunks, with the hand-over "w2" between them."""

    def __init__(self, c, filename, mode, **kw):
        self.c = c
        c.hand_over("open")
        self.f = open(filename, mode, **kw)
        self.buf = []
        self.started = False

    def write(self, s):
        if not self.started:
            self.started = True
            self.c.hand_over("w1")
        self.buf.append(s)
        return len(s)

    def flush(self):
        pass

    def __getattr__(self, name):        # encoding, name, mode, ...: those of the real file object
        return getattr(self.f, name)

    def __enter__(self):
        return self

    def __exit__(self, et, ev, tb):
        try:
            if et is None:
                data = "".join(self.buf)
                k = len(data) // 2
                if not self.started:
                    self.c.hand_over("w1")
                self.f.write(data[:k])
                self.f.flush()
                self.c.hand_over("w2")
                self.f.write(data[k:])
                self.f.flush()
        finally:
            self.f.close()
        return False


class FaultyFile:
    """suite fsave: the real file object, unbuffered pass-through, whose k-th write() raises OSError"""

    def __init__(self, real, k, info):
        self.f = real
        self.k = k
        self.n = 0
        self.info = info

    def write(self, s):
        self.n += 1
        if self.n == self.k:
            self.info["fired"] = True
            self.info["before"] = self.n - 1
            raise OSError(28, "No space left on device (injected)")
        r = self.f.write(s)
        self.f.flush()
        return r

    def __getattr__(self, name):
        return getattr(self.f, name)

    def __enter__(self):
        return self

    def __exit__(self, et, ev, tb):
        self.f.close()
        return False


FS_FAULT = None      # suite fsave: {"k": n} -> the next open(..., 'w') by the yaml interface returns a FaultyFile


def _open(filename, mode="r", *a, **kw):
    c = CUR
    if c is not None and c.in_writer() and "w" in mode:
        return ChunkedFile(c, filename, mode, *a, **kw)
    global FS_FAULT
    if c is None and FS_FAULT is not None and "w" in mode:
        info, FS_FAULT = FS_FAULT, None
        return FaultyFile(open(filename, mode, *a, **kw), info["k"], info)
    return open(filename, mode, *a, **kw)


_patched = False


def install_shims():
    global _patched
    if _patched:
        return
    import copy
    import time
    import _thread
    import logging
    import mpf.core.data_manager as dmm
    import mpf.core.file_manager as fmm
    import mpf.file_interfaces.yaml_interface as yim
    dmm.time = _Shim(time, sleep=_sleep)
    dmm.threading = _Shim(threading, Event=StepEvent)
    dmm.copy = _Shim(copy, deepcopy=_deepcopy)
    dmm._thread = _Shim(_thread, start_new_thread=_start_new_thread)
    fmm.os = _Shim(os, replace=_replace)
    yim.open = _open
    logging.disable(logging.CRITICAL)
    _patched = True


class FakeClock:
    def __init__(self, t):
        self.t = t

    def get_datetime(self):
        import datetime
        return datetime.datetime.fromtimestamp(self.t)


class FakeEvents:
    def post(self, *a, **k):
        pass


class FakeMachine:
    def __init__(self, path, name, fname):
        self.machine_path = path
        self.options = {"production": False}
        self.config = {"mpf": {"paths": {name: fname}, "save_machine_vars_to_disk": True},
                       "logging": {"console": {"data_manager": "none", "machine_vars": "none"},
                                   "file": {"data_manager": "none", "machine_vars": "none"}}}
        self.thread_stopper = StopEvent()
        self.clock = FakeClock(1700000000)
        self.events = FakeEvents()
        self.monitors = {}


# ------------------------------------------------------------------------------------------------
# payloads: version id -> dict covering the value types YAML can represent
SCALARS = [0, 1, -1, 42, 2 ** 40, -2 ** 63, 10 ** 25, 0.5, -2.25, 1e20, 1e-7, 0.1, 123456789.125, True, False, None,
           "", "a", "hello world", "123", "1.5", "yes", "no", "null", "~", "true", "True", "off", "0x10", "1e3", "1_000",
           " lead", "trail ", "multi\nline\n", "tab\there", "col: on", "- dash", "#hash", "quote\"s'", "é€中😀",
           "{brace}", "[br]", "a,b", "%pct", "@at", "`tick", "!bang", "&amp", "*star", "|pipe", ">gt", "? q", "\\back",
           "2001-01-01", "12:30:45", "=", "<<", "x" * 300]
KEYS = ["a", "b", "credits", "score", "player1_score", "x y", "1", "yes", "null", "é", "k:", "value", "expire", 7, 0, -3]


def rvalue(rng, depth=0):
    r = rng.random()
    if depth > 2 or r < 0.6:
        return rng.choice(SCALARS)
    if r < 0.8:
        return [rvalue(rng, depth + 1) for _ in range(rng.randint(0, 3))]
    return {rng.choice(KEYS): rvalue(rng, depth + 1) for _ in range(rng.randint(0, 3))}


def payload(pseed, v):
    rng = random.Random(pseed * 7919 + v)
    d = {"v": v}
    for _ in range(rng.choice([0, 1, 2, 3, 5])):
        d[rng.choice(KEYS)] = rvalue(rng)
    return d


def canon(x):
    """type-exact canonical text (1 != 1.0 != True, dict order irrelevant)"""
    if isinstance(x, dict):
        return "{" + ",".join(sorted(canon(k) + ":" + canon(v) for k, v in x.items())) + "}"
    if isinstance(x, list):
        return "[" + ",".join(canon(v) for v in x) + "]"
    return type(x).__name__ + ":" + repr(x)


# ------------------------------------------------------------------------------------------------
# suite "writer"
HIST3 = ["T", "T", "S1"] + ["T"] * 9 + ["S2"] + ["T"] * 4 + ["S3"] + ["T"] * 14     # three saves, the third lands mid-write


def gen_writer(rng, tier, i):
    if i < 2 * len(HIST3):
        # exhaustive: a crash (even i) or an I/O error (odd i) at every point of a fixed three-save history
        k = i // 2
        ops = HIST3[:k] + ["C" if i % 2 == 0 else "E"] + HIST3[k:] + ["T"] * DRAIN
        return {"ops": ops, "pseed": rng.randrange(10 ** 6), "init_file": i % 3 == 0, "init_temp": 0}
    n = rng.choice([4, 6, 8, 10, 12, 16, 20, 28, 40])
    style = rng.random()
    ops = []
    nv = 0
    shut = False
    w = {"T": 60, "S": 18, "H": 5, "C": 4, "E": 6}
    if style < 0.25:          # error-heavy
        w = {"T": 55, "S": 18, "H": 3, "C": 2, "E": 22}
    elif style < 0.45:        # crash-heavy
        w = {"T": 60, "S": 18, "H": 3, "C": 12, "E": 4}
    elif style < 0.65:        # shutdown-heavy, fault free
        w = {"T": 55, "S": 25, "H": 14, "C": 0, "E": 0}
    kinds = list(w)
    weights = [w[k] for k in kinds]
    if rng.random() < 0.5:
        ops += ["T"] * rng.choice([1, 2, 3])          # get past the start-up sleep
    for _ in range(n):
        k = rng.choices(kinds, weights)[0]
        if k == "S":
            nv += 1
            ops.append("S%d" % nv)
            if rng.random() < 0.5:
                ops += ["T"] * rng.choice([1, 2, 3, 4, 5, 6, 7, 8, 9, 10])    # walk into the save sequence
        elif k == "H":
            if shut and rng.random() < 0.7:
                ops.append("T")
            else:
                ops.append("H")
                shut = True
        else:
            ops.append(k)
    if rng.random() < 0.85:
        ops += ["T"] * DRAIN
    init_file = rng.random() < 0.3
    init_temp = rng.choice([0, 0, 0, 0, 1, 2, 3])       # left-over temp file: none / empty / partial / complete
    return {"ops": ops, "pseed": rng.randrange(10 ** 6), "init_file": init_file, "init_temp": init_temp}


class WriterRun:
    def __init__(self, case):
        global CUR
        install_shims()
        from mpf.core.file_manager import FileManager
        from mpf.core.data_manager import DataManager
        self.FileManager = FileManager
        FileManager.is_busy = False
        self.case = case
        self.dir = tempfile.mkdtemp(prefix="verif_c15_")
        self.fname = os.path.join(self.dir, "data", "store.yaml")
        self.tname = os.path.join(self.dir, "data", "_store.yaml")
        self.versions = {}          # id -> canonical text
        self.texts = {}
        os.makedirs(os.path.join(self.dir, "data"))
        if not FileManager.initialized:
            FileManager.init()
        if case.get("init_file"):
            self._plain_write(self.fname, 100, 3)
        if case.get("init_temp"):
            self._plain_write(self.tname, 101, case["init_temp"])
        self.ctl = Ctl()
        CUR = self.ctl
        self.machine = FakeMachine(self.dir, "store", "data/store.yaml")
        self.dm = DataManager(self.machine, "store", min_wait_secs=1)
        self.ctl.wait_started()
        self.crashed = False

    def _plain_write(self, path, v, how):
        """pre-existing files (written with the real YamlInterface, outside the writer thread)"""
        p = payload(self.case["pseed"], v)
        self.versions[v] = canon(p)
        tmp = path + ".gen"
        self.FileManager.file_interfaces[".yaml"].save(tmp, p)
        txt = open(tmp, encoding="utf8").read()
        os.unlink(tmp)
        with open(path, "w", encoding="utf8") as f:
            f.write("" if how == 1 else txt[:len(txt) // 2] if how == 2 else txt)

    def classify(self, path):
        """-> None (missing) | ("empty",) | ("ver", id) | ("torn",)"""
        if not os.path.exists(path):
            return None
        if os.path.getsize(path) == 0:
            return ("empty",)
        try:
            d = self.FileManager.load(path, halt_on_error=True)
        except Exception:
            return ("torn",)
        c = canon(d)
        for v, t in self.versions.items():
            if t == c:
                return ("ver", v)
        return ("torn",)

    def observe(self):
        f = self.classify(self.fname)
        t = self.classify(self.tname)
        fz = 0 if f is None else f[1] if f[0] == "ver" else -1 if f[0] == "torn" else -2
        tz = [0, 0] if t is None else [1, 0] if t[0] == "empty" else [3, t[1]] if t[0] == "ver" else [2, 0]
        if self.crashed:
            return [99, 0, 0, 0, fz] + tz
        return [PC_CODE[self.ctl.at], int(self.dm._dirty._flag), int(bool(self.FileManager.is_busy)),
                int(self.machine.thread_stopper._flag), fz] + tz

    def op(self, o):
        if self.crashed:
            return
        if o[0] == "S":
            v = int(o[1:])
            p = payload(self.case["pseed"], v)
            self.versions[v] = canon(p)
            self.dm.save_all(p)
        elif o == "H":
            self.machine.thread_stopper.set()
        elif o == "C":
            self.crashed = True
        elif o == "E":
            self.ctl.resume("fault")
        else:
            self.ctl.resume("tick")

    def close(self):
        global CUR
        try:
            self.ctl.kill()
        finally:
            CUR = None
            self.FileManager.is_busy = False
            shutil.rmtree(self.dir, ignore_errors=True)


def run_writer(case):
    r = WriterRun(case)
    try:
        obs = [r.observe()]
        for o in case["ops"]:
            r.op(o)
            obs.append(r.observe())
        # what the next boot would load (real DataManager._load path: FileManager.load(halt_on_error=False))
        boot = None
        if os.path.isfile(r.fname):
            try:
                boot = canon(r.FileManager.load(r.fname, halt_on_error=False))
            except Exception as e:
                boot = "EXC:" + type(e).__name__
        return {"obs": obs, "boot": boot, "versions": {str(k): v for k, v in r.versions.items()},
                "thread_exc": r.ctl.exc}
    finally:
        r.close()


def coq_op(o):
    if o[0] == "S":
        return "(Save %s)" % o[1:]
    return {"H": "Shutdown", "C": "Crash", "E": "IoError", "T": "Tick"}[o]


def coq_writer(case, out):
    inp = "(%s, %s, %s, %s)" % (CFG, blit(case.get("init_file")), zlit(case.get("init_temp", 0)),
                                coqlist(coq_op(o) for o in case["ops"]))
    return "(%s, %s)" % (inp, coqlist(zlist(o) for o in out["obs"]))


def writer_facts(case, out):
    """positions in the schedule, derived from the observed trace only"""
    ops = case["ops"]
    obs = out["obs"]
    crashed_at = next((i for i, o in enumerate(ops) if o == "C"), None)
    live = ops if crashed_at is None else ops[:crashed_at]
    saves = [(i, int(o[1:])) for i, o in enumerate(live) if o[0] == "S"]
    # an IoError op only is a fault when the thread stood at an I/O point when it was delivered
    faults = [i for i, o in enumerate(live) if o == "E" and obs[i][0] in (7, 8, 9, 10)]
    shut = next((i for i, o in enumerate(live) if o == "H"), None)
    return crashed_at, saves, faults, shut


def oracle_writer(case, out):
    fails = []
    ops = case["ops"]
    obs = out["obs"]
    saved = set()
    if case.get("init_file"):
        saved.add(100)
    # 1. never torn: at every instant the file is absent (only if it was absent at the start) or a complete version
    #    that had been handed to save_all before that instant (or the initial file)
    for i, ob in enumerate(obs):
        if i > 0 and ops[i - 1][0] == "S" and not (99 == obs[i][0]):
            saved.add(int(ops[i - 1][1:]))
        f = ob[4]
        if f == 0:
            if case.get("init_file") or any(o[4] != 0 for o in obs[:i]):
                fails.append({"sig": "file-vanished", "what": "data file missing after it existed (op %d)" % i})
                break
        elif f not in saved:
            fails.append({"sig": "torn-file", "what": "after op %d the data file is not a complete saved version "
                                                      "(code %d)" % (i, f)})
            break
    crashed_at, saves, faults, shut = writer_facts(case, out)
    last = obs[-1]
    # what the next boot loads must be that complete version, type-exact (YAML round trip)
    if last[4] > 0 and out["boot"] != out["versions"].get(str(last[4])):
        fails.append({"sig": "boot-load-differs", "what": "next boot does not load the version on disk"})
    if out.get("thread_exc") and not faults:
        fails.append({"sig": "thread-died", "what": "writer thread died with %s without an injected fault" % out["thread_exc"]})
    if crashed_at is not None or not saves:
        return fails
    drained = len(ops) >= DRAIN and all(o == "T" for o in ops[-DRAIN:])
    if not drained:
        return fails
    j, v = saves[-1]
    if shut is not None and j > shut:
        return fails            # data handed over after the shutdown request: outside "clean shutdown"
    if faults and faults[-1] > j:
        return fails            # the write of the last version itself was hit by the injected fault
    settled = last[0] == 12 or (last[0] in (2, 3) and last[1] == 0)
    if last[4] != v:
        if faults:
            fails.append({"sig": "lost-save-after-failed-write",
                          "what": "version %d saved after the last failed write never reached the disk "
                                  "(thread at pc %d, is_busy=%d)" % (v, last[0], last[2])})
        elif shut is not None:
            fails.append({"sig": "lost-save-at-shutdown",
                          "what": "clean shutdown, no faults: last saved version %d is not on disk (file=%d)" % (v, last[4])})
        else:
            fails.append({"sig": "lost-save", "what": "no faults: version %d not on disk after %d ticks" % (v, DRAIN)})
    elif not settled:
        fails.append({"sig": "writer-stuck", "what": "writer neither idle nor finished after the drain (pc %d)" % last[0]})
    return fails


def shrink_writer(case):
    ops = case["ops"]
    body = ops
    tail = []
    if len(ops) >= DRAIN and all(o == "T" for o in ops[-DRAIN:]):
        body, tail = ops[:-DRAIN], ops[-DRAIN:]
    for i in range(len(body)):
        yield dict(case, ops=body[:i] + body[i + 1:] + tail)
    if case.get("init_file"):
        yield dict(case, init_file=False)
    if case.get("init_temp"):
        yield dict(case, init_temp=0)


def nontrivial_writer(case, out):
    obs = out["obs"]
    ops = case["ops"]
    wrote = any(o[0] in (8, 9, 10) for o in obs)
    mid = any(ops[i][0] in "SHCE" and obs[i][0] in (1, 5, 6, 7, 8, 9, 10) and i > 0 for i in range(len(ops)))
    return wrote and mid


def describe_writer(case):
    ops = case["ops"]
    return "saves=%d%s%s%s" % (min(sum(1 for o in ops if o[0] == "S"), 5), " shut" if "H" in ops else "",
                               " crash" if "C" in ops else "", " err" if "E" in ops else "")


# ------------------------------------------------------------------------------------------------
# suite "vars": machine-variable persistence through a real file and a simulated reboot
VNAMES = {1: "credit_units", 2: "player1_score", 3: "x y", 4: "v\u00e4r_4"}
T0 = 1700000000


class TsClock:
    def __init__(self, t):
        self.t = t

    def get_datetime(self):
        return self

    def timestamp(self):
        return float(self.t)


def gen_vars(rng, tier, i):
    ops = []
    n = rng.randint(3, 14)
    while len(ops) < n:
        r = rng.random()
        name = rng.choice([1, 1, 2, 2, 3, 4])
        if r < 0.45:
            ops.append(["set", name, rng.choice([0, 1, 1, 2, 5, -3, 10 ** 12, rng.randint(-5, 5)]), rng.random() < 0.4])
        elif r < 0.65:
            ops.append(["conf", name, rng.random() < 0.8, rng.choice([0, 0, 10, 100, 3600])])
            if rng.random() < 0.7:      # the usual pattern: configure, then set
                ops.append(["set", name, rng.choice([0, 1, 2, 5, rng.randint(-5, 5)]), False])
        elif r < 0.75:
            ops.append(["remove", name])
        else:
            ops.append(["adv", rng.choice([0, 1, 9, 10, 11, 50, 100, 3600])])
    return {"ops": ops, "dt": rng.choice([0, 1, 9, 10, 11, 89, 90, 99, 100, 101, 3599, 3600, 3601, 5000, 100000])}


class Boot:
    """one 'power cycle': real DataManager (lock-stepped writer thread) + real MachineVariables on a fake machine"""

    def __init__(self, d, now):
        global CUR
        install_shims()
        from mpf.core.file_manager import FileManager
        from mpf.core.data_manager import DataManager
        from mpf.core.machine_vars import MachineVariables
        FileManager.is_busy = False
        self.FileManager = FileManager
        self.ctl = Ctl()
        CUR = self.ctl
        self.machine = FakeMachine(d, "machine_vars", "data/machine_vars.yaml")
        self.machine.clock = TsClock(now)
        self.dm = DataManager(self.machine, "machine_vars", min_wait_secs=1)
        self.ctl.wait_started()
        self.mv = MachineVariables(self.machine)
        self.mv.load_machine_vars(self.dm, float(now))

    def flush_and_stop(self):
        """let the writer thread write what is pending, then shut down cleanly and let it end"""
        for _ in range(20):
            if self.ctl.at in ("wait", "stop?") and not self.dm._dirty._flag:
                break
            self.ctl.resume("tick")
        self.machine.thread_stopper.set()
        for _ in range(20):
            if self.ctl.at == "done":
                break
            self.ctl.resume("tick")
        return self.ctl.at == "done"

    def close(self):
        global CUR
        self.ctl.kill()
        CUR = None
        self.FileManager.is_busy = False


def vz(x):
    """int/None/float-with-integer-value -> [has, value]"""
    if x is None:
        return [0, 0]
    if isinstance(x, bool) or not isinstance(x, (int, float)) or x != int(x):
        return [7, 7]            # nothing the model can produce
    return [1, int(x)]


def run_vars(case):
    d = tempfile.mkdtemp(prefix="verif_c15v_")
    os.makedirs(os.path.join(d, "data"))
    b = b2 = None
    try:
        b = Boot(d, T0)
        rows = []
        conf_at = {}
        for o in case["ops"]:
            if o[0] == "set":
                b.mv.set_machine_var(VNAMES[o[1]], o[2], persist=o[3])
            elif o[0] == "conf":
                b.mv.configure_machine_var(VNAMES[o[1]], persist=o[2], expire_secs=o[3] or None)
                conf_at[o[1]] = b.dm._dirty.nset
            elif o[0] == "remove":
                b.mv.remove_machine_var(VNAMES[o[1]])
            else:
                b.machine.clock.t += o[1]
            row = [b.dm._dirty.nset]
            for n in (1, 2, 3, 4):
                e = b.dm.data.get(VNAMES[n]) if isinstance(b.dm.data, dict) else None
                if e is None:
                    row += [0, 0, 0, 0, 0]
                else:
                    row += [1] + vz(e["value"]) + [vz(e["expire"])[1], vz(e["expire_secs"])[1]]
            rows.append(row)
        nowb = b.machine.clock.t + case["dt"]
        old = {}
        for n in (1, 2, 3, 4):
            v = b.mv.machine_vars.get(VNAMES[n])
            if v is not None:
                old[str(n)] = {"value": canon(v["value"]), "persist": bool(v["persist"]),
                               "timeout": v["timeout"], "unwritten_conf": conf_at.get(n) == b.dm._dirty.nset}
        handed = canon(b.dm.data)
        wrote = b.dm._dirty.nset > 0
        ended = b.flush_and_stop()
        fname = os.path.join(d, "data", "machine_vars.yaml")
        ondisk = canon(b.FileManager.load(fname, halt_on_error=False)) if os.path.isfile(fname) else None
        b.close()
        b = None
        b2 = Boot(d, nowb)
        new = {}
        lrow = []
        for n in (1, 2, 3, 4):
            v = b2.mv.machine_vars.get(VNAMES[n])
            if v is None:
                lrow += [0, 0, 0]
            else:
                lrow += [1] + vz(v["value"])
                new[str(n)] = {"value": canon(v["value"]), "persist": bool(v["persist"])}
        return {"rows": rows + [lrow], "old": old, "new": new, "nowb": nowb, "ended": ended,
                "handed": handed, "ondisk": ondisk, "wrote": wrote}
    finally:
        for x in (b, b2):
            if x is not None:
                x.close()
        shutil.rmtree(d, ignore_errors=True)


def coq_vop(o):
    if o[0] == "set":
        return "(VSet %d %s %s)" % (o[1], zlit(o[2]), blit(o[3]))
    if o[0] == "conf":
        return "(VConf %d %s %s)" % (o[1], blit(o[2]), zlit(o[3]))
    if o[0] == "remove":
        return "(VRemove %d)" % o[1]
    return "(VAdv %s)" % zlit(o[1])


def coq_vars(case, out):
    return "((%s, %s), %s)" % (coqlist(coq_vop(o) for o in case["ops"]), zlit(case["dt"]),
                               coqlist(zlist(r) for r in out["rows"]))


def oracle_vars(case, out):
    fails = []
    if not out["ended"]:
        fails.append({"sig": "writer-stuck", "what": "writer thread did not end after a clean shutdown"})
    if out["wrote"] and out["ondisk"] != out["handed"]:
        fails.append({"sig": "vars-file-differs", "what": "after a clean shutdown the machine_vars file differs from "
                                                          "the data last handed to save_all"})
    last_disk = out["rows"][-2] if len(out["rows"]) >= 2 else [0] * 21
    for n, o in out["old"].items():
        if not o["persist"]:
            continue
        expired = bool(o["timeout"]) and o["timeout"] < out["nowb"]
        got = out["new"].get(n)
        gotv = None if got is None else got["value"]
        if expired and got is None:
            continue
        if not expired and (gotv == o["value"] or (got is None and o["value"] == "NoneType:None")):
            continue
        # a failure.  Is it exactly what "configure_machine_var does not write" produces?  Then the stale entry handed
        # to save_all before that configure call decides what reloads.
        k = 1 + 5 * (int(n) - 1)
        present, has, val, exp = last_disk[k], last_disk[k + 1], last_disk[k + 2], last_disk[k + 3]
        stale_loaded = bool(present) and not (exp and exp < out["nowb"])
        stale_val = ("int:%d" % val) if has == 1 else "NoneType:None"
        by_defect = (got is None and not stale_loaded) or (got is not None and stale_loaded and gotv == stale_val)
        if o["unwritten_conf"] and by_defect:
            fails.append({"sig": "persist-configured-not-written",
                          "what": "configure_machine_var changed persist/expiry of a variable and nothing was written "
                                  "afterwards: the next boot goes by the stale entry on disk"})
        elif expired:
            fails.append({"sig": "expired-var-reloaded", "what": "variable %s reloaded after its expiry time" % n})
        else:
            fails.append({"sig": "persist-reload-differs",
                          "what": "persistent variable %s = %s reloads as %s" % (n, o["value"], got)})
    return fails


def shrink_vars(case):
    ops = case["ops"]
    for i in range(len(ops)):
        yield dict(case, ops=ops[:i] + ops[i + 1:])


def nontrivial_vars(case, out):
    ts = [o["timeout"] for o in out["old"].values() if o["persist"] and o["timeout"]]
    return bool(ts) or any(o["persist"] for o in out["old"].values())


def describe_vars(case):
    k = set(o[0] for o in case["ops"])
    return " ".join(sorted(k))


HDR_VARS = "From C15 Require Import Model.\nDefinition run := vars_run.\nDefinition out_eqb := zss_eqb.\n"

# ------------------------------------------------------------------------------------------------
# suite "fsave": FileManager.save called directly with the REAL YamlInterface and the REAL ruamel dumper (nothing of the
# yaml layer is intercepted): faults are injected in the file object's write() and by values ruamel cannot represent,
# followed by good saves, on two files (two data managers share FileManager and the yaml interface).
class Unrepresentable:
    pass


def gen_fsave(rng, tier, i):
    ops = []
    v = 0
    for _ in range(rng.randint(2, 10)):
        v += 1
        r = rng.random()
        f = rng.choice([0, 0, 1])
        if r < 0.5:
            ops.append(["good", f, v])
        elif r < 0.75:
            ops.append(["bad", f, v, rng.choice(["top_first", "top_last", "nested"])])
        else:
            ops.append(["wfault", f, v, rng.choice([1, 1, 2, 3, 5, 9])])
    if ops[-1][0] != "good" or rng.random() < 0.5:
        ops.append(["good", rng.choice([0, 1]), v + 1])
    return {"ops": ops, "pseed": rng.randrange(10 ** 6)}


def run_fsave(case):
    global FS_FAULT, CUR
    install_shims()
    from mpf.core.file_manager import FileManager
    CUR = None
    FileManager.is_busy = False
    if not FileManager.initialized:
        FileManager.init()
    d = tempfile.mkdtemp(prefix="verif_c15f_")
    names = [os.path.join(d, "a.yaml"), os.path.join(d, "b.yaml")]
    temps = [os.path.join(d, "_a.yaml"), os.path.join(d, "_b.yaml")]
    versions = {}

    def classify(path):
        if not os.path.exists(path):
            return None
        if os.path.getsize(path) == 0:
            return ("empty",)
        try:
            c = canon(FileManager.load(path, halt_on_error=True))
        except Exception:
            return ("torn",)
        for vv, t in versions.items():
            if t == c:
                return ("ver", vv)
        return ("torn",)

    def codes():
        out = []
        for fn, tn in zip(names, temps):
            f = classify(fn)
            t = classify(tn)
            out.append(0 if f is None else f[1] if f[0] == "ver" else -1 if f[0] == "torn" else -2)
            out += [0, 0] if t is None else [1, 0] if t[0] == "empty" else [3, t[1]] if t[0] == "ver" else [2, 0]
        return out
    rows, infos = [], []
    try:
        for o in case["ops"]:
            p = payload(case["pseed"], o[2])
            info = {"fired": False}
            if o[0] == "good":
                versions[o[2]] = canon(p)
            elif o[0] == "bad":
                if o[3] == "top_first":
                    p = dict([("!bad", Unrepresentable())] + list(p.items()))
                elif o[3] == "top_last":
                    p["zzz_bad"] = Unrepresentable()
                else:
                    p["nest"] = [1, {"deep": [Unrepresentable()]}]
            else:
                versions[o[2]] = canon(p)
                FS_FAULT = info
                info["k"] = o[3]
            exc = None
            try:
                FileManager.save(names[o[1]], p)
            except Exception as e:       # noqa
                exc = type(e).__name__ + ": " + str(e)[:80]
            FS_FAULT = None
            code = 0 if exc is None else 1 if exc.startswith("RepresenterError") else 2 if exc.startswith("OSError") else 9
            rows.append([int(exc is None), code, int(bool(FileManager.is_busy))] + codes())
            infos.append({"exc": exc, "fired": info.get("fired", False)})
        return {"rows": rows, "infos": infos}
    finally:
        FS_FAULT = None
        FileManager.is_busy = False
        shutil.rmtree(d, ignore_errors=True)


def coq_fsave(case, out):
    terms = []
    for o, row, info in zip(case["ops"], out["rows"], out["infos"]):
        tstate = row[4 + 3 * o[1]]      # row = [ok, exc, busy, f0, t0state, t0ver, f1, t1state, t1ver]
        if o[0] == "good" or (o[0] == "wfault" and not info["fired"]):
            terms.append("(FGood %d %d)" % (o[1], o[2]))
        else:
            # where the dump stopped (temp left empty or partial) is ruamel's business: taken from the observation;
            # anything else (e.g. a complete temp file) is mapped to "partial" and shows up as a disagreement
            terms.append("(FFail %d %d %d %d)" % (o[1], o[2], 1 if o[0] == "bad" else 2, 1 if tstate == 1 else 2))
    return "((%s, %s), %s)" % (CFG, coqlist(terms), coqlist(zlist(r) for r in out["rows"]))


def oracle_fsave(case, out):
    fails = []
    saved = set()
    failed_before = False
    for idx, (o, row, info) in enumerate(zip(case["ops"], out["rows"], out["infos"])):
        good = o[0] == "good" or (o[0] == "wfault" and not info["fired"])
        if good:
            saved.add(o[2])
        for col in (3, 6):
            if row[col] != 0 and row[col] not in saved:
                fails.append({"sig": "torn-file", "what": "op %d: a data file is not a complete saved version" % idx})
                return fails
        if row[2]:
            fails.append({"sig": "busy-stuck", "what": "op %d: FileManager.is_busy left True" % idx})
            return fails
        if good and (not row[0] or row[3 + 3 * o[1]] != o[2]):
            if failed_before:
                fails.append({"sig": "later-save-fails-after-failed-save",
                              "what": "op %d: a good save after an earlier failed save is not on disk (%s)" %
                                      (idx, info["exc"])})
            else:
                fails.append({"sig": "good-save-failed", "what": "op %d: save failed: %s" % (idx, info["exc"])})
            return fails
        if not good:
            failed_before = True
            if row[0]:
                fails.append({"sig": "fault-swallowed", "what": "op %d: the save did not raise" % idx})
                return fails
    return fails


def shrink_fsave(case):
    ops = case["ops"]
    for i in range(len(ops)):
        yield dict(case, ops=ops[:i] + ops[i + 1:])


def nontrivial_fsave(case, out):
    seen_fail = False
    for o, info in zip(case["ops"], out["infos"]):
        if o[0] == "bad" or (o[0] == "wfault" and info["fired"]):
            seen_fail = True
        elif seen_fail:
            return True
    return False


def describe_fsave(case):
    return " ".join(sorted(set(o[0] for o in case["ops"])))


HDR_FSAVE = "From C15 Require Import Model.\nDefinition run := fsave_run.\nDefinition out_eqb := zss_eqb.\n"

HDR_WRITER = "From C15 Require Import Model.\nDefinition run := writer_run.\nDefinition out_eqb := zss_eqb.\n"

SUITES = [
    Suite("writer", gen_writer, run_writer, HDR_WRITER, coq_writer, oracle_writer, shrink_writer, nontrivial_writer,
          {"quick": 1600, "thorough": 40000}, describe=describe_writer, shard=200),
    Suite("vars", gen_vars, run_vars, HDR_VARS, coq_vars, oracle_vars, shrink_vars, nontrivial_vars,
          {"quick": 600, "thorough": 15000}, describe=describe_vars, shard=200),
    Suite("fsave", gen_fsave, run_fsave, HDR_FSAVE, coq_fsave, oracle_fsave, shrink_fsave, nontrivial_fsave,
          {"quick": 500, "thorough": 10000}, describe=describe_fsave, shard=250),
]

LEVEL_TEXT = ("Machine-checked proof (Coq) over a program-counter model of DataManager._writing_thread + FileManager.save + the "
              "two files on disk, for ALL schedules of saves, shutdown, crashes and I/O errors: the data file is always a "
              "complete version that was saved earlier (os.replace is its only writer; a crash freezes the disk as it is); "
              "with the final-flush fix a clean shutdown leaves the last saved version on disk; with the try/finally fix a "
              "failed write never blocks later saves (a new save lands within 24 thread steps from any reachable state). "
              "Both fixes are needed: the same statements are refuted (vm_compute witnesses, reproduced on the unpatched "
              "code) for the code before the patches. Machine variables: reload restores exactly the unexpired entries; "
              "persisted variables reload equal whenever the file is in sync, which every op except configure_machine_var "
              "maintains (known finding). The model is tied to the working tree by lock-stepping the real writer thread.")
LEVEL_NOTE = ("Trusted: Coq kernel + vm_compute; no axioms. Hand-written model; correspondence validates flags, pc and directory "
              "contents after every op of generated schedules against the real thread (run under shims for time.sleep, "
              "threading.Event, copy.deepcopy, open, os.replace). Partial: process-crash model only (no fsync/power-loss "
              "ordering); one data manager (the unlocked is_busy test-and-set between several managers is not modelled); "
              "MachineController.shutdown does not join the writer thread - 'clean shutdown' here means the thread is "
              "allowed to finish; YAML codec not modelled (round trip of every payload checked by the oracle).")
TECHNIQUE = "Coq proof over hand-written executable model + differential correspondence (vm_compute) with a lock-stepped real writer thread + direct disk oracle"
DESIGN_REF = "DESIGN.md section 3, C15"
