"""C15 — Persistent data is durable, never torn, and survives write failures.

Suite "writer": the REAL DataManager._writing_thread / FileManager.save / YamlInterface.save run in a real thread
that is lock-stepped with the harness: every call the thread makes to time.sleep, Event.is_set/wait/clear,
copy.deepcopy, open(temp,'w') (+ two chunked writes), os.replace is a hand-over point.  The schedule (list of ops
Save v | Shutdown | Crash | IoError | Tick) decides what happens between two hand-over points.  Real files in a
scratch directory; after every op the directory is inspected (file parsed with the real FileManager.load).

Suite "stop": the REAL MachineController._do_stop / shutdown / _platform_stop (run on a stub machine) with a REAL
EventManager: handlers of the `shutdown` event (and of events they post) call save_all and let the writer thread run;
then thread_stopper is set, devices/platforms stop, the thread is drained.

Suite "vars": real MachineVariables on a fake machine + real DataManager/YAML file; set/configure/remove/advance
clock, then "reboot" (fresh DataManager + MachineVariables on the same file) at a generated time.
"""
import os
import random
import shutil
import tempfile
import threading

from vlib import Suite, zlit, zlist, coqlist, blit

ID = "C15"
READY = True
RULE = ("writer: schedules of 4-40 ops over {Save v, Shutdown, Crash, IoError, CopyFail, Tick} followed by a drain of Ticks, "
        "from one PRNG, biased so that saves fall into the rate-limit sleep, between clear/deepcopy/open/write/replace, "
        "shutdown falls before/after them, crashes, I/O errors and failed snapshots hit every point; the first 114 cases put "
        "a crash / an I/O error / a failed snapshot at every position of a fixed three-save history (+6 positions beyond its "
        "nominal end); every os-level call of the writer thread that changes the directory (audit hook) is a hand-over "
        "and crash point; optional pre-existing file and left-over temp file; payloads cover the YAML value types. "
        "non-trivial = a save reached the temp-file write and an op hit the thread between clear() and the end of the "
        "rate-limit sleep. "
        "two: two real managers/threads sharing is_busy, 10-120 ops tagged with the thread that moves, both threads walked "
        "into the test-and-set window together; non-trivial = both inside FileManager.save at once or one at the flag "
        "test while the other writes. "
        "stop: 0-3 saves with the writer walked to any point of its loop (mid-write, rate-limit pause, idle), then the real "
        "_do_stop: 1-3 handlers of the shutdown event with distinct priorities, each a script of writer ticks / save_all / "
        "post of a further event whose handler saves; writer ticks while 'Shutting down' is logged, during stop_devices and "
        "platform.stop; drain; non-trivial = a handler saved while the writer was writing / pausing, or data was pending "
        "when thread_stopper was set. "
        "snap: live dict of 2-6 cells, main thread assigns cells at a pre-emption point inside the real deepcopy; "
        "non-trivial = assignments on both sides of the copy position. "
        "fsave: 2-11 direct FileManager.save calls on two files through the real ruamel dumper: good / unrepresentable "
        "value / OSError in the k-th write(); non-trivial = a good save follows a failed one. "
        "vars: 3-14 ops set/configure/remove/advance on real MachineVariables with values of every YAML kind (falsy ones, "
        "equal values of different types, same value set again before its deadline), reboot at a time on either side of / "
        "exactly at a deadline the history produced, optionally from a missing/empty/corrupt/non-UTF-8/list/scalar file "
        "or one with a malformed entry; 30 % of the cases end with remove_machine_var of a (mostly persisted) variable as the "
        "LAST change of the persisted subset before power off (optionally followed by clock advance / changes of "
        "non-persisted variables); non-trivial = a persisted variable exists at the reboot")
TRUSTED_BASE = [
    "Coq 8.16.1 kernel (coqc), vm_compute for refutation witnesses and for evaluating the model in the correspondence run",
    "axioms: none (every Print Assumptions is 'Closed under the global context')",
    "hand-written models coq/C15/Model.v (pc machine of _writing_thread + FileManager.save + disk; machine variables), "
    "Two.v (two such threads sharing is_busy/stopper), Copy.v (cell-wise deepcopy) tied to the working tree by "
    "lock-stepping the real threads (harness/props/c15.py) and comparing flags and directory contents after every op; "
    "Stop.v (ordering of _do_stop as a schedule of that machine) tied by running the real MachineController._do_stop / "
    "shutdown / _platform_stop as functions of a stub machine object (real EventManager, real DataManager + lock-stepped "
    "writer thread; stub log / device_manager / platform / fresh asyncio loop) and comparing the realised run with "
    "stop_run; Vars2.v (removal) uses the vars model; "
    "Crash.v (os-call sequences, power loss) is model-only except that the observed call sequence of the real save is "
    "what its save_calls lists",
    "the lock-step shims (time.sleep, threading.Event, copy.deepcopy, _thread.start_new_thread as seen by "
    "mpf.core.data_manager; open() as seen by mpf.file_interfaces.yaml_interface, which buffers ruamel's writes and emits "
    "them in two chunks, first hand-over inside the real dump()); a sys audit hook that turns every os.rename/replace/"
    "remove/link/truncate/mkdir/rmdir/shutil.move/write-open of a writer thread into a hand-over point; the CopyHook "
    "value (a pre-emption point inside the real deepcopy at which the 'main thread' inserts a key or assigns values); "
    "suite fsave uses the real yaml layer with a pass-through file object",
    "the oracle's definition of a variable's expiry time: expire_secs after the last set/configure of that variable, "
    "computed from the history (spec_deadlines)",
    "CPython file I/O, dict iteration semantics, os.replace atomicity (POSIX rename), ruamel.yaml dump/load (round trip "
    "checked by the oracle)",
]
ASSUMPTIONS = [
    "process-crash model: what a crash leaves behind is what had been written+flushed at the last hand-over point. "
    "Power loss is modelled only (Crash.v): with ordered write-back the durable file is never torn, with unordered "
    "write-back it can be empty - the code does not fsync; not tied to the code",
    "two managers stand for several: the theorems are about two threads, the flag logic is symmetric",
    "liveness under interference needs fairness: stated for rounds in which the threads take turns",
    "clean shutdown = MachineController._do_stop has returned (shutdown event processed, thread_stopper set) and the "
    "writer threads are allowed to run to their end (MachineController.shutdown does not join them; see NOTES.md); "
    "stop_terminates: they end within 24 steps",
    "suite stop: the handlers of the shutdown event are scripts (ticks of the writer thread / save_all / post); the rest of "
    "MachineController (devices, platforms, BCP, the asyncio loop's tasks) is stubbed - only the ORDER of shutdown event, "
    "thread_stopper.set() and the later stop calls is taken from the real code",
    "a change of the live dict that makes a snapshot fail AFTER the shutdown request (the flush after the loop copies "
    "outside a try) is outside 'clean shutdown', like a save_all after the request",
    "statement granularity: a thread is only pre-empted at calls the harness can intercept; is_busy reads/writes "
    "are merged with the adjacent intercepted call; one pre-emption point inside deepcopy",
    "machine-variable values are tokens for ==-classes of Python values; the YAML round trip of the values is checked on "
    "the code, not modelled",
]

VARIANT = os.environ.get("C15_VARIANT", "fixed")     # "orig": compare with the model of the unpatched code (development aid)
CFG = {"fixed": "(true, true, true)", "orig": "(false, false, false)", "flush": "(true, false, true)",
       "busy": "(false, true, true)", "nocopyfix": "(true, true, false)"}[VARIANT]

DRAIN = 26
IO_POINTS = ("open", "w1", "w2", "replace")
PC_CODE = {"sleep1": 1, "stop?": 2, "wait": 3, "sleep02": 4, "clear": 5, "copy": 6, "open": 7, "w1": 8, "w2": 9,
           "replace": 10, "dirty?": 11, "done": 12}

# ------------------------------------------------------------------------------------------------
# lock-step machinery
CTLS = {}           # thread ident -> controller of that writer thread (threads of the case running in this worker)
NEXT_CTL = []       # controllers waiting for their thread: bound, in order, by _start_new_thread
PC_FSOP = 20        # an os-level call of the writer thread that changes the directory and is not one the model knows


def cur():
    return CTLS.get(threading.get_ident())


class Ctl:
    def __init__(self, fname=None, tname=None):
        self.go = threading.Semaphore(0)
        self.ready = threading.Semaphore(0)
        self.at = None
        self.cmd = None
        self.wid = None
        self.exc = None
        self.thread = None
        self.fname = fname          # the data file / temp file of this manager (labels of the os-level calls)
        self.tname = tname
        self.quiet = 0              # >0: the harness itself is doing I/O on this thread (ChunkedFile)
        self.calls = []             # observed sequence of os-level calls that change the directory

    def kill(self):
        """abandon the writer thread where it stands (it unwinds with SystemExit) and wait until it is gone, so that
        its finally-blocks cannot touch FileManager.is_busy during the next case"""
        if self.at != "done":
            self.cmd = "kill"
            self.go.release()
        if self.thread is not None:
            self.thread.join(10)

    def hand_over(self, label):
        """called by the writer thread at every intercepted call"""
        self.at = label
        self.ready.release()
        self.go.acquire()
        if self.cmd == "kill":
            raise SystemExit
        if self.cmd == "fault" and label in IO_POINTS:
            raise OSError(5, "injected I/O error at " + label)

    def resume(self, cmd):
        """called by the harness: let the writer run to its next hand-over point"""
        if self.at == "done":
            return
        self.cmd = cmd
        self.go.release()
        if not self.ready.acquire(timeout=20):
            raise RuntimeError("writer thread did not reach a hand-over point (at %s)" % self.at)

    def wait_started(self):
        if not self.ready.acquire(timeout=20):
            raise RuntimeError("writer thread did not start")


_WRITE_FLAGS = os.O_WRONLY | os.O_RDWR | os.O_CREAT | os.O_TRUNC | os.O_APPEND
_FS_EVENTS = {"os.remove", "os.link", "os.symlink", "os.truncate", "os.rmdir", "os.mkdir", "shutil.move",
              "shutil.copyfile", "shutil.copytree", "shutil.rmtree", "os.chmod", "os.utime"}


def _audit(event, args):
    """sys audit hook: EVERY os-level call of a writer thread that changes the directory is a hand-over point (and so
    a crash point), whichever module makes it.  os.replace/os.rename onto the data file from its temp file is the
    model's 'replace'; anything else is 'fsop' (a call the model does not know)."""
    if not CTLS:
        return
    c = CTLS.get(threading.get_ident())
    if c is None or c.quiet:
        return
    if event == "os.rename":
        src, dst = os.fsdecode(args[0]), os.fsdecode(args[1])
        c.calls.append(["rename", os.path.basename(src), os.path.basename(dst)])
        c.hand_over("replace" if dst == c.fname and src == c.tname else "fsop")
    elif event in _FS_EVENTS:
        c.calls.append([event] + [os.path.basename(os.fsdecode(a)) for a in args[:2] if isinstance(a, (str, bytes))])
        c.hand_over("fsop")
    elif event == "open":
        path, mode, flags = (list(args) + [None, None])[:3]
        if isinstance(flags, int) and flags & _WRITE_FLAGS and isinstance(path, (str, bytes)):
            c.calls.append(["open-w", os.path.basename(os.fsdecode(path))])
            c.hand_over("fsop")


class StepEvent:
    """threading.Event as seen by mpf.core.data_manager (and the fake machine's thread_stopper)"""

    label = "dirty?"

    def __init__(self):
        self._flag = False
        self.nset = 0

    def is_set(self):
        c = cur()
        if c is not None:
            c.hand_over(self.label)
        return self._flag

    def set(self):
        self._flag = True
        self.nset += 1

    def clear(self):
        c = cur()
        if c is not None:
            c.hand_over("clear")
        self._flag = False

    def wait(self, timeout=None):
        c = cur()
        if c is not None:
            c.hand_over("wait")
        return self._flag


class StopEvent(StepEvent):
    label = "stop?"


class _Shim:
    def __init__(self, real, **over):
        self._real = real
        self.__dict__.update(over)

    def __getattr__(self, name):
        return getattr(self._real, name)


def _sleep(secs):
    c = cur()
    if c is not None:
        c.hand_over("sleep1" if secs >= 1 else "sleep02")
        return
    raise RuntimeError("time.sleep outside the writer thread")


def _deepcopy(x, *a, **k):
    import copy
    c = cur()
    if c is not None:
        c.hand_over("copy")
    return copy.deepcopy(x, *a, **k)


class CopyHook:
    """a pre-emption point INSIDE copy.deepcopy(self.data).  The live dict handed to save_all carries one of these as
    its first value (its deep copy is the plain int 0, so what reaches the YAML dumper is plain data).  When the
    schedule says so (op 'M' while the thread stands at the deepcopy), the 'main thread' inserts a key into the live
    dict at this point, as Auditor / credits / high_score do with the dict they share with their data manager:
    CPython's dict iterator then raises RuntimeError('dictionary changed size during iteration') in the real deepcopy."""

    def __init__(self, owner):
        self.owner = owner
        self.grown = 0
        self.assigns = []

    def __deepcopy__(self, memo):
        c = cur()
        if c is not None and c.cmd == "mutate" and c.at == "copy":
            self.grown += 1
            # the name sorts BEFORE every other key: the dumper writes mappings sorted, so the text of an earlier state of
            # the live dict is never a prefix of the text of a later one (a half-written temp file of the grown dict
            # would otherwise parse as a complete earlier state of the same version: soak13 5e08928b0f18)
            self.owner["!grow%d" % self.grown] = self.grown
        if c is not None and c.cmd == "assign" and c.at == "copy":
            for k, v in self.assigns:            # the main thread assigns existing keys (no change of size)
                self.owner[k] = v
        return 0


def _start_new_thread(fn, args=(), kwargs=None):
    c = NEXT_CTL.pop(0)

    def body():
        c.wid = threading.get_ident()
        CTLS[c.wid] = c
        try:
            try:
                fn(*args, **(kwargs or {}))
            except SystemExit:
                return
            except BaseException as e:   # noqa: an exception that escapes _writing_thread ends the thread
                c.exc = type(e).__name__
            c.at = "done"
            c.ready.release()
        finally:
            CTLS.pop(c.wid, None)
    t = threading.Thread(target=body, daemon=True)
    c.thread = t
    t.start()
    return t.ident


class ChunkedFile:
    """what YamlInterface.save gets from open(temp, 'w'): the file is created/truncated at open.  The hand-over "w1"
    happens at ruamel's FIRST write() call, i.e. inside the real dump(): an injected fault there propagates through the
    real dumper (this is what wedged the shared YAML() instance before fixes/C15-yaml-dumper-per-save.patch).  The text
    is collected and emitted as two flushed chunks, with the hand-over "w2" between them."""

    def __init__(self, c, filename, mode, **kw):
        self.c = c
        c.calls.append(["open-w", os.path.basename(filename)])
        c.hand_over("open" if filename == c.tname else "fsop")
        c.quiet += 1
        try:
            self.f = open(filename, mode, **kw)
        finally:
            c.quiet -= 1
        self.buf = []
        self.started = False

    def write(self, s):
        if not self.started:
            self.started = True
            self.c.hand_over("w1")
        self.buf.append(s)
        return len(s)

    def flush(self):
        pass

    def __getattr__(self, name):        # encoding, name, mode, ...: those of the real file object
        return getattr(self.f, name)

    def __enter__(self):
        return self

    def __exit__(self, et, ev, tb):
        try:
            if et is None:
                data = "".join(self.buf)
                k = len(data) // 2
                # never cut at a line boundary: a YAML document cut there is a complete (smaller) document.  One
                # character into the next line it is not ("x" without ':' after a mapping does not parse)
                while 0 < k < len(data) - 1 and (data[k - 1] == "\n" or data[k] == "\n"):
                    k += 1
                if not self.started:
                    self.c.hand_over("w1")
                self.f.write(data[:k])
                self.f.flush()
                self.c.hand_over("w2")
                self.f.write(data[k:])
                self.f.flush()
        finally:
            self.f.close()
        return False


class FaultyFile:
    """suite fsave: the real file object, unbuffered pass-through, whose k-th write() raises OSError"""

    def __init__(self, real, k, info):
        self.f = real
        self.k = k
        self.n = 0
        self.info = info

    def write(self, s):
        self.n += 1
        if self.n == self.k:
            self.info["fired"] = True
            self.info["before"] = self.n - 1
            raise OSError(28, "No space left on device (injected)")
        r = self.f.write(s)
        self.f.flush()
        return r

    def __getattr__(self, name):
        return getattr(self.f, name)

    def __enter__(self):
        return self

    def __exit__(self, et, ev, tb):
        self.f.close()
        return False


FS_FAULT = None      # suite fsave: {"k": n} -> the next open(..., 'w') by the yaml interface returns a FaultyFile


def _open(filename, mode="r", *a, **kw):
    c = cur()
    if c is not None and "w" in mode:
        return ChunkedFile(c, filename, mode, *a, **kw)
    global FS_FAULT
    if c is None and FS_FAULT is not None and "w" in mode:
        info, FS_FAULT = FS_FAULT, None
        return FaultyFile(open(filename, mode, *a, **kw), info["k"], info)
    return open(filename, mode, *a, **kw)


_patched = False


def install_shims():
    global _patched
    if _patched:
        return
    import copy
    import time
    import _thread
    import logging
    import mpf.core.data_manager as dmm
    import mpf.core.file_manager as fmm
    import mpf.file_interfaces.yaml_interface as yim
    dmm.time = _Shim(time, sleep=_sleep)
    dmm.threading = _Shim(threading, Event=StepEvent)
    dmm.copy = _Shim(copy, deepcopy=_deepcopy)
    dmm._thread = _Shim(_thread, start_new_thread=_start_new_thread)
    yim.open = _open
    import sys
    sys.addaudithook(_audit)
    logging.disable(logging.CRITICAL)
    _patched = True


class FakeClock:
    def __init__(self, t):
        self.t = t

    def get_datetime(self):
        import datetime
        return datetime.datetime.fromtimestamp(self.t)


class FakeEvents:
    def post(self, *a, **k):
        pass


class FakeMachine:
    def __init__(self, path, name, fname):
        self.machine_path = path
        self.options = {"production": False}
        self.config = {"mpf": {"paths": {name: fname} if name else {}, "save_machine_vars_to_disk": True},
                       "logging": {"console": {"data_manager": "none", "machine_vars": "none"},
                                   "file": {"data_manager": "none", "machine_vars": "none"}}}
        self.thread_stopper = StopEvent()
        self.clock = FakeClock(1700000000)
        self.events = FakeEvents()
        self.monitors = {}


# ------------------------------------------------------------------------------------------------
# payloads: version id -> dict covering the value types YAML can represent
SCALARS = [0, 1, -1, 42, 2 ** 40, -2 ** 63, 10 ** 25, 0.5, -2.25, 1e20, 1e-7, 0.1, 123456789.125, True, False, None,
           "", "a", "hello world", "123", "1.5", "yes", "no", "null", "~", "true", "True", "off", "0x10", "1e3", "1_000",
           " lead", "trail ", "multi\nline\n", "tab\there", "col: on", "- dash", "#hash", "quote\"s'", "é€中😀",
           "{brace}", "[br]", "a,b", "%pct", "@at", "`tick", "!bang", "&amp", "*star", "|pipe", ">gt", "? q", "\\back",
           "2001-01-01", "12:30:45", "=", "<<", "x" * 300]
KEYS = ["a", "b", "credits", "score", "player1_score", "x y", "1", "yes", "null", "é", "k:", "value", "expire", 7, 0, -3]


def rvalue(rng, depth=0):
    r = rng.random()
    if depth > 2 or r < 0.6:
        return rng.choice(SCALARS)
    if r < 0.8:
        return [rvalue(rng, depth + 1) for _ in range(rng.randint(0, 3))]
    return {rng.choice(KEYS): rvalue(rng, depth + 1) for _ in range(rng.randint(0, 3))}


def payload(pseed, v, hook=False):
    rng = random.Random(pseed * 7919 + v)
    d = {}
    if hook:
        d["!hook"] = CopyHook(d)        # first value: the pre-emption point inside deepcopy (its copy is the int 0)
    d["v"] = v
    for _ in range(rng.choice([0, 1, 2, 3, 5])):
        d[rng.choice(KEYS)] = rvalue(rng)
    return d


def canon(x):
    """type-exact canonical text (1 != 1.0 != True, dict order irrelevant)"""
    if isinstance(x, dict):
        return "{" + ",".join(sorted(canon(k) + ":" + canon(v) for k, v in x.items())) + "}"
    if isinstance(x, list):
        return "[" + ",".join(canon(v) for v in x) + "]"
    if isinstance(x, CopyHook):
        x = 0
    return type(x).__name__ + ":" + repr(x)


# ------------------------------------------------------------------------------------------------
# suite "writer"
HIST3 = ["T", "T", "S1"] + ["T"] * 9 + ["S2"] + ["T"] * 4 + ["S3"] + ["T"] * 14     # three saves, the third lands mid-write


NEXH = 3 * (len(HIST3) + 6)


def gen_writer(rng, tier, i):
    if i < NEXH:
        # exhaustive: a crash / an I/O error / a failed snapshot at every point of a fixed three-save history (and 6
        # positions beyond its nominal end: a changed save procedure that makes more os-level calls has more
        # hand-over points, every one of them is a crash point)
        k = i // 3
        ops = HIST3[:k] + ["CEM"[i % 3]] + HIST3[k:] + ["T"] * DRAIN
        return {"ops": ops, "pseed": rng.randrange(10 ** 6), "init_file": i % 2 == 0, "init_temp": 0}
    n = rng.choice([4, 6, 8, 10, 12, 16, 20, 28, 40])
    style = rng.random()
    ops = []
    nv = 0
    shut = False
    w = {"T": 60, "S": 18, "H": 5, "C": 4, "E": 6, "M": 4}
    if style < 0.25:          # error-heavy
        w = {"T": 55, "S": 18, "H": 3, "C": 2, "E": 16, "M": 10}
    elif style < 0.45:        # crash-heavy
        w = {"T": 60, "S": 18, "H": 3, "C": 12, "E": 4, "M": 2}
    elif style < 0.65:        # shutdown-heavy, fault free
        w = {"T": 55, "S": 25, "H": 14, "C": 0, "E": 0, "M": 0}
    kinds = list(w)
    weights = [w[k] for k in kinds]
    if rng.random() < 0.5:
        ops += ["T"] * rng.choice([1, 2, 3])          # get past the start-up sleep
    for _ in range(n):
        k = rng.choices(kinds, weights)[0]
        if k == "S":
            nv += 1
            ops.append("S%d" % nv)
            if rng.random() < 0.5:
                ops += ["T"] * rng.choice([1, 2, 3, 4, 5, 6, 7, 8, 9, 10])    # walk into the save sequence
        elif k == "H":
            if shut and rng.random() < 0.7:
                ops.append("T")
            else:
                ops.append("H")
                shut = True
        else:
            ops.append(k)
    if rng.random() < 0.85:
        ops += ["T"] * DRAIN
    init_file = rng.random() < 0.3
    init_temp = rng.choice([0, 0, 0, 0, 1, 2, 3])       # left-over temp file: none / empty / partial / complete
    return {"ops": ops, "pseed": rng.randrange(10 ** 6), "init_file": init_file, "init_temp": init_temp}


class Mgr:
    """one REAL DataManager with its lock-stepped REAL writer thread, its file and its versions"""

    def __init__(self, run, key, first_version=0):
        from mpf.core.data_manager import DataManager
        self.run = run
        self.key = key
        self.fname = os.path.join(run.dir, "data", key + ".yaml")
        self.tname = os.path.join(run.dir, "data", "_" + key + ".yaml")
        self.versions = {}          # id -> list of canonical texts (a live dict that grew keeps its id)
        self.live = {}              # id -> the live dict handed to save_all
        self.ctl = Ctl(self.fname, self.tname)
        self.pseed = run.case["pseed"] + (0 if key == "store" else 17)

    def start(self):
        from mpf.core.data_manager import DataManager
        NEXT_CTL.append(self.ctl)
        self.dm = DataManager(self.run.machine, self.key, min_wait_secs=1)
        self.ctl.wait_started()

    def plain_write(self, path, v, how):
        """pre-existing files (written with the real YamlInterface, outside the writer thread)"""
        p = payload(self.pseed, v)
        self.versions[v] = [canon(p)]
        tmp = path + ".gen"
        self.run.FileManager.file_interfaces[".yaml"].save(tmp, p)
        txt = open(tmp, encoding="utf8").read()
        os.unlink(tmp)
        with open(path, "w", encoding="utf8") as f:
            f.write("" if how == 1 else txt[:len(txt) // 2] if how == 2 else txt)

    def classify(self, path):
        """-> None (missing) | ("empty",) | ("ver", id) | ("torn",)"""
        if not os.path.exists(path):
            return None
        if os.path.getsize(path) == 0:
            return ("empty",)
        try:
            d = self.run.FileManager.load(path, halt_on_error=True)
        except Exception:
            return ("torn",)
        c = canon(d)
        for v, ts in self.versions.items():
            if c in ts:
                return ("ver", v)
        return ("torn",)

    def codes(self):
        f = self.classify(self.fname)
        t = self.classify(self.tname)
        fz = 0 if f is None else f[1] if f[0] == "ver" else -1 if f[0] == "torn" else -2
        tz = [0, 0] if t is None else [1, 0] if t[0] == "empty" else [3, t[1]] if t[0] == "ver" else [2, 0]
        return [fz] + tz

    def pc(self):
        return PC_CODE.get(self.ctl.at, PC_FSOP)

    def save(self, v):
        p = payload(self.pseed, v, hook=True)
        self.live[v] = p
        self.versions[v] = [canon(p)]
        self.dm.save_all(p)

    def step(self, cmd):
        self.ctl.resume(cmd)
        if cmd == "mutate":
            for v, p in self.live.items():       # a live dict that grew: its new content is a (later) state of version v
                c = canon(p)
                if c not in self.versions[v]:
                    self.versions[v].append(c)

    def extra_files(self):
        d = os.path.dirname(self.fname)
        return sorted(n for n in os.listdir(d) if self.key in n and
                      os.path.join(d, n) not in (self.fname, self.tname))


class WriterRun:
    def __init__(self, case, keys=("store",)):
        install_shims()
        from mpf.core.file_manager import FileManager
        self.FileManager = FileManager
        FileManager.is_busy = False
        self.case = case
        self.dir = tempfile.mkdtemp(prefix="verif_c15_")
        os.makedirs(os.path.join(self.dir, "data"))
        if not FileManager.initialized:
            FileManager.init()
        del NEXT_CTL[:]
        self.machine = FakeMachine(self.dir, None, None)
        self.machine.config["mpf"]["paths"] = {k: "data/%s.yaml" % k for k in keys}
        self.mgrs = [Mgr(self, k) for k in keys]
        self.crashed = False

    def start(self):
        for m in self.mgrs:
            m.start()

    def flags(self):
        return [int(bool(self.FileManager.is_busy)), int(self.machine.thread_stopper._flag)]

    def close(self):
        try:
            for m in self.mgrs:
                m.ctl.kill()
        finally:
            del NEXT_CTL[:]
            self.FileManager.is_busy = False
            shutil.rmtree(self.dir, ignore_errors=True)


CMD = {"T": "tick", "E": "fault", "M": "mutate"}


def run_writer(case):
    r = WriterRun(case)
    m = r.mgrs[0]
    try:
        if case.get("init_file"):
            m.plain_write(m.fname, 100, 3)
        if case.get("init_temp"):
            m.plain_write(m.tname, 101, case["init_temp"])
        r.start()

        def observe():
            if r.crashed:
                return [99, 0, 0, 0] + m.codes()
            return [m.pc(), int(m.dm._dirty._flag)] + r.flags() + m.codes()
        obs = [observe()]
        for o in case["ops"]:
            if r.crashed:
                pass
            elif o[0] == "S":
                m.save(int(o[1:]))
            elif o == "H":
                r.machine.thread_stopper.set()
            elif o == "C":
                r.crashed = True
            else:
                m.step(CMD[o])
            obs.append(observe())
        # what the next boot would load (real DataManager._load path: FileManager.load(halt_on_error=False))
        boot = None
        if os.path.isfile(m.fname):
            try:
                boot = canon(r.FileManager.load(m.fname, halt_on_error=False))
            except Exception as e:
                boot = "EXC:" + type(e).__name__
        return {"obs": obs, "boot": boot, "versions": {str(k): v for k, v in m.versions.items()},
                "thread_exc": m.ctl.exc, "calls": m.ctl.calls[:60], "extra": m.extra_files()}
    finally:
        r.close()


def coq_op(o):
    if o[0] == "S":
        return "(Save %s)" % o[1:]
    return {"H": "Shutdown", "C": "Crash", "E": "IoError", "T": "Tick", "M": "CopyFail"}[o]


def coq_writer(case, out):
    inp = "(%s, %s, %s, %s)" % (CFG, blit(case.get("init_file")), zlit(case.get("init_temp", 0)),
                                coqlist(coq_op(o) for o in case["ops"]))
    return "(%s, %s)" % (inp, coqlist(zlist(o) for o in out["obs"]))


def writer_facts(case, out):
    """positions in the schedule, derived from the observed trace only"""
    ops = case["ops"]
    obs = out["obs"]
    crashed_at = next((i for i, o in enumerate(ops) if o == "C"), None)
    live = ops if crashed_at is None else ops[:crashed_at]
    saves = [(i, int(o[1:])) for i, o in enumerate(live) if o[0] == "S"]
    # an IoError op only is a fault when the thread stood at an I/O point when it was delivered, a CopyFail op when it
    # stood at the deepcopy
    faults = [i for i, o in enumerate(live) if (o == "E" and obs[i][0] in (7, 8, 9, 10)) or (o == "M" and obs[i][0] == 6)]
    shut = next((i for i, o in enumerate(live) if o == "H"), None)
    return crashed_at, saves, faults, shut


def oracle_writer(case, out):
    fails = []
    ops = case["ops"]
    obs = out["obs"]
    saved = set()
    if case.get("init_file"):
        saved.add(100)
    # 1. never torn: at every instant the file is absent (only if it was absent at the start) or a complete version
    #    that had been handed to save_all before that instant (or the initial file)
    for i, ob in enumerate(obs):
        if i > 0 and ops[i - 1][0] == "S" and not (99 == obs[i][0]):
            saved.add(int(ops[i - 1][1:]))
        f = ob[4]
        if f == 0:
            if case.get("init_file") or any(o[4] != 0 for o in obs[:i]):
                fails.append({"sig": "file-vanished", "what": "data file missing after it existed (op %d)" % i})
                break
        elif f not in saved:
            fails.append({"sig": "torn-file", "what": "after op %d the data file is not a complete saved version "
                                                      "(code %d)" % (i, f)})
            break
    crashed_at, saves, faults, shut = writer_facts(case, out)
    last = obs[-1]
    # what the next boot loads must be that complete version, type-exact (YAML round trip)
    if last[4] > 0 and out["boot"] not in out["versions"].get(str(last[4]), []):
        fails.append({"sig": "boot-load-differs", "what": "next boot does not load the version on disk"})
    if out.get("thread_exc") and not faults:
        fails.append({"sig": "thread-died", "what": "writer thread died with %s without an injected fault" % out["thread_exc"]})
    if crashed_at is not None or not saves:
        return fails
    drained = len(ops) >= DRAIN and all(o == "T" for o in ops[-DRAIN:])
    if not drained:
        return fails
    j, v = saves[-1]
    if shut is not None and j > shut:
        return fails            # data handed over after the shutdown request: outside "clean shutdown"
    after = [f for f in faults if f > j]
    if any(ops[f] == "E" for f in after):
        return fails            # the WRITE of the last version itself was hit by an injected I/O error (not retried)
    if any(shut is not None and f > shut for f in after):
        return fails            # the live dict changed after the shutdown request: outside "clean shutdown"
    settled = last[0] == 12 or (last[0] in (2, 3) and last[1] == 0)
    if last[4] != v:
        if after:
            # only SNAPSHOTS of the last version failed (the main thread changed the live dict during the copy), all
            # before any shutdown request, and nothing was handed over afterwards: the data must still reach the disk -
            # retried by the writer within the rate limit while running, flushed at a clean shutdown
            fails.append({"sig": "failed-snapshot-not-retried",
                          "what": "the snapshot of version %d failed (op %d: live dict changed size during deepcopy), no "
                                  "later save_all%s: the data never reached the disk (file=%d, thread at pc %d, dirty=%d)"
                                  % (v, after[-1], ", clean shutdown at op %d" % shut if shut is not None else "",
                                     last[4], last[0], last[1])})
        elif faults and ops[faults[-1]] == "M":
            fails.append({"sig": "lost-save-after-failed-snapshot",
                          "what": "the live dict changed size while the writer thread copied it (deepcopy raised); "
                                  "version %d saved AFTER that never reached the disk (thread at pc %d, died with %s)"
                                  % (v, last[0], out.get("thread_exc"))})
        elif faults:
            fails.append({"sig": "lost-save-after-failed-write",
                          "what": "version %d saved after the last failed write never reached the disk "
                                  "(thread at pc %d, is_busy=%d)" % (v, last[0], last[2])})
        elif shut is not None:
            fails.append({"sig": "lost-save-at-shutdown",
                          "what": "clean shutdown, no faults: last saved version %d is not on disk (file=%d)" % (v, last[4])})
        else:
            fails.append({"sig": "lost-save", "what": "no faults: version %d not on disk after %d ticks" % (v, DRAIN)})
    elif not settled:
        fails.append({"sig": "writer-stuck", "what": "writer neither idle nor finished after the drain (pc %d)" % last[0]})
    return fails


def shrink_writer(case):
    ops = case["ops"]
    body = ops
    tail = []
    if len(ops) >= DRAIN and all(o == "T" for o in ops[-DRAIN:]):
        body, tail = ops[:-DRAIN], ops[-DRAIN:]
    for i in range(len(body)):
        yield dict(case, ops=body[:i] + body[i + 1:] + tail)
    if case.get("init_file"):
        yield dict(case, init_file=False)
    if case.get("init_temp"):
        yield dict(case, init_temp=0)


def nontrivial_writer(case, out):
    obs = out["obs"]
    ops = case["ops"]
    wrote = any(o[0] in (8, 9, 10) for o in obs)
    mid = any(ops[i][0] in "SHCEM" and obs[i][0] in (1, 5, 6, 7, 8, 9, 10) and i > 0 for i in range(len(ops)))
    return wrote and mid


def describe_writer(case):
    ops = case["ops"]
    return "saves=%d%s%s%s%s" % (min(sum(1 for o in ops if o[0] == "S"), 5), " shut" if "H" in ops else "",
                                 " crash" if "C" in ops else "", " err" if "E" in ops else "",
                                 " copyfail" if "M" in ops else "")


# ------------------------------------------------------------------------------------------------
# suite "two": TWO real DataManagers (two files, two real writer threads) sharing FileManager.is_busy and the machine's
# thread_stopper; the schedule says which thread moves, so the threads are interleaved at every hand-over point, in
# particular between a thread's test of is_busy and its own `is_busy = True` (the unlocked test-and-set).
def gen_two(rng, tier, i):
    ops = []
    nv = {"a": 0, "b": 200}
    style = rng.random()
    w = {"T": 64, "S": 16, "H": 4, "C": 3, "E": 8, "M": 3}
    if style < 0.3:           # fault free: clean shutdown of both
        w = {"T": 66, "S": 20, "H": 10, "C": 0, "E": 0, "M": 0}
    elif style < 0.5:         # error heavy
        w = {"T": 60, "S": 16, "H": 2, "C": 1, "E": 16, "M": 6}
    kinds = list(w)
    weights = [w[k] for k in kinds]
    for t in "ab":
        ops += [t + "T"] * rng.choice([0, 1, 2, 3])
    if rng.random() < 0.5:    # both threads walk into the race window together
        for t in "ab":
            nv[t] += 1
            ops.append("%sS%d" % (t, nv[t]))
        for _ in range(rng.choice([2, 3, 4, 6, 8, 12])):
            ops += ["aT", "bT"] if rng.random() < 0.7 else [rng.choice("ab") + "T"]
    shut = False
    for _ in range(rng.choice([4, 8, 12, 16, 24, 32])):
        k = rng.choices(kinds, weights)[0]
        t = rng.choice("ab")
        if k == "S":
            nv[t] += 1
            ops.append("%sS%d" % (t, nv[t]))
            if rng.random() < 0.5:
                ops += [t + "T"] * rng.choice([1, 2, 3, 4, 5, 6, 8])
        elif k == "H":
            ops.append("H" if not shut else t + "T")
            shut = True
        elif k == "C":
            ops.append("C")
        else:
            ops.append(t + k)
            if k == "T" and rng.random() < 0.3:
                ops += [t + "T"] * rng.choice([1, 2, 3])
    if rng.random() < 0.85:
        ops += ["aT", "bT"] * DRAIN
    return {"ops": ops, "pseed": rng.randrange(10 ** 6), "init_a": rng.random() < 0.25, "init_b": rng.random() < 0.25}


def run_two(case):
    r = WriterRun(case, keys=("store", "other"))
    ma, mb = r.mgrs
    by = {"a": ma, "b": mb}
    try:
        if case.get("init_a"):
            ma.plain_write(ma.fname, 100, 3)
        if case.get("init_b"):
            mb.plain_write(mb.fname, 100, 3)
        r.start()

        def observe():
            if r.crashed:
                return [99, 0, 99, 0, 0, 0] + ma.codes() + mb.codes()
            return [ma.pc(), int(ma.dm._dirty._flag), mb.pc(), int(mb.dm._dirty._flag)] + r.flags() + ma.codes() + mb.codes()
        obs = [observe()]
        for o in case["ops"]:
            if r.crashed:
                pass
            elif o == "H":
                r.machine.thread_stopper.set()
            elif o == "C":
                r.crashed = True
            elif o[1] == "S":
                by[o[0]].save(int(o[2:]))
            else:
                by[o[0]].step(CMD[o[1]])
            obs.append(observe())
        return {"obs": obs, "exc": [ma.ctl.exc, mb.ctl.exc]}
    finally:
        r.close()


def coq_op2(o):
    if o in ("H", "C"):
        return "(OA %s)" % coq_op(o)
    return "(O%s %s)" % (o[0].upper(), coq_op(o[1:]))


def coq_two(case, out):
    inp = "(%s, (%s, %s), %s)" % (CFG, blit(case.get("init_a")), blit(case.get("init_b")),
                                  coqlist(coq_op2(o) for o in case["ops"]))
    return "(%s, %s)" % (inp, coqlist(zlist(o) for o in out["obs"]))


def oracle_two(case, out):
    """per manager: the single-manager predicate on its own projection of the run"""
    fails = []
    ops = case["ops"]
    obs = out["obs"]
    for t, (pcol, fcol) in (("a", (0, 6)), ("b", (2, 9))):
        init = case.get("init_" + t)
        saved = {100} if init else set()
        for i, ob in enumerate(obs):
            if i > 0 and ops[i - 1][:2] == t + "S" and ob[0] != 99:
                saved.add(int(ops[i - 1][2:]))
            f = ob[fcol]
            if f == 0:
                if init or any(o[fcol] != 0 for o in obs[:i]):
                    fails.append({"sig": "file-vanished", "what": "manager %s: data file missing after it existed (op %d)" % (t, i)})
                    break
            elif f not in saved:
                fails.append({"sig": "torn-file", "what": "manager %s: after op %d the data file is not a complete saved "
                                                          "version of that manager (code %d)" % (t, i, f)})
                break
    if "C" in ops:
        return fails
    drained = len(ops) >= 2 * DRAIN and ops[-2 * DRAIN:] == ["aT", "bT"] * DRAIN
    if not drained:
        return fails
    shut = next((i for i, o in enumerate(ops) if o == "H"), None)
    last = obs[-1]
    for t, (pcol, fcol) in (("a", (0, 6)), ("b", (2, 9))):
        saves = [(i, int(o[2:])) for i, o in enumerate(ops) if o[:2] == t + "S"]
        if not saves:
            continue
        j, v = saves[-1]
        if shut is not None and j > shut:
            continue
        # faults of THIS manager after its last save excuse it; faults of the OTHER manager never do
        own = [i for i, o in enumerate(ops) if (o == t + "E" and obs[i][pcol] in (7, 8, 9, 10)) or (o == t + "M" and obs[i][pcol] == 6)]
        other = [i for i, o in enumerate(ops) if o[0] != t and o[1:] in ("E", "M")]
        after = [f for f in own if f > j]
        if any(ops[f][1] == "E" for f in after) or any(shut is not None and f > shut for f in after):
            continue
        if last[fcol] != v:
            if after:
                sig = "failed-snapshot-not-retried"
            elif own and ops[own[-1]][1] == "M":
                sig = "lost-save-after-failed-snapshot"
            elif own:
                sig = "lost-save-after-failed-write"
            elif other:
                sig = "lost-save-other-manager-failed"
            elif shut is not None:
                sig = "lost-save-at-shutdown"
            else:
                sig = "lost-save"
            fails.append({"sig": sig, "what": "manager %s: version %d never reached the disk (pc %d, is_busy=%d, other manager pc %d)"
                                              % (t, v, last[pcol], last[4], last[2 - pcol])})
        elif not (last[pcol] == 12 or (last[pcol] in (1, 2, 3) and last[pcol + 1] == 0)):
            fails.append({"sig": "writer-stuck", "what": "manager %s neither idle nor finished after the drain (pc %d)" % (t, last[pcol])})
    return fails


def shrink_two(case):
    ops = case["ops"]
    body, tail = ops, []
    if len(ops) >= 2 * DRAIN and ops[-2 * DRAIN:] == ["aT", "bT"] * DRAIN:
        body, tail = ops[:-2 * DRAIN], ops[-2 * DRAIN:]
    for i in range(len(body)):
        yield dict(case, ops=body[:i] + body[i + 1:] + tail)
    for k in ("init_a", "init_b"):
        if case.get(k):
            yield dict(case, **{k: False})


def nontrivial_two(case, out):
    # both threads inside FileManager.save at the same time, or one waiting for / passing the flag while the other writes
    return any(o[0] in (7, 8, 9, 10) and o[2] in (4, 5, 6, 7, 8, 9, 10) or
               o[2] in (7, 8, 9, 10) and o[0] in (4, 5, 6) for o in out["obs"])


def describe_two(case):
    ops = case["ops"]
    return "%s%s%s" % ("shut " if "H" in ops else "", "crash " if "C" in ops else "",
                       "err" if any(o[1:] in ("E", "M") for o in ops) else "")


HDR_TWO = "From C15 Require Import Model Two.\nDefinition run := two_run.\nDefinition out_eqb := zss_eqb.\n"

# ------------------------------------------------------------------------------------------------
# suite "stop": the shutdown path.  The REAL MachineController._do_stop / shutdown / _platform_stop run (as functions of
# a stub machine object) with a REAL EventManager: `shutdown` is posted and processed - its handlers hand data to the
# data manager (Auditor with `save_events: shutdown`, custom code storing state at power off) and take time, during
# which the lock-stepped writer thread runs -, then thread_stopper is set, devices and platforms are stopped (the writer
# runs on), the thread is drained.  Spec of the ordering (Stop.stop_ops): every save issued before _do_stop returns
# comes BEFORE the shutdown request the writer sees.
class RecStopEvent(StopEvent):
    on_set = None

    def set(self):
        StopEvent.set(self)
        if self.on_set:
            self.on_set()


def gen_stop(rng, tier, i):
    pre = ["T"] * rng.choice([0, 1, 2, 3])
    nv = 0
    for _ in range(rng.choice([0, 1, 1, 2, 3])):
        nv += 1
        pre.append("S%d" % nv)
        # walk the writer to any point of the save sequence / into its rate-limit pause / back to idle
        pre += ["T"] * rng.choice([0, 1, 2, 3, 4, 5, 6, 7, 7, 8, 8, 9, 10, 12])
    prios = rng.sample([1, 2, 5, 10, 50, 100, 1000], rng.choice([1, 1, 2, 3]))
    handlers = []
    second = []
    for pr in prios:
        acts = []
        for _ in range(rng.choice([1, 2, 3, 5])):
            r = rng.random()
            if r < 0.55:
                acts += ["T"] * rng.choice([1, 1, 2, 3, 4, 6])     # I/O of this handler: the writer thread runs
            elif r < 0.9:
                nv += 1
                acts.append("S%d" % nv)
            else:
                # the handler posts another event whose handler saves (processed before _do_stop goes on)
                nv += 1
                second.append(["T"] * rng.choice([0, 1, 3]) + ["S%d" % nv])
                acts.append("P%d" % (len(second) - 1))
        handlers.append([pr, acts])
    return {"pre": pre, "p0": rng.choice([0, 0, 1, 2, 4]), "handlers": handlers, "second": second,
            "p2": rng.choice([0, 1, 2, 4, 8]), "p3": rng.choice([0, 1, 3]), "pseed": rng.randrange(10 ** 6),
            "init_file": rng.random() < 0.25}


def stop_expected(case):
    """-> (pre, [action lists in the order the spec gives], post): shutdown handlers by descending priority, events
    posted by them afterwards in posting order, all before the shutdown request; then the ticks of the device /
    platform stop and the drain"""
    hs = []
    posted = []
    for _, acts in sorted(case["handlers"], key=lambda h: -h[0]):
        hs.append([a for a in acts if a[0] != "P"])
        posted += [int(a[1:]) for a in acts if a[0] == "P"]
    hs += [case["second"][k] for k in posted]
    return case["pre"] + ["T"] * case["p0"], hs, ["T"] * (case["p2"] + case["p3"] + DRAIN)


class StopRun(WriterRun):
    def __init__(self, case):
        WriterRun.__init__(self, dict(case, pseed=case["pseed"]))
        import asyncio
        import warnings
        with warnings.catch_warnings():
            warnings.simplefilter("ignore")      # pkg_resources deprecation noise of mpf.core.machine
            from mpf.core.machine import MachineController
        from mpf.core.events import EventManager
        run = self

        class StopMachine(FakeMachine):
            # the real shutdown path of MachineController, run on this stub
            _do_stop = MachineController._do_stop
            shutdown = MachineController.shutdown
            _platform_stop = MachineController._platform_stop
            _stop_tasks = MachineController.__dict__["_stop_tasks"]

        class Log:
            def info(self, msg, *a):
                if str(msg).startswith("Shutting down"):
                    run.ticks(case["p0"])

            debug = warning = error = exception = lambda self, *a, **k: None

        class Devices:
            def stop_devices(self):
                run.ticks(case["p2"])

        class Platform:
            def stop(self):
                run.ticks(case["p3"])

        class Clock:
            pass
        m = StopMachine(self.dir, None, None)
        m.config["mpf"]["paths"] = self.machine.config["mpf"]["paths"]
        for k in ("console", "file"):
            m.config["logging"][k]["event_manager"] = "none"
        m.thread_stopper = RecStopEvent()
        m.thread_stopper.on_set = lambda: run.rec("H")
        self.loop = asyncio.new_event_loop()
        m.clock = Clock()
        m.clock.loop = self.loop
        m.log = Log()
        m.is_shutting_down = False
        m.stop_future = self.loop.create_future()
        m.device_manager = Devices()
        m.hardware_platforms = {"virtual": Platform()}
        m.events = EventManager(m)
        self.machine = m
        self.rops = []
        self.obs = []

    def observe(self):
        m = self.mgrs[0]
        return [m.pc(), int(m.dm._dirty._flag)] + self.flags() + m.codes()

    def rec(self, op):
        self.rops.append(op)
        self.obs.append(self.observe())

    def act(self, a):
        m = self.mgrs[0]
        if a[0] == "S":
            m.save(int(a[1:]))
        elif a[0] == "P":
            self.machine.events.post("c15_second_%s" % a[1:])
            return
        else:
            m.step("tick")
        self.rec(a)

    def ticks(self, n):
        for _ in range(n):
            self.act("T")

    def close(self):
        try:
            WriterRun.close(self)
        finally:
            try:
                if not self.loop.is_closed():
                    self.loop.close()
            except Exception:    # noqa
                pass


def run_stop(case):
    r = StopRun(case)
    m = r.mgrs[0]
    try:
        if case.get("init_file"):
            m.plain_write(m.fname, 100, 3)
        r.start()
        first = r.observe()
        for a in case["pre"]:
            r.act(a)

        def handler_for(acts):
            def handler(**kwargs):
                del kwargs
                for a in acts:
                    r.act(a)
            return handler
        for pr, acts in case["handlers"]:
            r.machine.events.add_handler("shutdown", handler_for(acts), priority=pr)
        for k, acts in enumerate(case["second"]):
            r.machine.events.add_handler("c15_second_%d" % k, handler_for(acts))
        exc = None
        n_before = len(r.rops)
        try:
            r.machine._do_stop()
        except Exception as e:      # noqa: returned as data
            exc = type(e).__name__ + ": " + str(e)[:120]
        n_after = len(r.rops)
        r.ticks(DRAIN)
        boot = None
        if os.path.isfile(m.fname):
            try:
                boot = canon(r.FileManager.load(m.fname, halt_on_error=False))
            except Exception as e:  # noqa
                boot = "EXC:" + type(e).__name__
        return {"obs": [first] + r.obs, "rops": r.rops, "exc": exc, "span": [n_before, n_after], "boot": boot,
                "versions": {str(k): v for k, v in m.versions.items()}, "thread_exc": m.ctl.exc,
                "stopper": int(r.machine.thread_stopper._flag)}
    finally:
        r.close()


def coq_stop(case, out):
    pre, hs, post = stop_expected(case)
    inp = "(%s, %s, %s, %s, %s)" % (CFG, blit(case.get("init_file")), coqlist(coq_op(o) for o in pre),
                                    coqlist(coqlist(coq_op(o) for o in h) for h in hs),
                                    coqlist(coq_op(o) for o in post))
    return "(%s, %s)" % (inp, coqlist(zlist(o) for o in out["obs"]))


def oracle_stop(case, out):
    """on the REALISED sequence (what the code did, in the order it did it), independent of the model"""
    fails = []
    rops, obs = out["rops"], out["obs"]
    saved = {100} if case.get("init_file") else set()
    for i, ob in enumerate(obs):
        if i > 0 and rops[i - 1][0] == "S":
            saved.add(int(rops[i - 1][1:]))
        f = ob[4]
        if f == 0:
            if case.get("init_file") or any(o[4] != 0 for o in obs[:i]):
                fails.append({"sig": "file-vanished", "what": "data file missing after it existed (op %d)" % i})
                break
        elif f not in saved:
            fails.append({"sig": "torn-file", "what": "after op %d the data file is not a complete saved version (code %d)" % (i, f)})
            break
    if out["exc"]:
        fails.append({"sig": "do-stop-raised", "what": "MachineController._do_stop raised " + out["exc"]})
        return fails
    if out.get("thread_exc"):
        fails.append({"sig": "thread-died", "what": "writer thread died with %s during a clean shutdown" % out["thread_exc"]})
    last = obs[-1]
    if not out["stopper"] or last[0] != 12:
        fails.append({"sig": "writer-stuck", "what": "after _do_stop and %d ticks the writer thread has not ended "
                                                     "(pc %d, thread_stopper=%d)" % (DRAIN, last[0], out["stopper"])})
        return fails
    # every save issued before _do_stop returned: the last of them is on disk after the clean shutdown
    lo, hi = out["span"]
    saves = [(i, int(o[1:])) for i, o in enumerate(rops[:hi]) if o[0] == "S"]
    if saves:
        j, v = saves[-1]
        if last[4] != v:
            hs = [i for i, o in enumerate(rops) if o == "H"]
            fails.append({"sig": "lost-save-in-shutdown-handler" if j >= lo else "lost-save-at-shutdown",
                          "what": "version %d, handed to save_all %s (step %d; thread_stopper set at step %s), is not on "
                                  "disk after the clean shutdown (file=%d)"
                                  % (v, "by a handler of the shutdown event" if j >= lo else "before _do_stop", j,
                                     hs[0] if hs else None, last[4])})
        elif out["boot"] not in out["versions"].get(str(v), []):
            fails.append({"sig": "boot-load-differs", "what": "next boot does not load the version on disk"})
    return fails


def shrink_stop(case):
    pre = case["pre"]
    for i in range(len(pre)):
        yield dict(case, pre=pre[:i] + pre[i + 1:])
    hs = case["handlers"]
    for i in range(len(hs)):
        if len(hs) > 1 and not any(a[0] == "P" for a in hs[i][1]):
            yield dict(case, handlers=hs[:i] + hs[i + 1:])
        acts = hs[i][1]
        for k in range(len(acts)):
            if acts[k][0] != "P":
                yield dict(case, handlers=hs[:i] + [[hs[i][0], acts[:k] + acts[k + 1:]]] + hs[i + 1:])
    for key in ("p0", "p2", "p3"):
        if case[key]:
            yield dict(case, **{key: 0})
    if case.get("init_file"):
        yield dict(case, init_file=False)


def nontrivial_stop(case, out):
    lo, hi = out["span"]
    rops, obs = out["rops"], out["obs"]
    # a handler of the shutdown event saved while the writer thread was busy / pausing, or with the write pending at
    # the moment the shutdown request was made
    in_handler = [i for i in range(lo, min(hi, len(rops))) if rops[i][0] == "S"]
    return any(obs[i][0] in (1, 5, 6, 7, 8, 9, 10) for i in in_handler) or \
        any(o == "H" and obs[i][1] == 1 for i, o in enumerate(rops))


def describe_stop(case):
    return "handlers=%d%s" % (len(case["handlers"]), " posted" if case["second"] else "")


HDR_STOP = "From C15 Require Import Model Stop.\nDefinition run := stop_run.\nDefinition out_eqb := zss_eqb.\n"

# ------------------------------------------------------------------------------------------------
# suite "snap": the main thread ASSIGNS values in the live dict (no change of size) while the writer thread's deepcopy
# is part of the way through it.  The CopyHook sits between the cells; everything before it has been copied when the
# 'main thread' runs.  What is written is compared with the model of Copy.v (cell by cell).
def gen_snap(rng, tier, i):
    k = rng.randint(2, 6)
    cells = [rng.choice([1, 1, 2, 3]) for _ in range(k)]
    h = rng.randint(0, k)
    assigns = [[rng.randrange(k), rng.choice([5, 6, 7, 8, 9])] for _ in range(rng.choice([0, 1, 1, 2, 3, 4]))]
    if rng.random() < 0.5:      # the main thread updates cells on both sides of the point the copy has reached
        h = rng.randint(1, k - 1)
        assigns += [[rng.randrange(h), rng.choice([5, 6, 7])], [rng.randrange(h, k), rng.choice([5, 6, 7])]]
        rng.shuffle(assigns)
    return {"cells": cells, "h": h, "assigns": assigns, "pseed": 0, "save_after": rng.random() < 0.8}


def run_snap(case):
    r = WriterRun(case)
    m = r.mgrs[0]
    try:
        r.start()
        k = len(case["cells"])
        live = {}
        hook = CopyHook(live)
        for j, v in enumerate(case["cells"]):
            if j == case["h"]:
                live["!hook"] = hook
            live["c%d" % j] = v
        if case["h"] == k:
            live["!hook"] = hook
        hook.assigns = [("c%d" % a, v) for a, v in case["assigns"]]

        def cells_on_disk():
            if not os.path.isfile(m.fname):
                return None
            d = r.FileManager.load(m.fname, halt_on_error=True)
            return [d.get("c%d" % j) for j in range(k)] if isinstance(d, dict) and len(d) == k + 1 else "bad"
        m.dm.save_all(live)
        for _ in range(12):
            if m.ctl.at == "copy":
                break
            m.ctl.resume("tick")
        at_copy = m.ctl.at == "copy"
        m.ctl.resume("assign")           # the deepcopy runs; at the hook the main thread assigns
        for _ in range(12):
            if m.ctl.at == "sleep1":
                break
            m.ctl.resume("tick")
        first = cells_on_disk()
        if case.get("save_after"):
            m.dm.save_all(live)          # the caller's save_all after its assignments
        for _ in range(DRAIN):
            m.ctl.resume("tick")
        return {"at_copy": at_copy, "first": first, "final": cells_on_disk(),
                "live": [live["c%d" % j] for j in range(k)], "exc": m.ctl.exc}
    finally:
        r.close()


def coq_snap(case, out):
    if not isinstance(out["first"], list) or any(not isinstance(x, int) for x in out["first"]):
        return "((%s, %s, %s), %s)" % (zlist(case["cells"]), zlit(case["h"]),
                                      coqlist("(%s, %s)" % (zlit(a), zlit(v)) for a, v in case["assigns"]),
                                      coqlist([zlist([-999]), zlist(out["live"])]))
    return "((%s, %s, %s), %s)" % (zlist(case["cells"]), zlit(case["h"]),
                                  coqlist("(%s, %s)" % (zlit(a), zlit(v)) for a, v in case["assigns"]),
                                  coqlist([zlist(out["first"]), zlist(out["live"])]))


def snap_states(case):
    st = list(case["cells"])
    states = [list(st)]
    for a, v in case["assigns"]:
        st[a] = v
        states.append(list(st))
    return states


def oracle_snap(case, out):
    fails = []
    if out["exc"] or not out["at_copy"]:
        fails.append({"sig": "thread-died", "what": "writer thread: %s (reached the deepcopy: %s)" % (out["exc"], out["at_copy"])})
        return fails
    states = snap_states(case)
    if case.get("save_after") and out["final"] != states[-1]:
        fails.append({"sig": "lost-save", "what": "save_all after the assignments: the file holds %s, the data is %s"
                                                  % (out["final"], states[-1])})
    if out["first"] not in states:
        # neither the earlier nor the later version.  Exactly the mix an unlocked front-to-back copy produces?
        mix = states[0][:case["h"]] + states[-1][case["h"]:]
        if out["first"] == mix:
            fails.append({"sig": "snapshot-mixes-versions",
                          "what": "the main thread assigned values in the live dict while the writer thread copied it: "
                                  "the file holds %s, a mix of %s and %s that the data never was" % (out["first"], states[0], states[-1])})
        else:
            fails.append({"sig": "torn-snapshot", "what": "the file holds %s; states of the data: %s" % (out["first"], states)})
    return fails


def shrink_snap(case):
    a = case["assigns"]
    for i in range(len(a)):
        yield dict(case, assigns=a[:i] + a[i + 1:])


def nontrivial_snap(case, out):
    return out["first"] not in snap_states(case) or (0 < case["h"] < len(case["cells"]) and len(case["assigns"]) > 0)


HDR_SNAP = "From C15 Require Import Copy.\nDefinition run := snap_run.\nDefinition out_eqb := zss_eqb.\n"

# ------------------------------------------------------------------------------------------------
# suite "vars": machine-variable persistence through a real file and a simulated reboot
VNAMES = {1: "credit_units", 2: "player1_score", 3: "x y", 4: "v\u00e4r_4"}
T0 = 1700000000


class TsClock:
    def __init__(self, t):
        self.t = t

    def get_datetime(self):
        return self

    def timestamp(self):
        return float(self.t)


# values a machine variable can take: every kind YAML can represent, with the falsy ones (0, 0.0, False, '', [], {}) and
# numerically equal values of different types (1, 1.0, True).  "Equal" is Python's ==, which is what set_machine_var's
# change test (value - prev_value, falling back to !=) and the property ("reload with equal values") go by: the model
# sees a value as a token, equal tokens <=> equal values.
PYVALS = [0, 0.0, False, "", [], {}, 1, 1.0, True, 2, 5, -3, 10 ** 12, 0.5, -2.25, "a", "0", "yes", "hello world",
          "multi\nline\n", "\u00e9\u20ac", [0], [1, "a", None], {"a": 0}, {"k": [1, {"z": None, "f": 0.25}]}, "x" * 300, 1e20]


def eqcanon(x):
    """canonical text up to Python equality: 1 == 1.0 == True, dict order irrelevant"""
    from fractions import Fraction
    if isinstance(x, dict):
        return "{" + ",".join(sorted(eqcanon(k) + ":" + eqcanon(v) for k, v in x.items())) + "}"
    if isinstance(x, list):
        return "[" + ",".join(eqcanon(v) for v in x) + "]"
    if isinstance(x, (bool, int, float)) and x == x and x not in (float("inf"), float("-inf")):
        return "n:" + str(Fraction(x))
    return type(x).__name__ + ":" + repr(x)


EXOTIC = []
for _v in PYVALS:
    if not (isinstance(_v, (bool, int, float)) and _v == int(_v)) and eqcanon(_v) not in EXOTIC:
        EXOTIC.append(eqcanon(_v))


def tok(x):
    """value -> model token (None if the model has no token for it)"""
    if isinstance(x, (bool, int, float)) and x == x and abs(x) != float("inf") and x == int(x):
        return int(x)
    c = eqcanon(x)
    return 10 ** 6 + EXOTIC.index(c) if c in EXOTIC else None


def opval(o):
    return PYVALS[o[2]] if o[0] == "setv" else o[2]


def spec_deadlines(ops, now=None):
    """the expiry time of every variable as the documentation defines it, from the history alone: expire_secs after the
    last time the variable was set (or configured).  -> ({name: deadline or None}, now at the end, all deadlines seen)"""
    now = T0 if now is None else now
    st = {}
    seen = []
    for o in ops:
        if o[0] == "adv":
            now += o[1]
        elif o[0] == "conf":
            st[o[1]] = {"secs": o[3] or None, "deadline": now + o[3] if o[3] else None}
        elif o[0] in ("set", "setv"):
            v = st.setdefault(o[1], {"secs": None, "deadline": None})
            if v["secs"]:
                v["deadline"] = now + v["secs"]
        elif o[0] == "remove":
            st.pop(o[1], None)
        seen += [v["deadline"] for v in st.values() if v["deadline"]]
    return {n: v["deadline"] for n, v in st.items()}, now, sorted(set(seen))


TAMPERS = ["missing", "empty", "corrupt", "binary", "list", "scalar", "entry_scalar", "entry_novalue"]


def gen_vars(rng, tier, i):
    ops = []
    n = rng.randint(3, 14)
    lastv = {}

    def setop(name, persist):
        r = rng.random()
        if name in lastv and r < 0.3:
            o = list(lastv[name])               # the same value again
            if o[0] == "setv" and rng.random() < 0.5:
                same = [k for k, v in enumerate(PYVALS) if eqcanon(v) == eqcanon(PYVALS[o[2]])]
                o[2] = rng.choice(same)         # ... or an equal value of another type (1 / 1.0 / True)
            o[3] = persist
        elif r < 0.6:
            o = ["setv", name, rng.randrange(len(PYVALS)), persist]
        else:
            o = ["set", name, rng.choice([0, 1, 1, 2, 5, -3, 10 ** 12, rng.randint(-5, 5)]), persist]
        lastv[name] = o
        return o
    if rng.random() < 0.3:
        # a persisted variable with an expiry that is set again (same or new value) part of the way to its deadline
        name = rng.choice([1, 2])
        e = rng.choice([10, 100, 3600])
        ops += [["conf", name, True, e], setop(name, False), ["adv", rng.choice([1, e // 2, e - 1, e, e + 1])],
                setop(name, False)]
        if rng.random() < 0.5:
            ops.append(["adv", rng.choice([0, 1, e // 2, e - 1])])
    while len(ops) < n:
        r = rng.random()
        name = rng.choice([1, 1, 2, 2, 3, 4])
        if r < 0.45:
            ops.append(setop(name, rng.random() < 0.4))
        elif r < 0.65:
            ops.append(["conf", name, rng.random() < 0.8, rng.choice([0, 0, 10, 100, 3600])])
            if rng.random() < 0.7:      # the usual pattern: configure, then set
                ops.append(setop(name, False))
        elif r < 0.75:
            ops.append(["remove", name])
            lastv.pop(name, None)
        else:
            ops.append(["adv", rng.choice([0, 1, 9, 10, 11, 50, 100, 3600])])
    if rng.random() < 0.3:
        # removal of a persisted variable as the LAST change of the persisted subset before power off (what Game does
        # with player2..4_score at the end of a one player game): nothing later heals the file
        name = rng.choice([1, 2, 3, 4])
        if rng.random() < 0.6:
            if rng.random() < 0.5:
                ops.append(["conf", name, True, rng.choice([0, 0, 0, 100, 3600])])
                ops.append(setop(name, False))
            else:
                ops.append(setop(name, True))
            if rng.random() < 0.4:      # other persisted variables stay
                other = rng.choice([n for n in (1, 2, 3, 4) if n != name])
                ops.append(setop(other, True))
        for _ in range(rng.choice([1, 1, 1, 2, 3])):
            ops.append(["remove", name])
            name = rng.choice([1, 2, 3, 4])
        if rng.random() < 0.4:
            ops.append(["adv", rng.choice([0, 1, 10, 100])])
        if rng.random() < 0.3:          # a later change of something that is NOT persisted does not write
            ops.append(["conf", 4, False, 0])
            ops.append(["set", 4, rng.randint(1, 9), False])
    # reboot times: on both sides of, and exactly at, every deadline a variable had at any time of the history
    _, now, seen = spec_deadlines(ops)
    dts = [0, 1, 9, 10, 11, 89, 90, 99, 100, 101, 3599, 3600, 3601, 5000, 100000]
    near = [d - now + k for d in seen for k in (-1, 0, 1) if d - now + k >= 0]
    case = {"ops": ops, "dt": rng.choice(near) if near and rng.random() < 0.6 else rng.choice(dts)}
    if rng.random() < 0.2:
        case["tamper"] = [rng.choice(TAMPERS), rng.choice([1, 2, 3, 4])]
    return case


class Boot:
    """one 'power cycle': real DataManager (lock-stepped writer thread) + real MachineVariables on a fake machine"""

    def __init__(self, d, now):
        install_shims()
        from mpf.core.file_manager import FileManager
        from mpf.core.data_manager import DataManager
        from mpf.core.machine_vars import MachineVariables
        FileManager.is_busy = False
        self.FileManager = FileManager
        fname = os.path.join(d, "data", "machine_vars.yaml")
        self.ctl = Ctl(fname, os.path.join(d, "data", "_machine_vars.yaml"))
        del NEXT_CTL[:]
        NEXT_CTL.append(self.ctl)
        self.machine = FakeMachine(d, "machine_vars", "data/machine_vars.yaml")
        self.machine.clock = TsClock(now)
        self.dm = DataManager(self.machine, "machine_vars", min_wait_secs=1)
        self.ctl.wait_started()
        self.mv = MachineVariables(self.machine)
        self.mv.load_machine_vars(self.dm, float(now))

    def flush_and_stop(self):
        """let the writer thread write what is pending, then shut down cleanly and let it end"""
        for _ in range(20):
            if self.ctl.at in ("wait", "stop?") and not self.dm._dirty._flag:
                break
            self.ctl.resume("tick")
        self.machine.thread_stopper.set()
        for _ in range(20):
            if self.ctl.at == "done":
                break
            self.ctl.resume("tick")
        return self.ctl.at == "done"

    def close(self):
        self.ctl.kill()
        self.FileManager.is_busy = False


def vz(x):
    """value -> [has, token]"""
    if x is None:
        return [0, 0]
    t = tok(x)
    if t is None:
        return [7, 7]            # nothing the model can produce
    return [1, t]


def ez(x):
    """expire / expire_secs as stored: None or a whole number of seconds"""
    if x is None:
        return 0
    if isinstance(x, bool) or not isinstance(x, (int, float)) or x != int(x):
        return -7
    return int(x)


def tamper_file(fname, how, n):
    """what the next boot may find instead of the file a clean shutdown left (disk trouble, manual edits)"""
    import io
    name = VNAMES[n]
    if how == "missing":
        if os.path.exists(fname):
            os.unlink(fname)
    elif how == "empty":
        open(fname, "w").close()
    elif how == "corrupt":
        with open(fname, "w", encoding="utf8") as f:
            f.write("credit_units:\n  value: [1, 2\n  expire: {\n")
    elif how == "binary":
        with open(fname, "wb") as f:
            f.write(b"\xff\xfe\x00\x80 not utf8 \xc3\x28")
    elif how == "list":
        with open(fname, "w", encoding="utf8") as f:
            f.write("- 1\n- value: 2\n")
    elif how == "scalar":
        with open(fname, "w", encoding="utf8") as f:
            f.write("just a string\n")
    else:
        from ruamel import yaml
        y = yaml.YAML(typ="safe")
        d = {}
        if os.path.isfile(fname):
            with open(fname, encoding="utf8") as f:
                d = y.load(f) or {}
        if how == "entry_scalar":
            d[name] = 5
        else:
            d[name] = {"expire": None, "expire_secs": None}
        with open(fname, "w", encoding="utf8") as f:
            y.dump(d, f)


def run_vars(case):
    d = tempfile.mkdtemp(prefix="verif_c15v_")
    os.makedirs(os.path.join(d, "data"))
    b = b2 = None
    try:
        b = Boot(d, T0)
        rows = []
        conf_at = {}
        for o in case["ops"]:
            if o[0] in ("set", "setv"):
                b.mv.set_machine_var(VNAMES[o[1]], opval(o), persist=o[3])
            elif o[0] == "conf":
                b.mv.configure_machine_var(VNAMES[o[1]], persist=o[2], expire_secs=o[3] or None)
                conf_at[o[1]] = b.dm._dirty.nset
            elif o[0] == "remove":
                b.mv.remove_machine_var(VNAMES[o[1]])
            else:
                b.machine.clock.t += o[1]
            row = [b.dm._dirty.nset]
            for n in (1, 2, 3, 4):
                e = b.dm.data.get(VNAMES[n]) if isinstance(b.dm.data, dict) else None
                if e is None:
                    row += [0, 0, 0, 0, 0]
                else:
                    row += [1] + vz(e["value"]) + [ez(e["expire"]), ez(e["expire_secs"])]
            rows.append(row)
        nowb = b.machine.clock.t + case["dt"]
        old = {}
        for n in (1, 2, 3, 4):
            v = b.mv.machine_vars.get(VNAMES[n])
            if v is not None:
                old[str(n)] = {"eq": eqcanon(v["value"]), "persist": bool(v["persist"]),
                               "timeout": v["timeout"], "unwritten_conf": conf_at.get(n) == b.dm._dirty.nset}
        handed = canon(b.dm.data)
        wrote = b.dm._dirty.nset > 0
        ended = b.flush_and_stop()
        fname = os.path.join(d, "data", "machine_vars.yaml")
        ondisk = canon(b.FileManager.load(fname, halt_on_error=False)) if os.path.isfile(fname) else None
        b.close()
        b = None
        tam = case.get("tamper")
        if tam:
            tamper_file(fname, tam[0], tam[1])
        boot_exc = None
        new = {}
        lrow = []
        after = None
        try:
            b2 = Boot(d, nowb)
        except Exception as e:       # noqa: the boot must survive whatever is in the file
            boot_exc = type(e).__name__ + ": " + str(e)[:100]
        if b2 is not None:
            for n in (1, 2, 3, 4):
                v = b2.mv.machine_vars.get(VNAMES[n])
                if v is None:
                    lrow += [0, 0, 0]
                else:
                    lrow += [1] + vz(v["value"])
                    new[str(n)] = {"eq": eqcanon(v["value"]), "z": vz(v["value"]), "persist": bool(v["persist"])}
            if tam:
                # later saves work after such a boot: a new persisted variable reaches a complete file
                b2.mv.set_machine_var("after_boot", 77, persist=True)
                ok = b2.flush_and_stop()
                try:
                    dd = b2.FileManager.load(fname, halt_on_error=True)
                    after = [ok, isinstance(dd, dict) and isinstance(dd.get("after_boot"), dict) and
                             dd["after_boot"].get("value") == 77,
                             sorted(k for k in dd if k in VNAMES.values()) ==
                             sorted(VNAMES[int(n)] for n in new) if isinstance(dd, dict) else False]
                except Exception as e:   # noqa
                    after = [ok, False, False]
        else:
            lrow = [9] * 12
        return {"rows": rows + [lrow], "old": old, "new": new, "nowb": nowb, "ended": ended,
                "handed": handed, "ondisk": ondisk, "wrote": wrote, "boot_exc": boot_exc, "after": after}
    finally:
        for x in (b, b2):
            if x is not None:
                x.close()
        shutil.rmtree(d, ignore_errors=True)


def coq_vop(o):
    if o[0] in ("set", "setv"):
        t = tok(opval(o))
        if t is None:
            raise ValueError("no token for %r" % (opval(o),))
        return "(VSet %d %s %s)" % (o[1], zlit(t), blit(o[3]))
    if o[0] == "conf":
        return "(VConf %d %s %s)" % (o[1], blit(o[2]), zlit(o[3]))
    if o[0] == "remove":
        return "(VRemove %d)" % o[1]
    return "(VAdv %s)" % zlit(o[1])


def tamper_code(case):
    tam = case.get("tamper")
    if not tam:
        return 0
    if tam[0] in ("entry_scalar", "entry_novalue"):
        return 10 + tam[1]
    return 1 + TAMPERS.index(tam[0])


def coq_vars(case, out):
    return "((%s, %s, %s), %s)" % (coqlist(coq_vop(o) for o in case["ops"]), zlit(case["dt"]), zlit(tamper_code(case)),
                                   coqlist(zlist(r) for r in out["rows"]))


def oracle_vars(case, out):
    fails = []
    if not out["ended"]:
        fails.append({"sig": "writer-stuck", "what": "writer thread did not end after a clean shutdown"})
    if out["wrote"] and out["ondisk"] != out["handed"]:
        fails.append({"sig": "vars-file-differs", "what": "after a clean shutdown the machine_vars file differs from "
                                                          "the data last handed to save_all"})
    if out.get("boot_exc"):
        fails.append({"sig": "boot-fails-on-bad-file", "what": "boot with a %s machine_vars file raised %s"
                                                               % (case.get("tamper"), out["boot_exc"])})
        return fails
    tam = case.get("tamper")
    if tam and out.get("after") != [True, True, True]:
        fails.append({"sig": "save-lost-after-bad-file-boot",
                      "what": "after booting from a %s file a new persisted variable did not reach a complete file "
                              "holding it and the reloaded ones %s" % (tam[0], out.get("after"))})
    whole = tam and tam[0] not in ("entry_scalar", "entry_novalue")
    if whole:
        if out["new"]:
            fails.append({"sig": "loaded-from-bad-file", "what": "variables %s appeared from a %s file" % (sorted(out["new"]), tam[0])})
        return fails
    last_disk = out["rows"][-2] if len(out["rows"]) >= 2 else [0] * 21
    deadlines, _, _ = spec_deadlines(case["ops"])
    if tam and str(tam[1]) in out["new"]:
        fails.append({"sig": "malformed-entry-loaded", "what": "malformed entry %d was loaded" % tam[1]})
    for n, o in out["old"].items():
        if not o["persist"]:
            continue
        if tam and int(n) == tam[1]:
            continue        # that entry was made malformed: it must be skipped, the others must load
        # the expiry time: expire_secs after the variable was last set, by the history (not by the implementation's
        # bookkeeping, which a changed set_machine_var may get wrong)
        dl = deadlines.get(int(n))
        expired = bool(dl) and dl < out["nowb"]
        got = out["new"].get(n)
        gotv = None if got is None else got["eq"]
        if expired and got is None:
            continue
        if not expired and (gotv == o["eq"] or (got is None and o["eq"] == "NoneType:None")):
            continue
        # a failure.  Is it exactly what "configure_machine_var does not write" produces?  Then the stale entry handed
        # to save_all before that configure call decides what reloads.
        k = 1 + 5 * (int(n) - 1)
        present, has, val, exp = last_disk[k], last_disk[k + 1], last_disk[k + 2], last_disk[k + 3]
        stale_loaded = bool(present) and not (exp and exp < out["nowb"])
        by_defect = (got is None and not stale_loaded) or (got is not None and stale_loaded and got["z"] == [has, val])
        if o["unwritten_conf"] and by_defect:
            fails.append({"sig": "persist-configured-not-written",
                          "what": "configure_machine_var changed persist/expiry of a variable and nothing was written "
                                  "afterwards: the next boot goes by the stale entry on disk"})
        elif expired:
            fails.append({"sig": "expired-var-reloaded", "what": "variable %s reloaded after its expiry time" % n})
        elif got is None:
            fails.append({"sig": "persisted-var-not-reloaded",
                          "what": "persistent variable %s = %s (expiry %s, boot at %s) is not there after the reboot"
                                  % (n, o["eq"][:60], dl, out["nowb"])})
        else:
            fails.append({"sig": "persist-reload-differs",
                          "what": "persistent variable %s = %s reloads as %s" % (n, o["eq"][:60], gotv[:60])})
    # the converse: nothing but the persistent variables comes back.  A variable that had been removed (or was not
    # persistent) when the machine was shut down must not reappear after the reboot
    for n, got in sorted(out["new"].items()):
        if tam and int(n) == tam[1]:
            continue
        o = out["old"].get(n)
        if o is None:
            removed = [i for i, x in enumerate(case["ops"]) if x[0] == "remove" and x[1] == int(n)]
            fails.append({"sig": "removed-var-reloaded",
                          "what": "variable %s did not exist at shutdown (remove_machine_var at op %s) but is back after "
                                  "the reboot with value %s" % (n, removed[-1] if removed else None, got["eq"][:60])})
        elif not o["persist"]:
            if o["unwritten_conf"]:
                fails.append({"sig": "persist-configured-not-written",
                              "what": "configure_machine_var made variable %s non-persistent and nothing was written "
                                      "afterwards: the next boot goes by the stale entry on disk" % n})
            else:
                fails.append({"sig": "unpersisted-var-reloaded",
                              "what": "variable %s was not persistent at shutdown but is back after the reboot" % n})
    return fails


def shrink_vars(case):
    ops = case["ops"]
    for i in range(len(ops)):
        yield dict(case, ops=ops[:i] + ops[i + 1:])
    if case.get("tamper"):
        c = dict(case)
        del c["tamper"]
        yield c


def nontrivial_vars(case, out):
    ts = [o["timeout"] for o in out["old"].values() if o["persist"] and o["timeout"]]
    return bool(ts) or any(o["persist"] for o in out["old"].values())


def describe_vars(case):
    k = set(o[0] for o in case["ops"])
    return " ".join(sorted(k)) + (" tamper:" + case["tamper"][0] if case.get("tamper") else "")


HDR_VARS = "From C15 Require Import Model.\nDefinition run := vars_run_t.\nDefinition out_eqb := zss_eqb.\n"

# ------------------------------------------------------------------------------------------------
# suite "fsave": FileManager.save called directly with the REAL YamlInterface and the REAL ruamel dumper (nothing of the
# yaml layer is intercepted): faults are injected in the file object's write() and by values ruamel cannot represent,
# followed by good saves, on two files (two data managers share FileManager and the yaml interface).
class Unrepresentable:
    pass


def gen_fsave(rng, tier, i):
    ops = []
    v = 0
    for _ in range(rng.randint(2, 10)):
        v += 1
        r = rng.random()
        f = rng.choice([0, 0, 1])
        if r < 0.5:
            ops.append(["good", f, v])
        elif r < 0.75:
            ops.append(["bad", f, v, rng.choice(["top_first", "top_last", "nested"])])
        else:
            ops.append(["wfault", f, v, rng.choice([1, 1, 2, 3, 5, 9])])
    if ops[-1][0] != "good" or rng.random() < 0.5:
        ops.append(["good", rng.choice([0, 1]), v + 1])
    return {"ops": ops, "pseed": rng.randrange(10 ** 6)}


def run_fsave(case):
    global FS_FAULT
    install_shims()
    from mpf.core.file_manager import FileManager
    FileManager.is_busy = False
    if not FileManager.initialized:
        FileManager.init()
    d = tempfile.mkdtemp(prefix="verif_c15f_")
    names = [os.path.join(d, "a.yaml"), os.path.join(d, "b.yaml")]
    temps = [os.path.join(d, "_a.yaml"), os.path.join(d, "_b.yaml")]
    versions = {}

    def classify(path):
        if not os.path.exists(path):
            return None
        if os.path.getsize(path) == 0:
            return ("empty",)
        try:
            c = canon(FileManager.load(path, halt_on_error=True))
        except Exception:
            return ("torn",)
        for vv, t in versions.items():
            if t == c:
                return ("ver", vv)
        return ("torn",)

    def codes():
        out = []
        for fn, tn in zip(names, temps):
            f = classify(fn)
            t = classify(tn)
            out.append(0 if f is None else f[1] if f[0] == "ver" else -1 if f[0] == "torn" else -2)
            out += [0, 0] if t is None else [1, 0] if t[0] == "empty" else [3, t[1]] if t[0] == "ver" else [2, 0]
        return out
    rows, infos = [], []
    try:
        for o in case["ops"]:
            p = payload(case["pseed"], o[2])
            info = {"fired": False}
            if o[0] == "good":
                versions[o[2]] = canon(p)
            elif o[0] == "bad":
                if o[3] == "top_first":
                    p = dict([("!bad", Unrepresentable())] + list(p.items()))
                elif o[3] == "top_last":
                    p["zzz_bad"] = Unrepresentable()
                else:
                    p["nest"] = [1, {"deep": [Unrepresentable()]}]
            else:
                versions[o[2]] = canon(p)
                FS_FAULT = info
                info["k"] = o[3]
            exc = None
            try:
                FileManager.save(names[o[1]], p)
            except Exception as e:       # noqa
                exc = type(e).__name__ + ": " + str(e)[:80]
            FS_FAULT = None
            code = 0 if exc is None else 1 if exc.startswith("RepresenterError") else 2 if exc.startswith("OSError") else 9
            rows.append([int(exc is None), code, int(bool(FileManager.is_busy))] + codes())
            infos.append({"exc": exc, "fired": info.get("fired", False)})
        return {"rows": rows, "infos": infos}
    finally:
        FS_FAULT = None
        FileManager.is_busy = False
        shutil.rmtree(d, ignore_errors=True)


def coq_fsave(case, out):
    terms = []
    for o, row, info in zip(case["ops"], out["rows"], out["infos"]):
        tstate = row[4 + 3 * o[1]]      # row = [ok, exc, busy, f0, t0state, t0ver, f1, t1state, t1ver]
        if o[0] == "good" or (o[0] == "wfault" and not info["fired"]):
            terms.append("(FGood %d %d)" % (o[1], o[2]))
        else:
            # where the dump stopped (temp left empty or partial) is ruamel's business: taken from the observation;
            # anything else (e.g. a complete temp file) is mapped to "partial" and shows up as a disagreement
            terms.append("(FFail %d %d %d %d)" % (o[1], o[2], 1 if o[0] == "bad" else 2, 1 if tstate == 1 else 2))
    return "((%s, %s), %s)" % (CFG, coqlist(terms), coqlist(zlist(r) for r in out["rows"]))


def oracle_fsave(case, out):
    fails = []
    saved = set()
    failed_before = False
    for idx, (o, row, info) in enumerate(zip(case["ops"], out["rows"], out["infos"])):
        good = o[0] == "good" or (o[0] == "wfault" and not info["fired"])
        if good:
            saved.add(o[2])
        for col in (3, 6):
            if row[col] != 0 and row[col] not in saved:
                fails.append({"sig": "torn-file", "what": "op %d: a data file is not a complete saved version" % idx})
                return fails
        if row[2]:
            fails.append({"sig": "busy-stuck", "what": "op %d: FileManager.is_busy left True" % idx})
            return fails
        if good and (not row[0] or row[3 + 3 * o[1]] != o[2]):
            if failed_before:
                fails.append({"sig": "later-save-fails-after-failed-save",
                              "what": "op %d: a good save after an earlier failed save is not on disk (%s)" %
                                      (idx, info["exc"])})
            else:
                fails.append({"sig": "good-save-failed", "what": "op %d: save failed: %s" % (idx, info["exc"])})
            return fails
        if not good:
            failed_before = True
            if row[0]:
                fails.append({"sig": "fault-swallowed", "what": "op %d: the save did not raise" % idx})
                return fails
    return fails


def shrink_fsave(case):
    ops = case["ops"]
    for i in range(len(ops)):
        yield dict(case, ops=ops[:i] + ops[i + 1:])


def nontrivial_fsave(case, out):
    seen_fail = False
    for o, info in zip(case["ops"], out["infos"]):
        if o[0] == "bad" or (o[0] == "wfault" and info["fired"]):
            seen_fail = True
        elif seen_fail:
            return True
    return False


def describe_fsave(case):
    return " ".join(sorted(set(o[0] for o in case["ops"])))


HDR_FSAVE = "From C15 Require Import Model.\nDefinition run := fsave_run.\nDefinition out_eqb := zss_eqb.\n"

HDR_WRITER = "From C15 Require Import Model.\nDefinition run := writer_run.\nDefinition out_eqb := zss_eqb.\n"

SUITES = [
    Suite("writer", gen_writer, run_writer, HDR_WRITER, coq_writer, oracle_writer, shrink_writer, nontrivial_writer,
          {"quick": 1600, "thorough": 40000}, describe=describe_writer, shard=200),
    Suite("two", gen_two, run_two, HDR_TWO, coq_two, oracle_two, shrink_two, nontrivial_two,
          {"quick": 400, "thorough": 12000}, describe=describe_two, shard=200),
    Suite("stop", gen_stop, run_stop, HDR_STOP, coq_stop, oracle_stop, shrink_stop, nontrivial_stop,
          {"quick": 300, "thorough": 8000}, describe=describe_stop, shard=150),
    Suite("snap", gen_snap, run_snap, HDR_SNAP, coq_snap, oracle_snap, shrink_snap, nontrivial_snap,
          {"quick": 150, "thorough": 4000}, shard=200),
    Suite("vars", gen_vars, run_vars, HDR_VARS, coq_vars, oracle_vars, shrink_vars, nontrivial_vars,
          {"quick": 600, "thorough": 15000}, describe=describe_vars, shard=200),
    Suite("fsave", gen_fsave, run_fsave, HDR_FSAVE, coq_fsave, oracle_fsave, shrink_fsave, nontrivial_fsave,
          {"quick": 500, "thorough": 10000}, describe=describe_fsave, shard=250),
]

LEVEL_TEXT = ("Machine-checked proof (Coq) over a program-counter model of DataManager._writing_thread + FileManager.save + the "
              "two files on disk, for ALL schedules of saves, shutdown, crashes, I/O errors and failed snapshots: the data file "
              "is always a complete version that was saved earlier (os.replace is its only writer; a crash freezes the disk); "
              "a clean shutdown leaves the last saved version on disk; a failed write or failed snapshot never blocks later "
              "saves (lands within 24 steps from any reachable state; a failed snapshot is retried). The same for TWO managers "
              "sharing the unlocked FileManager.is_busy flag under every interleaving (never torn, both last saves land, a "
              "failure of one does not block the other within 24 fair rounds; the race itself is exhibited and harmless). "
              "The shutdown path: for the ordering of the real MachineController._do_stop (shutdown event and everything its "
              "handlers do, THEN thread_stopper) every save issued before or during _do_stop, with the writer anywhere in its "
              "loop and failed snapshots included, is on disk once the writer has ended, and it ends within 24 steps; with the "
              "request made before the handlers run a handler's save is lost (refuted witness); clean shutdown is durable "
              "also for histories with failed snapshots before the request, and false of a writer that does not set _dirty "
              "again (refuted witness). "
              "Each repair is needed: the statements are refuted (vm_compute witnesses replayed on the code) for the code before "
              "final-flush, busy-finally and snapshot-in-try. Crash points at os-call level: a call sequence is safe at every "
              "prefix iff the only calls touching the data file rename a complete file onto it (rotation / remove-first / "
              "in-place variants refuted). Machine variables: reload restores exactly the unexpired, well-formed entries "
              "(values of every YAML kind as tokens); a removed variable is never reloaded, whatever follows that does not set or "
              "configure it again (false of write-before-delete: refuted witness); persisted variables reload equal whenever the file is in sync, which every "
              "op except configure_machine_var maintains (known finding). The snapshot is only cell-wise consistent (known "
              "finding snapshot-mixes-versions). Models tied to the working tree by lock-stepping the real threads.")
LEVEL_NOTE = ("Trusted: Coq kernel + vm_compute; no axioms. Hand-written models; correspondence validates flags, pcs and directory "
              "contents after every op of generated schedules against the real threads (shims for time.sleep, threading.Event, "
              "copy.deepcopy, open; audit hook for every os-level call). Partial: process-crash model tied, power loss modelled "
              "only (ordered write-back assumed; no fsync in the code); liveness for two managers under a round-robin window; "
              "MachineController.shutdown does not join the writer threads - 'clean shutdown' means the threads are allowed to "
              "finish; the shutdown path is the real _do_stop/shutdown on a stub machine with scripted shutdown handlers (devices, "
              "platforms, BCP stubbed); persist_reload_equal stays _partial (guard: no configure since the last write = known finding); YAML codec "
              "not modelled (round trip of every payload/value checked by the oracle); after-bad-file-boot save check is "
              "oracle-only.")
TECHNIQUE = ("Coq proof over hand-written executable models + differential correspondence (vm_compute) with lock-stepped real "
             "writer threads (one and two managers, real MachineController._do_stop + EventManager for the shutdown path) + "
             "direct disk/reboot oracle")
DESIGN_REF = "DESIGN.md section 3, C15"
