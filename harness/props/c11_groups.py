"""C11, suite 'groups' (helper module of harness/props/c11.py; not a property module of its own).

Clients of the player object that (a) write with a delay (score_queue + score_queue_player: digits are added one by
one while the ball end is held back), (b) keep a cursor / cache on the Python side of a mode device across balls
(ShotGroup.rotation_pattern + rotation_enabled, AchievementGroup._selected_member):

  * shot group `grp` over three shots g1..g3 (profile prof_g: 2-4 states, loop or not, mixed `rotation_pattern`,
    optional `state_names_to_not_rotate`, rotation starting enabled or disabled), events rotate / rotate_left /
    rotate_right / enable_rotation / disable_rotation; the member shots are ordinary persisted shots.
    Fed to the model coq/C11/GModel.v (third layer on Model.step).
  * score queue `score` (chimes for 1000/100/10, 125 ms per chime) driven by score_queue_player entries; operation
    ["sq", [events], drain]: the entries are queued back to back and, with drain, the ball drains 1/16 s later
    while at least one entry is still being chimed out.  Fed to the model.
  * achievement group `agrp` over three achievements ga1..ga3 (auto_select on/off, allow_selection_change_while_
    disabled, disable_random: true so that the run is deterministic): ORACLE ONLY (not in the Coq model).
  * generic cache oracle (all suites, see c11.run_impl): every load of a game mode against a player who never had
    that mode loaded in this game must leave the mode's devices with the same instance attributes as the very first
    such load on this machine.
"""
import sys

from vlib import zlit, coqlist, blit

G_SHOTS = ("g1", "g2", "g3")
G_ACHS = ("ga1", "ga2", "ga3")
SQ_EVENTS = ("ev_sq1", "ev_sq2", "ev_sq3")
GRP_EVENTS = {"ev_grp_rot": "(GRotate None)", "ev_grp_rotl": "(GRotate (Some false))",
              "ev_grp_rotr": "(GRotate (Some true))", "ev_grp_enrot": "GEnRot", "ev_grp_disrot": "GDisRot"}
AGRP_EVENTS = ["ev_agrp_en", "ev_agrp_dis", "ev_agrp_start", "ev_agrp_sel", "ev_agrp_rotr", "ev_agrp_rotl"]
GACH_EVENTS = ["ev_%s_%s" % (a, s) for a in G_ACHS for s in ("en", "start", "done", "stop", "dis", "sel")]
ORACLE_ONLY_EVENTS = set(AGRP_EVENTS + GACH_EVENTS)


def B():
    return sys.modules["props.c11"]


# ------------------------------------------------------------------------------------------------
# generator
def gen_g(rng, tier, i):
    b = B()
    cfg = b.gen_cfg(rng)
    cfg["bpg"] = rng.choice([2, 3, 3])
    cfg["maxp"] = rng.choice([2, 3, 3, 4])
    nst = rng.choice([2, 3, 3, 4])
    loop = rng.random() < 0.5
    for n in G_SHOTS:
        cfg[n] = {"nstates": nst, "loop": loop, "start_enabled": rng.random() < 0.8}
    while True:
        pat = [rng.choice("rl") for _ in range(rng.choice([2, 3, 4, 4, 5]))]
        if len(set(pat)) == 2:
            break
    cfg["g"] = {
        "pattern": pat, "norot": [nst - 1] if rng.random() < 0.25 else [], "enrot": rng.random() < 0.3,
        "sq": [rng.choice([10, 30, 120, 200, 1000, 2100, 1020, 25, 301]) for _ in SQ_EVENTS],
        "auto_select": rng.random() < 0.4, "allow_change": rng.random() < 0.5,
        "dwas": rng.random() < 0.7, "ewnas": rng.random() < 0.7,
    }
    ops = []
    g = {"in": False}

    def emit(op):
        ops.append(op)
        if op[0] == "start":
            if not g["in"]:
                g.update({"in": True, "balls": [1], "cur": 0, "ending": False})
            elif not g["ending"] and len(g["balls"]) < cfg["maxp"] and g["balls"][g["cur"]] <= 1:
                g["balls"].append(0)
        elif not g["in"]:
            return
        elif op[0] in ("drain", "end_game") or (op[0] == "sq" and op[2]):
            if op[0] == "end_game":
                g["ending"] = True
            c = g["cur"]
            if g["ending"] or (g["balls"][c] >= cfg["bpg"] and c == len(g["balls"]) - 1):
                g["in"] = False
            else:
                g["cur"] = (c + 1) % len(g["balls"])
                g["balls"][g["cur"]] += 1

    limit = rng.choice([25, 40, 60])
    emit(["start"])
    for _ in range(rng.choice([1, 1, 2, 3])):
        emit(["start"])
    games = 1
    while len(ops) < limit:
        if not g["in"]:
            if games >= 2:
                break
            games += 1
            if rng.random() < 0.3:
                emit(["post", rng.choice(list(GRP_EVENTS))])          # outside a game: nothing may happen
            emit(["start"])
            for _ in range(rng.choice([0, 1, 2])):
                emit(["start"])
            continue
        # one ball: rotation (mostly without direction), member hits, group / achievement traffic, scoring
        if cfg["g"]["enrot"] and rng.random() < 0.85:
            emit(["post", "ev_grp_enrot"])
        if rng.random() < 0.6:
            # achievements along their life cycle: some are enabled, the group is enabled, often one gets selected
            for a in rng.sample(G_ACHS, rng.choice([1, 2, 3])):
                emit(["post", "ev_%s_en" % a])
            emit(["post", "ev_agrp_en"])
            if rng.random() < 0.6:
                emit(["post", rng.choice(["ev_agrp_sel", "ev_agrp_sel", "ev_%s_sel" % rng.choice(G_ACHS)])])
        for _ in range(rng.choice([1, 2, 3, 4, 6])):
            r = rng.random()
            if r < 0.30:
                emit(["post", "ev_grp_rot"])
            elif r < 0.36:
                emit(["post", rng.choice(["ev_grp_rotl", "ev_grp_rotr"])])
            elif r < 0.40:
                emit(["post", rng.choice(["ev_grp_disrot", "ev_grp_enrot"])])
            elif r < 0.58:
                n = rng.choice(G_SHOTS)
                emit(["post", rng.choice(["ev_%s" % n, "ev_%s" % n, "ev_%s_adv" % n, "ev_%s_reset" % n,
                                          "ev_%s_dis" % n, "ev_%s_en" % n])])
            elif r < 0.70:
                emit(["post", rng.choice(["ev_%s_%s" % (a, s) for a in G_ACHS for s in ("en", "en", "sel", "start", "stop",
                                                                                         "done", "dis")])])
            elif r < 0.84:
                emit(["post", rng.choice(["ev_agrp_en", "ev_agrp_en", "ev_agrp_rotr", "ev_agrp_rotr", "ev_agrp_rotl",
                                          "ev_agrp_start", "ev_agrp_sel", "ev_agrp_dis"])])
            elif r < 0.92:
                emit(["sq", [rng.choice(SQ_EVENTS) for _ in range(rng.choice([1, 1, 2]))], False])
            elif r < 0.97:
                emit(["post", rng.choice(["ev_score", "ev_c1", "ev_sh1", "ev_a1_0"])])
            elif r < 0.985:
                emit(["start"])
            else:
                emit(["end_game"])
            if not g["in"]:
                break
        if g["in"]:
            if rng.random() < 0.45:
                emit(["sq", [rng.choice(SQ_EVENTS) for _ in range(rng.choice([1, 2, 2, 3]))], True])
            else:
                emit(["drain"])
    return {"cfg": cfg, "ops": ops}


# ------------------------------------------------------------------------------------------------
# configuration
def extend_config(c, machine, m1):
    g = c["g"]
    machine["coils"] = {"c_chime_1000": {"number": "1"}, "c_chime_100": {"number": "2"}, "c_chime_10": {"number": "3"}}
    machine["score_queues"] = {"score": {"chimes": "c_chime_1000, c_chime_100, c_chime_10, None", "delay": "125ms"}}
    nst = c["g1"]["nstates"]
    prof = {"states": [{"name": "st%d" % j} for j in range(nst)], "loop": c["g1"]["loop"],
            "rotation_pattern": list(g["pattern"])}
    if g["norot"]:
        prof["state_names_to_not_rotate"] = ["st%d" % j for j in g["norot"]]
    m1["shot_profiles"]["prof_g"] = prof
    for n in G_SHOTS:
        k = c[n]
        m1["shots"][n] = {"hit_events": "ev_%s" % n, "enable_events": "ev_%s_en" % n, "disable_events": "ev_%s_dis" % n,
                          "reset_events": "ev_%s_reset" % n, "advance_events": "ev_%s_adv" % n,
                          "restart_events": "ev_%s_restart" % n, "profile": "prof_g", "start_enabled": k["start_enabled"]}
    grp = {"shots": list(G_SHOTS), "rotate_events": "ev_grp_rot", "rotate_left_events": "ev_grp_rotl",
           "rotate_right_events": "ev_grp_rotr", "disable_rotation_events": "ev_grp_disrot"}
    if g["enrot"]:
        grp["enable_rotation_events"] = "ev_grp_enrot"
    m1["shot_groups"] = {"grp": grp}
    m1["score_queue_player"] = {ev: {"score": v} for ev, v in zip(SQ_EVENTS, g["sq"])}
    achs = {}
    for a in G_ACHS:
        achs[a] = {"enable_events": "ev_%s_en" % a, "start_events": "ev_%s_start" % a, "complete_events": "ev_%s_done" % a,
                   "stop_events": "ev_%s_stop" % a, "disable_events": "ev_%s_dis" % a, "select_events": "ev_%s_sel" % a}
    m1["achievements"] = achs
    m1["achievement_groups"] = {"agrp": {
        "achievements": list(G_ACHS), "enable_events": "ev_agrp_en", "disable_events": "ev_agrp_dis",
        "start_selected_events": "ev_agrp_start", "select_random_achievement_events": "ev_agrp_sel",
        "rotate_right_events": "ev_agrp_rotr", "rotate_left_events": "ev_agrp_rotl", "disable_random": True,
        "auto_select": g["auto_select"], "allow_selection_change_while_disabled": g["allow_change"],
        "disable_while_achievement_started": g["dwas"], "enable_while_no_achievement_started": g["ewnas"]}}


def dump_g(m):
    grp = m.shot_groups["grp"]
    ag = m.achievement_groups["agrp"]
    active = bool(m.modes["m1"].active)
    sel = getattr(ag, "_selected_member", None)
    return {"rot": bool(grp.rotation_enabled) if active else None,
            "pat": [str(x).lower()[:1] for x in grp.rotation_pattern] if active and grp.rotation_pattern is not None else None,
            "gach": [[m.achievements[a].state, bool(m.achievements[a].selected)] for a in G_ACHS] if active else None,
            "agrp": [bool(ag.enabled), getattr(sel, "name", None)]}


def do_sq(r, m, op):
    """the entries are queued back to back; with drain the ball drains 1/16 s later (the first chime is being
    played, every further entry is still queued); then wait until everything is chimed out (<= 14 chimes of 125 ms)"""
    for ev in op[1]:
        m.events.post(ev)
    r.advance(0.0625)
    if op[2] and m.game and m.game.balls_in_play > 0:
        m.events.post_relay("ball_drain", balls=1)
        m.playfield.balls = 0
        m.playfield.available_balls = 0
    r.advance(5.9375)


# ------------------------------------------------------------------------------------------------
# generic cache oracle: instance attributes of mode devices at a load against a fresh player
def canon(v, depth=0):
    from collections import deque
    if v is None or isinstance(v, (bool, int, str)):
        return v
    if isinstance(v, float):
        return repr(v)
    tn = type(v).__name__
    if tn == "LogicBlockState":
        return ["lbs", bool(v.enabled), bool(v.completed), canon(v.value, depth + 1)]
    if tn == "Player":
        return "<Player>"
    if hasattr(v, "name") and hasattr(v, "config") and hasattr(v, "machine"):
        return "<dev %s>" % getattr(v, "name", "?")
    if depth < 3 and isinstance(v, (list, tuple, deque)):
        return [canon(x, depth + 1) for x in v]
    if depth < 3 and isinstance(v, (set, frozenset)):
        return sorted(repr(canon(x, depth + 1)) for x in v)
    if depth < 3 and isinstance(v, dict):
        return sorted([repr(k), repr(canon(x, depth + 1))] for k, x in v.items())
    return "<%s>" % tn


# not player state, by construction: the device's identity / wiring (set once at creation or by config loading)
CACHE_IGNORE = {"machine", "name", "config", "tags", "label", "platform", "log", "_debug", "_debug_to_console",
                "_info_to_console", "_info_to_file", "_debug_to_file", "_url_base", "_logging_name", "mode",
                "_control_events_in_mode", "_event_handlers", "class_label", "collection", "config_section",
                # Timer: derived from ticks / end_value by every tick and start, only handed out as a kwarg of the timer_*
                # events (display); stale between a load and the first tick; timers are not persisted per player
                "ticks_remaining",
                # registration bookkeeping: keys of the control-event handlers a device added; Timer appends to it at
                # every load and never shrinks it (the handlers themselves are removed); holds no player data
                "event_keys"}


def device_attrs(dev):
    names = set(getattr(dev, "__dict__", {}))
    for k in type(dev).__mro__:
        sl = k.__dict__.get("__slots__", ())
        names.update([sl] if isinstance(sl, str) else sl)
    out = {}
    for n in sorted(names):
        if n in CACHE_IGNORE or n.startswith("__"):
            continue
        try:
            out[n] = canon(getattr(dev, n))
        except AttributeError:
            out[n] = "<unset>"
    return out


def mode_snapshot(mode):
    return {"%s.%s" % (type(d).__name__, d.name): device_attrs(d) for d in mode.mode_devices}


# ------------------------------------------------------------------------------------------------
# Coq printers
def gcfg_term(c):
    b = B()
    g = c["g"]
    members = coqlist(b.shot_term(c, n) for n in G_SHOTS)
    sq = coqlist("(%d, %s)" % (b.EVENTS[ev], zlit(v)) for ev, v in zip(SQ_EVENTS, g["sq"]))
    return "(mkG %s %s %s %s %s %s)" % (b.ccfg_term(c), members, coqlist(blit(x == "r") for x in g["pattern"]),
                                        coqlist(zlit(x) for x in g["norot"]), blit(g["enrot"]), sq)


def gop_term(op):
    b = B()
    if op[0] == "post" and op[1] in GRP_EVENTS:
        return GRP_EVENTS[op[1]]
    if op[0] == "sq":
        return "(GSq %s %s)" % (coqlist(str(b.EVENTS[e]) for e in op[1]), blit(op[2]))
    return "(GBase %s)" % b.op_term(op)


HIDDEN_VARS = ("achievements",)


def gsnap_term(st):
    b = B()
    base = dict(st)
    base["players"] = [[kv for kv in p if kv[0] not in HIDDEN_VARS] for p in st["players"]]
    g = st["g"]
    obs = "None" if g["rot"] is None or g["pat"] is None else \
        "(Some (%s, %s))" % (blit(g["rot"]), coqlist(blit(x == "r") for x in g["pat"]))
    return "(mkGSnap %s %s)" % (b.snap_term(base), obs)


def coq_case_g(case, out):
    b = B()
    steps = out["steps"]
    for st in steps:
        for e in st["events"]:
            if not all(b.representable(x) for x in e[1:]):
                return None
        for p in st["players"]:
            if not all(b.representable(v) for _, v in p):
                return None
    ops = case["ops"][:len(steps)]
    return "((%s, %s), %s)" % (gcfg_term(case["cfg"]), coqlist(gop_term(o) for o in ops),
                               coqlist(gsnap_term(s) for s in steps))


HDR_G = "From C11 Require Import Model GModel.\nDefinition run := c11g_run.\nDefinition out_eqb := c11g_out_eqb.\n"


# ------------------------------------------------------------------------------------------------
# oracle
def member_states(store):
    d = dict(store)
    return [d.get("shot_" + n, ["i", 0])[1] for n in G_SHOTS]


def rotate_ref(c, states, right):
    """ShotGroup.rotate on a list of member states: the states that may rotate move one place"""
    idx = [k for k, s in enumerate(states) if s not in c["g"]["norot"]]
    vals = [states[k] for k in idx]
    if vals:
        vals = [vals[-1]] + vals[:-1] if right else vals[1:] + [vals[0]]
    out = list(states)
    for k, v in zip(idx, vals):
        out[k] = v
    return out


def digit_sum_events(v):
    out = []
    while v > 0:
        d = 10 ** (len(str(v)) - 1)
        out.append(d)
        v -= d
    return out


def oracle_g(case, out):
    b = B()
    c = case["cfg"]
    g = c["g"]
    fails = b.oracle(case, out)
    prev = {"ingame": False, "cur": 0, "players": [], "mode": False, "g": None}
    pos = 0            # rotations WITHOUT direction that took effect in THIS ball
    rot = False
    for k, st in enumerate(out["steps"]):
        op = case["ops"][k]
        opdesc = "op %d %s" % (k, "/".join(str(y) for y in op))
        new_game = st["ingame"] and not prev["ingame"]
        drains = op[0] in ("drain", "end_game") or (op[0] == "sq" and op[2])
        handover = drains and prev["ingame"] and prev["mode"]
        cur_ok = st["ingame"] and prev["ingame"] and st["cur"] == prev["cur"] and st["cur"] < len(prev["players"]) \
            and not handover
        if new_game or handover:
            pos, rot = 0, not g["enrot"]
        # ---- shot group: the member states after a rotation depend only on the current player's stored states
        # and on the number of rotations of THIS ball (the pattern starts again with every ball)
        if op[0] == "post" and op[1] in GRP_EVENTS and cur_ok:
            before = member_states(prev["players"][st["cur"]])
            after = member_states(st["players"][st["cur"]])
            want = before
            if op[1] == "ev_grp_enrot":
                rot = True if g["enrot"] else rot
            elif op[1] == "ev_grp_disrot":
                rot = False
            elif rot:
                if op[1] == "ev_grp_rot":
                    right = g["pattern"][pos % len(g["pattern"])] == "r"
                    pos += 1
                else:
                    right = op[1] == "ev_grp_rotr"
                want = rotate_ref(c, before, right)
            if after != want:
                fails.append({"sig": "rotation-depends-on-history",
                              "what": "%s: player %d's member shot states went %r -> %r; with %d pattern rotations in "
                                      "this ball and rotation %s the configuration asks for %r" %
                                      (opdesc, st["cur"] + 1, before, after, pos, "enabled" if rot else "disabled", want)})
            if st["g"] and st["g"]["pat"] is not None:
                n = len(g["pattern"])
                wantpat = [g["pattern"][(pos + j) % n] for j in range(n)]
                if st["g"]["pat"] != wantpat or st["g"]["rot"] != rot:
                    fails.append({"sig": "rotation-depends-on-history",
                                  "what": "%s: the group's pattern reads %r / rotation_enabled %r; %d pattern rotations in "
                                          "this ball: expected %r / %r" % (opdesc, st["g"]["pat"], st["g"]["rot"], pos,
                                                                          wantpat, rot)})
        if (new_game or (handover and st["ingame"])) and st["g"] and st["g"]["pat"] is not None:
            if st["g"]["pat"] != list(g["pattern"]) or st["g"]["rot"] != (not g["enrot"]):
                fails.append({"sig": "rotation-depends-on-history",
                              "what": "%s: player %d's ball starts with the rotation pattern at %r / rotation_enabled %r, "
                                      "configured: %r / %r" % (opdesc, st["cur"] + 1, st["g"]["pat"], st["g"]["rot"],
                                                               g["pattern"], not g["enrot"])})
        # ---- score queue: what was queued in a player's turn lands on that player, all of it, before the turn ends
        if op[0] == "sq" and prev["ingame"] and prev["mode"] and prev["cur"] < len(st["players"] or prev["players"]):
            i = prev["cur"]
            total = sum(g["sq"][SQ_EVENTS.index(e)] for e in op[1])
            if st["ingame"]:
                was = dict(prev["players"][i]).get("score", ["i", 0])[1]
                now = dict(st["players"][i]).get("score", ["i", 0])[1]
                if now != was + total:
                    fails.append({"sig": "leak-other-player",
                                  "what": "%s: %d points were queued in player %d's turn, that player's score went %d -> %d"
                                          % (opdesc, total, i + 1, was, now)})
                for j, p in enumerate(st["players"]):
                    if j != i and j < len(prev["players"]):
                        wj = dict(prev["players"][j]).get("score", ["i", 0])[1]
                        nj = dict(p).get("score", ["i", 0])[1]
                        if wj != nj:
                            fails.append({"sig": "leak-other-player",
                                          "what": "%s: points queued in player %d's turn changed player %d's score %d -> %d"
                                                  % (opdesc, i + 1, j + 1, wj, nj)})
            for e in st["events"]:
                if e[0] == "score" and e[4] != ["i", i + 1]:
                    fails.append({"sig": "leak-other-player",
                                  "what": "%s: player_score event %r for points queued in player %d's turn" % (opdesc, e, i + 1)})
        # ---- hand-over: the incoming player's int/str/float variables are what they were when his turn ended
        # (only `ball` counts up), whatever was still pending when the previous ball ended
        if handover and st["ingame"] and st["cur"] != prev["cur"] and st["cur"] < len(prev["players"]):
            j = st["cur"]
            was = {k2: v for k2, v in prev["players"][j] if b.simple(v) and k2 != "ball"}
            now = {k2: v for k2, v in st["players"][j] if k2 in was}
            if was != now:
                fails.append({"sig": "leak-other-player",
                              "what": "%s: player %d's variables changed while the turn was handed to him: %r -> %r" %
                                      (opdesc, j + 1, sorted(x for x in was.items() if now.get(x[0]) != x[1]),
                                       sorted(x for x in now.items() if was.get(x[0]) != x[1]))})
        # ---- achievement group: its operations read the CURRENT player's records only
        if st["ingame"] and st["mode"] and st["g"] and st["g"]["gach"] is not None and st["cur"] < len(st["players"]):
            d = dict(st["players"][st["cur"]]).get("achievements")
            held = None if not d or d[0] != "d" else [dict(d[1]).get(a) for a in G_ACHS]
            if held != st["g"]["gach"]:
                fails.append({"sig": "achievement-bound-to-wrong-player",
                              "what": "%s: achievements read %r, current player %d holds %r" %
                                      (opdesc, st["g"]["gach"], st["cur"] + 1, held)})
        if op[0] == "post" and op[1] in ("ev_agrp_rotr", "ev_agrp_rotl") and cur_ok and prev["g"] and \
                prev["g"]["gach"] is not None and st["g"]["gach"] is not None:
            had = [r_[1] for r_ in prev["g"]["gach"]]
            if not any(had) and not g["auto_select"] and st["g"]["gach"] != prev["g"]["gach"]:
                fails.append({"sig": "group-selection-not-current-player",
                              "what": "%s: player %d has nothing selected and auto_select is off, yet the rotate request "
                                      "changed his achievements %r -> %r" %
                                      (opdesc, st["cur"] + 1, prev["g"]["gach"], st["g"]["gach"])})
        prev = st
    seen, res = set(), []
    for f in fails:
        if f["sig"] not in seen:
            seen.add(f["sig"])
            res.append(f)
    return res


def rotation_flag_defect(case, out, k, dev, attr, was, now):
    """the recorded defect and nothing else: AchievementGroup._rotation_in_progress False -> True, and before step k a
    rotate / select request of the group (disable_random: select = rotate_right) arrived while none of the current
    player's members could be selected (rotate_right's early return)"""
    if not (dev == "AchievementGroup.agrp" and attr == "_rotation_in_progress" and was == "False" and now == "True"):
        return False
    for n, st in enumerate(out["steps"][:k]):
        op = case["ops"][n]
        if op[0] == "post" and op[1] in ("ev_agrp_rotr", "ev_agrp_rotl", "ev_agrp_sel") and st["g"] and \
                st["g"]["gach"] is not None and not any(r_[0] in ("enabled", "stopped") for r_ in st["g"]["gach"]):
            return True
    return False


def nontrivial_g(case, out):
    """two players; a ball with pattern rotations that stopped at a position whose direction differs from the first
    entry was followed by a ball (of another player) with pattern rotations; >= 2 entries were queued at a drain that
    handed the turn over; the group had a selected member when a turn ended"""
    g = case["cfg"]["g"]
    pos = 0
    stopped_off = rot_after = sq2 = sel_end = False
    prev = None
    for k, st in enumerate(out["steps"]):
        op = case["ops"][k]
        if prev is not None and prev["ingame"] and st["ingame"] and st["cur"] != prev["cur"]:
            if pos and g["pattern"][pos % len(g["pattern"])] != g["pattern"][0]:
                stopped_off = True
            pos = 0
            if op[0] == "sq" and len(op[1]) >= 2:
                sq2 = True
            if prev["g"] and prev["g"]["agrp"][1]:
                sel_end = True
        elif op == ["post", "ev_grp_rot"] and prev is not None and prev["ingame"] and \
                member_states(prev["players"][prev["cur"]]) != member_states(st["players"][st["cur"]]):
            pos += 1
            if stopped_off:
                rot_after = True
        prev = st
    if case.get("_why") is not None:
        case["_why"].append([stopped_off, rot_after, sq2, sel_end])
    return stopped_off and rot_after and sq2


def describe_g(case):
    n = len(case["ops"])
    return "ops=%s maxp=%d bpg=%d pattern=%d" % ("<=25" if n <= 25 else "<=40" if n <= 40 else ">40", case["cfg"]["maxp"],
                                                  case["cfg"]["bpg"], len(case["cfg"]["g"]["pattern"]))
