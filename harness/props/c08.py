"""C08 translator (T): mpf/devices/driver.py -> coq/C08/gen/Driver.v, and the hw_driver call-site list ->
coq/C08/gen/Sites.v.  Fail closed: anything outside the supported subset raises Unsupported, which the check
reports as a broken tie (obligation translate:<file>:<function>).

Supported subset (exactly what the four get_and_verify_* methods use):
  statements  docstring | assert self.<attr> is not None | name = expr | if/elif/else | raise Exc(...) | return expr
  tests       comparisons incl. chained ones (a op b op c  ==  a op b and b op c, b pure), is None / is not None,
              and / or / not, isinstance(x, int), truthiness of a value expression
  values      names, None/int/float/bool constants, self.config['key'], self._pulse_ms, self._timed_enable_ms,
              self.platform.features['max_pulse'], x if <total test> else y
The translation is continuation-passing: `if` statements that assign become
  let k := fun v1 .. vn => <rest> in ifT <test> (<body>; k v1 .. vn) (<orelse>; k v1 .. vn).
"""
import ast
import math
import os

from vlib import Suite, coqlist, blit, opt, zlit

VERIFY_FUNCS = ["get_and_verify_pulse_power", "get_and_verify_hold_power", "get_and_verify_pulse_ms",
                "get_and_verify_timed_enable_ms"]
CONFIG_FIELDS = {"allow_enable", "default_pulse_power", "default_hold_power", "max_pulse_ms", "max_pulse_power",
                 "max_hold_power", "max_hold_duration", "pulse_with_timed_enable"}
SELF_ATTRS = {"_pulse_ms": "st_pulse_ms", "_timed_enable_ms": "st_timed_enable_ms"}
EXC = {"AssertionError": "EAssert", "DriverLimitsError": "ELimits"}
CMP = {ast.Gt: "Gt", ast.Lt: "Lt", ast.GtE: "Ge", ast.LtE: "Le", ast.Eq: "Eq"}


class Unsupported(Exception):
    pass


def _bad(fn, node, why):
    raise Unsupported("translate:mpf/devices/driver.py:%s line %s: %s (%s)" %
                      (fn, getattr(node, "lineno", "?"), why, ast.dump(node)[:120]))


class FnTranslator:
    def __init__(self, fn):
        self.fn = fn
        self.name = fn.name
        self.kcount = 0

    # ---- values ------------------------------------------------------------------------------------
    def is_self(self, n, attr=None):
        return isinstance(n, ast.Attribute) and isinstance(n.value, ast.Name) and n.value.id == "self" and \
            (attr is None or n.attr == attr)

    def ev(self, e, scope):
        if isinstance(e, ast.Name):
            if e.id not in scope:
                _bad(self.name, e, "name not bound on every path")
            return "v_" + e.id
        if isinstance(e, ast.Constant):
            v = e.value
            if v is None:
                return "PNone"
            if isinstance(v, bool):
                return "(PInt %d)" % int(v)
            if isinstance(v, int):
                return "(PInt %s)" % (str(v) if v >= 0 else "(%d)" % v)
            if isinstance(v, float) and v == v and abs(v) != float("inf"):
                n, d = v.as_integer_ratio()
                return "(PFloat (Fin (%s # %d)))" % (str(n) if n >= 0 else "(%d)" % n, d)
            _bad(self.name, e, "constant")
        if isinstance(e, ast.Subscript):
            key = e.slice
            if isinstance(key, ast.Constant) and isinstance(key.value, str):
                if self.is_self(e.value, "config"):
                    if key.value not in CONFIG_FIELDS:
                        _bad(self.name, e, "config key not in the modelled record")
                    return "(cfg_%s c)" % key.value
                b = e.value
                if isinstance(b, ast.Attribute) and b.attr == "features" and self.is_self(b.value, "platform") \
                        and key.value == "max_pulse":
                    return "(plat_max_pulse c)"
            _bad(self.name, e, "subscript")
        if self.is_self(e) and e.attr in SELF_ATTRS:
            return "(%s c)" % SELF_ATTRS[e.attr]
        if isinstance(e, ast.IfExp):
            return "(if %s then %s else %s)" % (self.tb(e.test, scope), self.ev(e.body, scope), self.ev(e.orelse, scope))
        _bad(self.name, e, "value expression")

    # total tests (cannot raise): used in conditional expressions
    def tb(self, e, scope):
        if isinstance(e, ast.Compare) and len(e.ops) == 1 and isinstance(e.comparators[0], ast.Constant) and \
                e.comparators[0].value is None:
            if isinstance(e.ops[0], ast.Is):
                return "(is_none %s)" % self.ev(e.left, scope)
            if isinstance(e.ops[0], ast.IsNot):
                return "(negb (is_none %s))" % self.ev(e.left, scope)
        if isinstance(e, ast.UnaryOp) and isinstance(e.op, ast.Not):
            return "(negb %s)" % self.tb(e.operand, scope)
        if isinstance(e, ast.BoolOp):
            op = "&&" if isinstance(e.op, ast.And) else "||"
            return "(" + (" %s " % op).join(self.tb(x, scope) for x in e.values) + ")"
        if isinstance(e, (ast.Compare, ast.Call)):
            _bad(self.name, e, "test of a conditional expression may raise")
        return "(truthy %s)" % self.ev(e, scope)

    # tests that may raise TypeError: tst = option bool
    def tt(self, e, scope):
        if isinstance(e, ast.Compare):
            parts = []
            left = e.left
            for op, right in zip(e.ops, e.comparators):
                if isinstance(op, (ast.Is, ast.IsNot)):
                    if not (isinstance(right, ast.Constant) and right.value is None):
                        _bad(self.name, e, "is / is not with something other than None")
                    parts.append("(%s %s)" % ("t_isnone" if isinstance(op, ast.Is) else "t_isnotnone",
                                              self.ev(left, scope)))
                elif type(op) in CMP:
                    parts.append("(t_cmp %s %s %s)" % (CMP[type(op)], self.ev(left, scope), self.ev(right, scope)))
                else:
                    _bad(self.name, e, "comparison operator")
                left = right
            out = parts[-1]
            for p in reversed(parts[:-1]):          # a op b op c: literally (a op b) and (b op c)
                out = "(t_and %s %s)" % (p, out)
            return out
        if isinstance(e, ast.BoolOp):
            f = "t_and" if isinstance(e.op, ast.And) else "t_or"
            vals = [self.tt(x, scope) for x in e.values]
            out = vals[-1]
            for p in reversed(vals[:-1]):
                out = "(%s %s %s)" % (f, p, out)
            return out
        if isinstance(e, ast.UnaryOp) and isinstance(e.op, ast.Not):
            return "(t_not %s)" % self.tt(e.operand, scope)
        if isinstance(e, ast.Call):
            if isinstance(e.func, ast.Name) and e.func.id == "isinstance" and len(e.args) == 2 and \
                    isinstance(e.args[1], ast.Name) and e.args[1].id == "int" and not e.keywords:
                return "(t_isint %s)" % self.ev(e.args[0], scope)
            _bad(self.name, e, "call in a test")
        return "(t_truthy %s)" % self.ev(e, scope)

    # ---- statements ----------------------------------------------------------------------------------
    def assigned(self, stmts):
        out = []
        for s in stmts:
            if isinstance(s, ast.Assign):
                for t in s.targets:
                    if isinstance(t, ast.Name) and t.id not in out:
                        out.append(t.id)
            elif isinstance(s, ast.If):
                for n in self.assigned(s.body) + self.assigned(s.orelse):
                    if n not in out:
                        out.append(n)
        return out

    def tr(self, stmts, scope, tail, ind):
        pad = "  " * ind
        if not stmts:
            if tail is None:
                _bad(self.name, self.fn, "function can fall off its end (returns None)")
            return pad + tail
        s, rest = stmts[0], stmts[1:]
        if isinstance(s, ast.Expr) and isinstance(s.value, ast.Constant) and isinstance(s.value.value, str):
            return self.tr(rest, scope, tail, ind)
        if isinstance(s, ast.Assert):
            t = s.test
            if isinstance(t, ast.Compare) and len(t.ops) == 1 and isinstance(t.ops[0], ast.IsNot) and \
                    isinstance(t.comparators[0], ast.Constant) and t.comparators[0].value is None and \
                    self.is_self(t.left) and t.left.attr in ("platform", "hw_driver"):
                return self.tr(rest, scope, tail, ind)      # model invariant: the device is initialised
            _bad(self.name, s, "assert")
        if isinstance(s, ast.Assign):
            if len(s.targets) != 1 or not isinstance(s.targets[0], ast.Name):
                _bad(self.name, s, "assignment target")
            n = s.targets[0].id
            val = self.ev(s.value, scope)
            return pad + "let v_%s := %s in\n" % (n, val) + self.tr(rest, scope | {n}, tail, ind)
        if isinstance(s, ast.Return):
            if s.value is None:
                _bad(self.name, s, "bare return")
            return pad + "Ok %s" % self.ev(s.value, scope)
        if isinstance(s, ast.Raise):
            return pad + "Err %s" % self.exc(s)
        if isinstance(s, ast.If):
            vs = self.assigned([s])
            for v in vs:
                if v not in scope:
                    _bad(self.name, s, "variable %s assigned under a condition before it is bound" % v)
            self.kcount += 1
            k = "k%d" % self.kcount
            call = " ".join([k] + ["v_" + v for v in vs])
            if vs:
                kdef = "fun %s =>\n" % " ".join("(v_%s : pyval)" % v for v in vs)
            else:
                kdef = "\n"
            body_rest = self.tr(rest, scope, tail, ind + 1)
            test = self.tt(s.test, scope)
            a = self.tr(s.body, scope, call, ind + 1)
            b = self.tr(s.orelse, scope, call, ind + 1)
            return (pad + "let %s := %s%s in\n" % (k, kdef, body_rest) +
                    pad + "ifT %s\n%s(\n%s)\n%s(\n%s)" % (test, pad, a, pad, b))
        _bad(self.name, s, "statement")

    def exc(self, s):
        e = s.exc
        if isinstance(e, ast.Call) and isinstance(e.func, ast.Name) and e.func.id in EXC and s.cause is None:
            return EXC[e.func.id]
        _bad(self.name, s, "raise")

    def translate(self):
        args = self.fn.args
        if args.vararg or args.kwarg or args.kwonlyargs or args.posonlyargs or args.defaults:
            _bad(self.name, self.fn, "signature")
        names = [a.arg for a in args.args]
        if len(names) != 2 or names[0] != "self":
            _bad(self.name, self.fn, "signature (expected (self, x))")
        if self.fn.decorator_list:
            _bad(self.name, self.fn, "decorators")
        p = names[1]
        body = self.tr(self.fn.body, {p}, None, 1)
        return "Definition %s (c : cfg) (v_%s : pyval) : res pyval :=\n%s.\n" % (self.name, p, body)


def translate_driver(repo, gendir):
    path = os.path.join(repo, "mpf", "devices", "driver.py")
    tree = ast.parse(open(path).read())
    cls = [n for n in tree.body if isinstance(n, ast.ClassDef) and n.name == "Driver"]
    if len(cls) != 1:
        raise Unsupported("translate:mpf/devices/driver.py:Driver class not found")
    fns = {n.name: n for n in cls[0].body if isinstance(n, ast.FunctionDef)}
    out = ["(* GENERATED by harness/props/c08.py from mpf/devices/driver.py on every run. Do not edit. *)",
           "From Common Require Import Prelude.", "From Coq Require Import QArith.", "From C08 Require Import Py.",
           "Open Scope Z_scope.", ""]
    for f in VERIFY_FUNCS:
        if f not in fns:
            raise Unsupported("translate:mpf/devices/driver.py:%s missing" % f)
        out.append(FnTranslator(fns[f]).translate())
    os.makedirs(gendir, exist_ok=True)
    _write_if_changed(os.path.join(gendir, "Driver.v"), "\n".join(out))


# --------------------------------------------------------------------------------------------------------
# call sites of the platform driver interface
ACT = ("pulse", "enable", "timed_enable")
API_FILES = (os.path.join("mpf", "config_players", "coil_player.py"),
             os.path.join("mpf", "platforms", "driver_light_platform.py"))


def scan_sites(repo):
    """Where non-test mpf code touches the platform driver interface.

    returns sorted list of (file, class, function, kind), kind in
      call:<method>      <x>.hw_driver.<method>(...) for method in pulse / enable / timed_enable
      escape             the hw driver object (or one of its bound actuation methods) is used as a value: aliased,
                         passed on, stored elsewhere  (only outside mpf/platforms: platform code handles its own
                         driver objects and receives DriverSettings that were verified above the interface)
      configure_driver   <x>.configure_driver(...) outside mpf/platforms: where hw driver objects are created
      set:<attr>         assignment to <x>._pulse_ms / <x>._timed_enable_ms outside mpf/platforms: where the (unverified)
                         runtime defaults of a Driver are written (the model lets them take any value at any time)
      api:<method>       calls of pulse/enable/timed_enable/disable in coil_player.py and driver_light_platform.py: the
                         further entry points, which must stay on the public (verifying) Driver API
    """
    sites = []
    root = os.path.join(repo, "mpf")
    for dp, dn, fn in os.walk(root):
        dn[:] = sorted(d for d in dn if d not in ("tests", "__pycache__"))
        for f in sorted(fn):
            if not f.endswith(".py"):
                continue
            p = os.path.join(dp, f)
            rel = os.path.relpath(p, repo)
            in_platforms = rel.startswith(os.path.join("mpf", "platforms") + os.sep)
            try:
                tree = ast.parse(open(p, encoding="utf-8").read())
            except SyntaxError as e:
                raise Unsupported("translate:%s: does not parse: %s" % (rel, e))
            parents = {}
            for node in ast.walk(tree):
                for ch in ast.iter_child_nodes(node):
                    parents[ch] = node

            def where(node):
                cls, fun = "", ""
                q = node
                while q in parents:
                    q = parents[q]
                    if isinstance(q, (ast.FunctionDef, ast.AsyncFunctionDef)) and not fun:
                        fun = q.name
                    if isinstance(q, ast.ClassDef) and not cls:
                        cls = q.name
                return cls, fun

            for node in ast.walk(tree):
                if isinstance(node, ast.Call) and isinstance(node.func, ast.Attribute) and \
                        node.func.attr == "configure_driver" and not in_platforms:
                    sites.append((rel,) + where(node) + ("configure_driver",))
                # where the unverified defaults are written (runtime placeholders) ...
                if isinstance(node, ast.Attribute) and node.attr in ("_pulse_ms", "_timed_enable_ms") and \
                        isinstance(node.ctx, (ast.Store, ast.Del)) and not in_platforms:
                    sites.append((rel,) + where(node) + ("set:" + node.attr,))
                # ... and how the further entry points (coil_player, lights on drivers) use the Driver API
                if rel in API_FILES and isinstance(node, ast.Call) and isinstance(node.func, ast.Attribute) and \
                        node.func.attr in ACT + ("disable",):
                    sites.append((rel,) + where(node) + ("api:" + node.func.attr,))
                if not (isinstance(node, ast.Attribute) and node.attr == "hw_driver"):
                    continue
                par = parents.get(node)
                kind = None
                if isinstance(node.ctx, (ast.Store, ast.Del)):
                    kind = None
                elif isinstance(par, ast.Attribute) and par.value is node:
                    gp = parents.get(par)
                    if par.attr in ACT:
                        kind = "call:" + par.attr if (isinstance(gp, ast.Call) and gp.func is par) else "escape"
                elif isinstance(par, ast.Compare) and all(isinstance(o, (ast.Is, ast.IsNot)) for o in par.ops):
                    kind = None
                elif not in_platforms:
                    kind = "escape"
                if kind:
                    sites.append((rel,) + where(node) + (kind,))
    return sorted(set(sites))


def coq_string(s):
    return '"' + s.replace('"', '""') + '"'


def translate_sites(repo, gendir):
    sites = scan_sites(repo)
    lines = ["(* GENERATED by harness/props/c08.py: every access to `.hw_driver` in non-test mpf code. *)",
             "From Coq Require Import String List.", "Import ListNotations.", "Open Scope string_scope.", "",
             "(* (file, class, function, kind) *)",
             "Definition sites : list (string * string * string * string) := ["]
    lines.append(";\n".join("  (%s, %s, %s, %s)" % tuple(coq_string(x) for x in s) for s in sites))
    lines.append("].")
    os.makedirs(gendir, exist_ok=True)
    _write_if_changed(os.path.join(gendir, "Sites.v"), "\n".join(lines) + "\n")
    return sites


def _write_if_changed(path, text):
    try:
        if open(path).read() == text:
            return
    except OSError:
        pass
    with open(path, "w") as f:
        f.write(text)


def translate(repo, gendir):
    translate_driver(repo, gendir)
    translate_sites(repo, gendir)



# =========================================================================================================
# the check
ID = "C08"
READY = True
RULE = ("call: one request per case on a real Driver of a booted machine (virtual platform, recording proxy around "
        "hw_driver and the coil's DelayManager): entry point drawn from pulse/enable/timed_enable/disable, their "
        "control-event handlers (with extra junk kwargs), CoilPlayer.play (pulse/enable), Flipper.sw_flip, "
        "PlatformController.set_pulse_on_hit_rule / set_pulse_on_hit_and_enable_and_release_rule, and the PSU-delayed "
        "pulse; coil config drawn from the validated ranges (limits unset / at boundary / fractional); arguments from "
        "None, in-range, exactly-at-limit, just above, 0, negative, NaN, +-inf, bool, 10**6, arbitrary floats, a few "
        "strings. Non-trivial = at least one explicit argument or one configured limit. "
        "verify: the four get_and_verify_* on their own (defaults computed at initialisation). "
        "timer: 3-12 timed requests (software pulses, hardware pulses, enable, disable, waits) on one coil with/without "
        "max_hold_duration, request times = 1 mod 4 ms and durations = 2 mod 4 ms so that no request coincides with a "
        "deadline; non-trivial = a timer fires between two requests. "
        "hist: whole histories (2-14 timed requests) on one coil of the booted machine, every request with arbitrary "
        "(also refusable) arguments through its flavours (direct call, control-event handler with junk kwargs, "
        "CoilPlayer.play pulse/enable/disable, Flipper.sw_flip, DriverLight.set_brightness of a light on the drivers "
        "platform, timed_enable, hardware rules), pulses/enables with max_wait_ms while the PSU is busy with another "
        "coil (deferred _pulse_now/_enable_now), default_pulse_ms/default_timed_enable_ms re-evaluated through the real "
        "machine-variable placeholder path or set directly; 55% of the histories start with a race (software-timed "
        "pulse / watchdog / deferred call pending, 1-3 further requests inside that window). Recorded: every call on "
        "hw_driver and every operation on the coil's DelayManager with its instant. Histories in which two deadlines "
        "(or a deadline and a request) coincide are evaluated by the oracle only (~2%, counted as not validated). "
        "non-trivial = a request was refused or a delay fired between two requests")
TRUSTED_BASE = [
    "Coq 8.16.1 kernel (coqc), vm_compute for the call-site list and for evaluating the model in the correspondence run",
    "axioms: none (every Print Assumptions is 'Closed under the global context')",
    "translator harness/props/c08.py (Python ast -> Gallina, fail-closed subset) for Driver.get_and_verify_*; its output "
    "is validated against the real methods on every run (suites verify and call)",
    "hand-written model of pulse/_pulse_now/enable/_enable_now/timed_enable/disable, of the rule-settings helpers, of "
    "DriverLight.set_brightness, of the coil's DelayManager (two named delays + anonymous deferred calls) and of the "
    "clock (Hist.v), tied by correspondence on every run (suites call, timer, hist: effects with their instants)",
    "the power-supply unit is NOT modelled: its answer (wait_ms) is an input of every request, observed on the "
    "implementation and universally quantified in the theorems",
    "CPython float/int comparison semantics (modelled: exact rationals + NaN, bool as int); DelayManager/asyncio clock "
    "(modelled as two named deadlines on integer milliseconds)",
    "the AST scan for hw_driver call sites (attribute name based: an alias stored under another attribute name and "
    "called through it is only caught at the point where the hw driver object escapes)",
]
ASSUMPTIONS = [
    "coil configs pass MPF's config validation (powers in [0,1] or None, max_pulse_ms non-negative int or None, "
    "max_hold_duration non-negative seconds or None); a limit of 0 is read by the code as 'not configured'",
    "+-inf and str arguments are checked by the oracle only (not representable in the model)",
    "max_hold_duration on a 1/8 s grid so that `* 1000` is exact in floating point; request instants and delays on "
    "whole milliseconds (instants compared after rounding to 1 ms)",
    "equal deadlines: the theorems cover both orders; the correspondence run skips such histories (asyncio gives no order)",
    "a PSU-deferred enable is not cancelled by a later disable() (behaviour of the code as it is; modelled, see NOTES.md)",
    "platform drivers (mpf/platforms/*) execute the PulseSettings/HoldSettings they are given; digital outputs are "
    "not coils and have no configured limits",
]

CFG_KEYS = ["allow_enable", "default_pulse_power", "default_hold_power", "max_pulse_ms", "max_pulse_power",
            "max_hold_power", "max_hold_duration", "pulse_with_timed_enable"]


# ---- values ------------------------------------------------------------------------------------------
def tagv(v):
    if v is None:
        return None
    if isinstance(v, bool):
        return ["b", v]
    if isinstance(v, int):
        return ["i", str(v)]
    if isinstance(v, float):
        return ["f", repr(v)]
    if isinstance(v, str):
        return ["s", v]
    return ["?", repr(v)]


def untag(t):
    if t is None:
        return None
    k = t[0]
    if k == "b":
        return bool(t[1])
    if k == "i":
        return int(t[1])
    if k == "f":
        return float(t[1])
    if k == "s":
        return t[1]
    raise ValueError(t)


def representable(t):
    if t is None:
        return True
    if t[0] in ("b", "i"):
        return True
    if t[0] == "f":
        f = float(t[1])
        return not math.isinf(f)
    return False


def cv(t):
    """tagged value -> Gallina pyval"""
    if t is None:
        return "PNone"
    k = t[0]
    if k == "b":
        return "(PInt %d)" % int(bool(t[1]))
    if k == "i":
        return "(PInt %s)" % zlit(int(t[1]))
    if k == "f":
        f = float(t[1])
        if f != f:
            return "(PFloat NaN)"
        n, d = f.as_integer_ratio()
        return "(PFloat (Fin (%s # %d)))" % (zlit(n), d)
    raise ValueError(t)


# ---- generators ----------------------------------------------------------------------------------------
POW = [0.0, 0.125, 0.25, 0.375, 0.5, 0.75, 1.0]


def gen_cfg(rng):
    def mp(p_none):
        return None if rng.random() < p_none else rng.choice(POW[1:] + [rng.choice([0.1, 0.3, 1 / 3, 0.9999999])])
    cfg = {
        "allow_enable": rng.random() < 0.5,
        "default_pulse_power": mp(0.6),
        "default_hold_power": mp(0.6),
        "max_pulse_ms": None if rng.random() < 0.45 else rng.choice([1, 10, 30, 100, 255, 256, 1000]),
        "max_pulse_power": 1.0 if rng.random() < 0.4 else mp(0.05),
        "max_hold_power": mp(0.55),
        "max_hold_duration": None if rng.random() < 0.6 else rng.choice([0.125, 0.25, 1.0, 2.0, 2.5]),
        "pulse_with_timed_enable": rng.random() < 0.12,
        "_pulse_ms": rng.choice([10, 10, 20, 0, 255, 300, 30]),
        "_timed_enable_ms": rng.choice([0, 0, 1, 2, 100]),
        "plat_max_pulse": rng.choice([255, 255, 255, 100, 25]),
    }
    # keep the defaults consistent with the limits most of the time (a machine with default > max does not boot)
    if rng.random() < 0.85:
        if cfg["max_pulse_power"] and cfg["default_pulse_power"] and cfg["default_pulse_power"] > cfg["max_pulse_power"]:
            cfg["default_pulse_power"] = cfg["max_pulse_power"]
        if cfg["max_hold_power"] and cfg["default_hold_power"] and cfg["default_hold_power"] > cfg["max_hold_power"]:
            cfg["default_hold_power"] = cfg["max_hold_power"]
        if cfg["max_pulse_ms"] and cfg["_pulse_ms"] > cfg["max_pulse_ms"]:
            cfg["_pulse_ms"] = cfg["max_pulse_ms"]
    return {k: tagv(v) for k, v in cfg.items()}


def gen_power(rng, lim):
    r = rng.random()
    if r < 0.25:
        return None
    if r < 0.45:
        return rng.choice(POW)
    if r < 0.60 and lim:
        return rng.choice([lim, lim, math.nextafter(lim, 2.0), math.nextafter(lim, 0.0), lim / 2, lim + 0.125])
    if r < 0.80:
        return rng.choice([-0.5, -1.0, -0.0, -1e-300, float("nan"), float("inf"), float("-inf"), 1.0000001, 1.5, 2.5,
                           10 ** 6, -1, 1, 0, True, False])
    if r < 0.97:
        return rng.uniform(-0.5, 1.5)
    return rng.choice(["0.5", "", "nan"])


def gen_ms(rng, lim, plat):
    r = rng.random()
    if r < 0.25:
        return None
    if r < 0.45:
        return rng.choice([1, 5, 10, 20, 30, 100, 255])
    if r < 0.60 and lim:
        return rng.choice([lim, lim, lim + 1, lim - 1])
    if r < 0.70:
        return rng.choice([plat, plat + 1, plat - 1, 256, 500, 1000, 3000])
    if r < 0.90:
        return rng.choice([0, -1, -5, -255, -10 ** 6, 10 ** 6, True, False, 2.5, 10.0, float("nan"), -0.5])
    if r < 0.97:
        return rng.randint(-50, 400)
    return rng.choice(["20", ""])


ENTRIES = ["pulse", "pulse", "event_pulse", "player_pulse", "psu_pulse", "enable", "enable", "event_enable",
           "player_enable", "sw_flip", "timed_enable", "timed_enable", "event_timed_enable", "disable", "rule_no_hold",
           "rule_with_hold"]


def gen_call(rng, tier, i):
    cfg = gen_cfg(rng)
    c = {k: untag(v) for k, v in cfg.items()}
    entry = rng.choice(ENTRIES)
    a = {}
    if entry in ("pulse", "event_pulse", "player_pulse", "psu_pulse"):
        a = {"pulse_ms": gen_ms(rng, c["max_pulse_ms"], c["plat_max_pulse"]), "pulse_power": gen_power(rng, c["max_pulse_power"])}
    elif entry in ("enable", "event_enable", "player_enable"):
        a = {"pulse_ms": gen_ms(rng, c["max_pulse_ms"], c["plat_max_pulse"]), "pulse_power": gen_power(rng, c["max_pulse_power"]),
             "hold_power": gen_power(rng, c["max_hold_power"])}
    elif entry in ("timed_enable", "event_timed_enable"):
        mhd = c["max_hold_duration"]
        te = gen_ms(rng, int(mhd * 1000) if mhd else None, 255)
        if mhd and rng.random() < 0.3:
            te = rng.choice([int(mhd), int(mhd) + 1, 1, 2, 3])
        a = {"timed_enable_ms": te, "hold_power": gen_power(rng, c["max_hold_power"]),
             "pulse_ms": gen_ms(rng, c["max_pulse_ms"], 255), "pulse_power": gen_power(rng, c["max_pulse_power"])}
    elif entry == "rule_no_hold":
        if rng.random() < 0.8:
            a = {"pulse_ms": gen_ms(rng, c["max_pulse_ms"], 255), "pulse_power": gen_power(rng, c["max_pulse_power"])}
            a["has_pulse"] = True
    elif entry == "rule_with_hold":
        if rng.random() < 0.8:
            a = {"pulse_ms": gen_ms(rng, c["max_pulse_ms"], 255), "pulse_power": gen_power(rng, c["max_pulse_power"])}
            a["has_pulse"] = True
        if rng.random() < 0.8:
            a["hold_power"] = gen_power(rng, c["max_hold_power"])
            a["has_hold"] = True
    # strings only where they cannot be mistaken for numbers by the model
    args = {k: (v if k.startswith("has_") else tagv(v)) for k, v in a.items()}
    return {"cfg": cfg, "entry": entry, "args": args}


# ---- implementation runner ---------------------------------------------------------------------------------
_R = {}


class _TLog(list):
    """the log of one coil; every entry is stamped with the machine clock (parallel list .times)"""

    def __init__(self):
        super().__init__()
        self.times = []
        self.clock = None

    def append(self, x):
        self.times.append(self.clock() if self.clock else 0.0)
        super().append(x)

    def wipe(self):
        del self[:]
        del self.times[:]


def _tie_check():
    """two pending delays of the coil (or a delay and the present instant) closer than 0.4 ms: asyncio does not
    promise an order, the history is then not compared with the model (oracle only)"""
    R = _R
    if "real_delay" not in R:
        return
    try:
        now = R["m"].clock.get_time()
        ws = sorted(d[0].when() for d in R["real_delay"].delays.values())
    except Exception:   # noqa
        return
    if any(b - a < 4e-4 for a, b in zip(ws, ws[1:])) or any(abs(w - now) < 4e-4 for w in ws):
        R["tie"] = True


class _HwProxy:
    """Recording stand-in for the platform driver: logs what reaches the interface, forwards to the real one."""

    def __init__(self, real, log):
        self._real = real
        self._log = log
        self.number = real.number
        self.config = real.config

    def pulse(self, pulse_settings):
        self._log.append(["pulse", tagv(pulse_settings.power), tagv(pulse_settings.duration)])
        return self._real.pulse(pulse_settings)

    def enable(self, pulse_settings, hold_settings):
        self._log.append(["enable", tagv(pulse_settings.power), tagv(pulse_settings.duration),
                          tagv(hold_settings.power), tagv(hold_settings.duration)])
        return self._real.enable(pulse_settings, hold_settings)

    def timed_enable(self, pulse_settings, hold_settings):
        self._log.append(["timed_enable", tagv(pulse_settings.power), tagv(pulse_settings.duration),
                          tagv(hold_settings.power), tagv(hold_settings.duration)])
        return self._real.timed_enable(pulse_settings, hold_settings)

    def disable(self):
        self._log.append(["disable"])
        return self._real.disable()

    def get_board_name(self):
        return self._real.get_board_name()

    def __getattr__(self, n):
        return getattr(self._real, n)


class _DelayProxy:
    def __init__(self, real, log):
        self._real = real
        self._log = log

    def reset(self, ms, callback, name, **kwargs):
        self._log.append(["delay_reset", name, tagv(ms), getattr(callback, "__name__", "?")])
        try:
            return self._real.reset(ms, callback, name, **kwargs)
        finally:
            _tie_check()

    def add_if_doesnt_exist(self, ms, callback, name, **kwargs):
        self._log.append(["delay_add_if_absent", name, tagv(ms), getattr(callback, "__name__", "?")])
        try:
            return self._real.add_if_doesnt_exist(ms, callback, name, **kwargs)
        finally:
            _tie_check()

    def remove(self, name):
        self._log.append(["delay_remove", name])
        return self._real.remove(name)

    def add(self, ms, callback, name=None, **kwargs):
        self._log.append(["delay_add", getattr(callback, "__name__", "?"), tagv(ms), tagv(name)])
        try:
            return self._real.add(ms, callback, name, **kwargs)
        finally:
            _tie_check()

    def __getattr__(self, n):
        return getattr(self._real, n)


def _boot():
    if "rig" in _R:
        return _R
    import logging
    logging.disable(logging.CRITICAL)
    from rig import Rig
    cfg = {
        "switches": {"s_test": {"number": "1"}, "s_other": {"number": "2"}},
        "coils": {"c_test": {"number": "1", "allow_enable": True, "default_pulse_ms": "machine.c08_pms",
                             "default_timed_enable_ms": "machine.c08_tems"}, "c_other": {"number": "2"}},
        "flippers": {"f_test": {"main_coil": "c_test", "activation_switch": "s_test"}},
        "lights": {"l_test": {"number": "c_test", "platform": "drivers", "subtype": "matrix"}},
        "machine_vars": {"c08_pms": {"initial_value": 10, "value_type": "int"},
                         "c08_tems": {"initial_value": 0, "value_type": "int"}},
    }
    r = Rig(cfg).start()
    m = r.machine
    coil = m.coils["c_test"]
    log = _TLog()
    log.clock = m.clock.get_time
    real_hw = coil.hw_driver
    coil.hw_driver = _HwProxy(real_hw, log)
    real_delay = coil.delay
    coil.delay = _DelayProxy(real_delay, log)
    plat = coil.platform
    rules = []
    for name in ("set_pulse_on_hit_rule", "set_pulse_on_hit_and_enable_and_release_rule"):
        def mk(name, orig):
            def rec(enable_switch, coil_settings, *a, **k):
                log.append(["rule", name, tagv(coil_settings.pulse_settings.power),
                            tagv(coil_settings.pulse_settings.duration),
                            None if coil_settings.hold_settings is None else ["h", tagv(coil_settings.hold_settings.power)]])
                return orig(enable_switch, coil_settings, *a, **k)
            return rec
        setattr(plat, name, mk(name, getattr(plat, name)))
    _R.update(rig=r, m=m, coil=coil, log=log, real_hw=real_hw, real_delay=real_delay, plat=plat,
              orig_features=dict(plat.features), orig_cfg={k: coil.config[k] for k in CFG_KEYS})
    return _R


def _apply_cfg(R, cfg):
    coil = R["coil"]
    c = {k: untag(v) for k, v in cfg.items()}
    for k in CFG_KEYS:
        coil.config[k] = c[k]
    coil._pulse_ms = c["_pulse_ms"]
    coil._timed_enable_ms = c["_timed_enable_ms"]
    R["plat"].features["max_pulse"] = c["plat_max_pulse"]
    return c


def _reset(R):
    coil = R["coil"]
    R["real_delay"].clear()
    R["real_hw"].disable()
    for psu in R["m"].psus.values():
        psu._busy_until = None
    R["m"].flippers["f_test"]._enabled = False
    R["m"].flippers["f_test"]._sw_flipped = False
    R["log"].wipe()
    R["tie"] = False


def _classify(e):
    from mpf.exceptions.driver_limits_error import DriverLimitsError
    if isinstance(e, DriverLimitsError):
        return "ELimits"
    if isinstance(e, AssertionError):
        return "EAssert"
    if isinstance(e, TypeError):
        return "EType"
    return "Other:" + type(e).__name__


def run_call(case):
    R = _boot()
    _reset(R)
    c = _apply_cfg(R, case["cfg"])
    coil, m, log, r = R["coil"], R["m"], R["log"], R["rig"]
    a = {k: (v if k.startswith("has_") else untag(v)) for k, v in case["args"].items()}
    entry = case["entry"]
    out = {"err": None, "deferred": False}
    broken = False
    try:
        try:
            if entry == "pulse":
                coil.pulse(a["pulse_ms"], a["pulse_power"])
            elif entry == "event_pulse":
                coil.event_pulse(pulse_ms=a["pulse_ms"], pulse_power=a["pulse_power"], junk=1, priority=3)
            elif entry == "player_pulse":
                m.coil_player.play({coil: {"action": "pulse", "pulse_ms": a["pulse_ms"], "pulse_power": a["pulse_power"],
                                           "hold_power": None, "max_wait_ms": None}}, "verif_ctx", "verif")
            elif entry == "psu_pulse":
                m.coils["c_other"].pulse(100)                 # makes the PSU busy for 100 + release_wait ms
                coil.pulse(a["pulse_ms"], a["pulse_power"], max_wait_ms=1000)
            elif entry == "enable":
                coil.enable(a["pulse_ms"], a["pulse_power"], a["hold_power"])
            elif entry == "event_enable":
                coil.event_enable(pulse_ms=a["pulse_ms"], pulse_power=a["pulse_power"], hold_power=a["hold_power"], junk="x")
            elif entry == "player_enable":
                m.coil_player.play({coil: {"action": "enable", "pulse_ms": a["pulse_ms"], "pulse_power": a["pulse_power"],
                                           "hold_power": a["hold_power"], "max_wait_ms": None}}, "verif_ctx", "verif")
            elif entry == "sw_flip":
                m.flippers["f_test"]._enabled = True
                m.flippers["f_test"].sw_flip()
            elif entry == "timed_enable":
                coil.timed_enable(a["timed_enable_ms"], a["hold_power"], a["pulse_ms"], a["pulse_power"])
            elif entry == "event_timed_enable":
                coil.event_timed_enable(timed_enable_ms=a["timed_enable_ms"], hold_power=a["hold_power"],
                                        pulse_ms=a["pulse_ms"], pulse_power=a["pulse_power"], junk=None)
            elif entry == "disable":
                coil.disable()
            elif entry in ("rule_no_hold", "rule_with_hold"):
                from mpf.core.platform_controller import SwitchRuleSettings, DriverRuleSettings, PulseRuleSettings, \
                    HoldRuleSettings
                sw = SwitchRuleSettings(switch=m.switches["s_test"], debounce=False, invert=False)
                dr = DriverRuleSettings(driver=coil, recycle=False)
                ps = PulseRuleSettings(power=a.get("pulse_power"), duration=a.get("pulse_ms")) if a.get("has_pulse") else None
                if entry == "rule_no_hold":
                    rule = m.platform_controller.set_pulse_on_hit_rule(sw, dr, ps)
                else:
                    hs = HoldRuleSettings(power=a.get("hold_power")) if a.get("has_hold") else None
                    rule = m.platform_controller.set_pulse_on_hit_and_enable_and_release_rule(sw, dr, ps, hs)
                m.platform_controller.clear_hw_rule(rule)
            else:
                raise ValueError(entry)
        except Exception as e:   # noqa: what the code raises is data
            out["err"] = _classify(e)
        if any(x[0] == "delay_add" and x[1] == "_pulse_now" for x in log):
            out["deferred"] = True
            try:
                r.advance(0.5)        # the PSU wait is at most 100 + release_wait ms
            except Exception as e:   # noqa
                out["err"] = _classify(e)            # raised inside the delayed _pulse_now
                broken = True         # the rig's event loop is unusable after an exception in a callback
        out["log"] = [list(x) for x in log if x[0] != "delay_add"]
        if out["deferred"]:
            # keep what the delayed _pulse_now did; a short software timer may already have fired during the wait
            cut = [i for i, x in enumerate(out["log"]) if x[0] == "disable"]
            if cut:
                out["log"] = out["log"][:cut[0]]
        # is the coil switched off again when the software timer / the watchdog is due?
        pend = dict(R["real_delay"].delays)
        out["pending"] = sorted(pend)
        out["state_after_call"] = R["real_hw"].state
        if R["real_hw"].state == "enabled" and pend and not broken:
            wait = 0.0
            for x in out["log"]:
                if x[0] in ("delay_reset", "delay_add_if_absent"):
                    ms = untag(x[2])
                    if isinstance(ms, (int, float)) and not isinstance(ms, bool) and ms == ms and abs(ms) < 10 ** 7:
                        wait = max(wait, ms / 1000.0)
            n0 = len(log)
            try:
                r.advance(max(wait, 0.0) + 0.002)
            except Exception as e:   # noqa
                out["err_later"] = _classify(e)
                broken = True
            out["state_when_due"] = R["real_hw"].state
            out["log_when_due"] = [list(x) for x in log[n0:]]
        try:
            m.coil_player.clear_context("verif_ctx")
        except Exception:   # noqa
            pass
    finally:
        try:
            _reset(R)
        except Exception:   # noqa
            pass
        if broken:
            _R.clear()        # next case boots a fresh machine
    return out


# ---- model side ----------------------------------------------------------------------------------------------
def coq_cfg(cfg):
    return ("{| cfg_allow_enable := %s; cfg_default_pulse_power := %s; cfg_default_hold_power := %s; "
            "cfg_max_pulse_ms := %s; cfg_max_pulse_power := %s; cfg_max_hold_power := %s; cfg_max_hold_duration := %s; "
            "cfg_pulse_with_timed_enable := %s; st_pulse_ms := %s; st_timed_enable_ms := %s; plat_max_pulse := %s |}" %
            tuple(cv(cfg[k]) for k in ["allow_enable", "default_pulse_power", "default_hold_power", "max_pulse_ms",
                                       "max_pulse_power", "max_hold_power", "max_hold_duration",
                                       "pulse_with_timed_enable", "_pulse_ms", "_timed_enable_ms", "plat_max_pulse"]))


def coq_req(case):
    e, a = case["entry"], case["args"]
    g = lambda k: cv(a.get(k))   # noqa
    if e in ("pulse", "event_pulse", "player_pulse", "psu_pulse"):
        return "(RPulse %s %s)" % (g("pulse_ms"), g("pulse_power"))
    if e in ("enable", "event_enable", "player_enable"):
        return "(REnable %s %s %s)" % (g("pulse_ms"), g("pulse_power"), g("hold_power"))
    if e == "sw_flip":
        return "(REnable PNone PNone PNone)"
    if e in ("timed_enable", "event_timed_enable"):
        return "(RTimedEnable %s %s %s %s)" % (g("timed_enable_ms"), g("hold_power"), g("pulse_ms"), g("pulse_power"))
    if e == "disable":
        return "RDisable"
    ps = "(Some (%s, %s))" % (g("pulse_power"), g("pulse_ms")) if a.get("has_pulse") else "None"
    if e == "rule_no_hold":
        return "(RRuleNoHold %s)" % ps
    hs = "(Some %s)" % g("hold_power") if a.get("has_hold") else "None"
    return "(RRuleWithHold %s %s)" % (ps, hs)


def coq_eff(x):
    k = x[0]
    if k == "pulse":
        return "(HwPulse %s %s)" % (cv(x[1]), cv(x[2]))
    if k == "enable":
        if x[4] is not None:
            return None
        return "(HwEnable %s %s %s)" % (cv(x[1]), cv(x[2]), cv(x[3]))
    if k == "timed_enable":
        return "(HwTimedEnable %s %s %s %s)" % (cv(x[1]), cv(x[2]), cv(x[3]), cv(x[4]))
    if k == "disable":
        return "HwDisable"
    if k == "delay_reset":
        if x[1] != "timed_disable" or x[3] != "disable":
            return None
        return "(DelayReset %s)" % cv(x[2])
    if k == "delay_add_if_absent":
        if x[1] != "enable_limit_reached" or x[3] != "_enable_limit_reached":
            return None
        return "(DelayAddIfAbsent %s)" % cv(x[2])
    if k == "delay_remove":
        if x[1] != "enable_limit_reached":
            return None
        return "DelayRemoveLimit"
    if k == "rule":
        return "(RuleSettings %s %s %s)" % (cv(x[2]), cv(x[3]), "None" if x[4] is None else "(Some %s)" % cv(x[4][1]))
    return None


def values_of(case):
    return list(case["cfg"].values()) + [v for k, v in case["args"].items() if not k.startswith("has_")]


def coq_call(case, out):
    if not all(representable(v) for v in values_of(case)):
        return None                    # +-inf / str: oracle only
    inp = "(%s, %s)" % (coq_cfg(case["cfg"]), coq_req(case))
    if out["err"] is not None:
        if out["err"] not in ("EAssert", "ELimits", "EType") or out["log"]:
            return "(%s, (@Ok (list eff) [HwDisable; HwDisable; HwDisable]))" % inp    # cannot match: reported
        return "(%s, (@Err (list eff) %s))" % (inp, out["err"])
    log = out["log"]
    if case["entry"] == "psu_pulse":
        log = [x for x in log]        # c_other has its own (unrecorded) driver: nothing to strip
    effs = [coq_eff(x) for x in log]
    if any(e is None for e in effs):
        return "(%s, (@Ok (list eff) [HwDisable; HwDisable; HwDisable]))" % inp
    return "(%s, (@Ok (list eff) %s))" % (inp, coqlist(effs))


HDR_CALL = ("From Coq Require Import QArith.\nFrom C08 Require Import Py Model.\nOpen Scope Z_scope.\n"
            "Definition run := call_run.\nDefinition out_eqb := res_eqb.\n")


# ---- oracle: the property's own predicate on what reached the platform ------------------------------------------
def _isnum(v):
    return isinstance(v, (int, float)) and v == v


def _power_bad(v, lim):
    """is v unacceptable as a power under limit lim (None/0 = not configured)?"""
    if not _isnum(v):
        return True
    if v < 0 or v > 1:
        return True
    return bool(lim) and v > lim


def _dur_bad(v, lim):
    if not isinstance(v, int):
        return True
    if v < 0:
        return True
    return bool(lim) and v > lim


def oracle_call(case, out):
    c = {k: untag(v) for k, v in case["cfg"].items()}
    a = {k: (v if k.startswith("has_") else untag(v)) for k, v in case["args"].items()}
    fails = []

    def bad(sig, what):
        fails.append({"sig": sig, "what": "%s [entry=%s args=%s cfg=%s]" % (what, case["entry"], a,
                                                                           {k: v for k, v in c.items() if v not in (None, False)})})
    holding_allowed = bool(c["allow_enable"]) or bool(c["max_hold_power"]) or bool(c["default_hold_power"])
    mhd_ms = c["max_hold_duration"] * 1000 if c["max_hold_duration"] else None
    log = out["log"]
    hw = [x for x in log if x[0] in ("pulse", "enable", "timed_enable", "rule")]
    if out["err"] is not None and not str(out["err"]).startswith("E"):
        bad("unexpected-exception", "the request raised %s" % out["err"])
    if out["err"] is not None and hw:
        bad("command-sent-by-refused-request", "request raised %s but %r reached the platform" % (out["err"], hw))
    # 1. limits on everything that reached the platform
    prev = None
    for x in log:
        k = x[0]
        if k == "pulse":
            p, d = untag(x[1]), untag(x[2])
            if _power_bad(p, c["max_pulse_power"]):
                bad("pulse-power-out-of-limits", "hw pulse with power %r" % (p,))
            if _dur_bad(d, c["max_pulse_ms"]) or d <= 0:
                bad("pulse-ms-out-of-limits", "hw pulse with duration %r" % (d,))
        elif k == "enable":
            p, d, h, hd = untag(x[1]), untag(x[2]), untag(x[3]), untag(x[4])
            soft = prev is not None and prev[0] == "delay_reset" and prev[1] == "timed_disable"
            if soft:
                ms = untag(prev[2])
                if _dur_bad(ms, c["max_pulse_ms"]):
                    bad("soft-pulse-ms-out-of-limits", "software-timed pulse of %r ms" % (ms,))
                if _power_bad(p, c["max_pulse_power"]) or _power_bad(h, c["max_pulse_power"]):
                    bad("pulse-power-out-of-limits", "software-timed pulse with power %r/%r" % (p, h))
            else:
                if _power_bad(p, c["max_pulse_power"]):
                    bad("pulse-power-out-of-limits", "enable with pulse power %r" % (p,))
                if _dur_bad(d, c["max_pulse_ms"]):
                    bad("pulse-ms-out-of-limits", "enable with pulse duration %r" % (d,))
                if _power_bad(h, c["max_hold_power"]) or not h > 0:
                    bad("hold-power-out-of-limits", "enable with hold power %r" % (h,))
                if not holding_allowed:
                    bad("held-without-permission", "coil enabled although its configuration does not allow holding")
                if mhd_ms and "enable_limit_reached" not in out["pending"]:
                    bad("no-watchdog", "coil enabled with max_hold_duration but no enable_limit_reached delay pending")
        elif k == "timed_enable":
            p, d, h, hd = untag(x[1]), untag(x[2]), untag(x[3]), untag(x[4])
            if _power_bad(p, c["max_pulse_power"]):
                bad("pulse-power-out-of-limits", "timed_enable with pulse power %r" % (p,))
            if _dur_bad(d, c["max_pulse_ms"]):
                bad("pulse-ms-out-of-limits", "timed_enable with pulse duration %r" % (d,))
            if _power_bad(h, c["max_hold_power"]) or (h > 0 and not holding_allowed):
                bad("hold-power-out-of-limits", "timed_enable with hold power %r" % (h,))
            if _dur_bad(hd, mhd_ms):
                bad("hold-duration-out-of-limits", "timed_enable with hold duration %r" % (hd,))
        elif k == "rule":
            p, d = untag(x[2]), untag(x[3])
            if _power_bad(p, c["max_pulse_power"]):
                bad("pulse-power-out-of-limits", "rule with pulse power %r" % (p,))
            if _dur_bad(d, c["max_pulse_ms"]):
                bad("pulse-ms-out-of-limits", "rule with pulse duration %r" % (d,))
            if x[4] is not None:
                h = untag(x[4][1])
                if _power_bad(h, c["max_hold_power"]) or not h > 0 or not holding_allowed:
                    bad("hold-power-out-of-limits", "rule with hold power %r" % (h,))
        prev = x
    # 2. a bad explicit argument is refused
    checks = []
    if "pulse_ms" in a and a["pulse_ms"] is not None:
        checks.append(("pulse_ms", _dur_bad(a["pulse_ms"], c["max_pulse_ms"])))
    if "pulse_power" in a and a["pulse_power"] is not None:
        checks.append(("pulse_power", _power_bad(a["pulse_power"], c["max_pulse_power"])))
    if "hold_power" in a and a["hold_power"] is not None:
        checks.append(("hold_power", _power_bad(a["hold_power"], c["max_hold_power"])))
    if "timed_enable_ms" in a and a["timed_enable_ms"] is not None:
        checks.append(("timed_enable_ms", _dur_bad(a["timed_enable_ms"], mhd_ms)))
    for name, isbad in checks:
        if isbad and out["err"] is None:
            bad("bad-%s-accepted" % name, "%s=%r was accepted" % (name, a[name]))
    # 3. switched off again when due
    if "state_when_due" in out and out["state_when_due"] != "disabled":
        bad("not-switched-off-when-due", "coil still %s after its software timer / watchdog was due" % out["state_when_due"])
    if out.get("state_after_call") == "enabled" and not out["pending"] and (mhd_ms or not holding_allowed):
        bad("on-without-timer", "coil on with no pending off-timer")
    return fails


def shrink_call(case):
    for k, v in case["args"].items():
        if not k.startswith("has_") and v is not None:
            yield {"cfg": case["cfg"], "entry": case["entry"], "args": dict(case["args"], **{k: None})}
    base = {"allow_enable": tagv(False), "default_pulse_power": None, "default_hold_power": None, "max_pulse_ms": None,
            "max_pulse_power": tagv(1.0), "max_hold_power": None, "max_hold_duration": None,
            "pulse_with_timed_enable": tagv(False), "_pulse_ms": tagv(10), "_timed_enable_ms": tagv(0),
            "plat_max_pulse": tagv(255)}
    for k, v in case["cfg"].items():
        if v != base[k]:
            yield {"cfg": dict(case["cfg"], **{k: base[k]}), "entry": case["entry"], "args": case["args"]}
    simple = {"event_pulse": "pulse", "player_pulse": "pulse", "psu_pulse": "pulse", "event_enable": "enable",
              "player_enable": "enable", "event_timed_enable": "timed_enable"}
    if case["entry"] in simple:
        yield {"cfg": case["cfg"], "entry": simple[case["entry"]], "args": case["args"]}


def nontrivial_call(case, out):
    return any(v is not None for k, v in case["args"].items() if not k.startswith("has_")) or \
        any(case["cfg"][k] is not None for k in ("max_pulse_ms", "max_hold_power", "max_hold_duration"))


def describe_call(case):
    return case["entry"]


# ---- verify functions alone ------------------------------------------------------------------------------------
VF = {"VPulseMs": "get_and_verify_pulse_ms", "VPulsePower": "get_and_verify_pulse_power",
      "VHoldPower": "get_and_verify_hold_power", "VTimedEnableMs": "get_and_verify_timed_enable_ms"}


def gen_verify(rng, tier, i):
    cfg = gen_cfg(rng)
    c = {k: untag(v) for k, v in cfg.items()}
    f = rng.choice(sorted(VF))
    if f in ("VPulseMs", "VTimedEnableMs"):
        v = gen_ms(rng, c["max_pulse_ms"] if f == "VPulseMs" else c["max_hold_duration"], c["plat_max_pulse"])
    else:
        v = gen_power(rng, c["max_pulse_power"] if f == "VPulsePower" else c["max_hold_power"])
    if rng.random() < 0.3:
        v = None
        # defaults that are themselves odd (a template can evaluate to anything)
        if rng.random() < 0.3:
            cfg["_pulse_ms"] = tagv(rng.choice([-5, 2.5, None, 10 ** 6]))
            cfg["_timed_enable_ms"] = tagv(rng.choice([-5, 2.5, None, 10 ** 6]))
    return {"cfg": cfg, "f": f, "v": tagv(v)}


def run_verify(case):
    R = _boot()
    _reset(R)
    _apply_cfg(R, case["cfg"])
    try:
        try:
            return {"ok": tagv(getattr(R["coil"], VF[case["f"]])(untag(case["v"])))}
        except Exception as e:   # noqa
            return {"err": _classify(e)}
    finally:
        _reset(R)


def coq_verify(case, out):
    if not all(representable(v) for v in list(case["cfg"].values()) + [case["v"]]):
        return None
    inp = "(%s, (%s, %s))" % (coq_cfg(case["cfg"]), case["f"], cv(case["v"]))
    if "err" in out:
        if out["err"] not in ("EAssert", "ELimits", "EType"):
            return "(%s, (@Ok (list eff) []))" % inp
        return "(%s, (@Err (list eff) %s))" % (inp, out["err"])
    if not representable(out["ok"]):
        return None
    return "(%s, (@Ok (list eff) [RuleSettings %s PNone None]))" % (inp, cv(out["ok"]))


def oracle_verify(case, out):
    c = {k: untag(v) for k, v in case["cfg"].items()}
    v = untag(case["v"])
    f = case["f"]
    fails = []
    if "ok" in out:
        r = untag(out["ok"])
        if f == "VPulsePower" and _power_bad(r, c["max_pulse_power"]):
            fails.append({"sig": "bad-pulse_power-accepted", "what": "%s(%r) returned %r" % (VF[f], v, r)})
        if f == "VHoldPower" and _power_bad(r, c["max_hold_power"]):
            fails.append({"sig": "bad-hold_power-accepted", "what": "%s(%r) returned %r" % (VF[f], v, r)})
        if f == "VPulseMs" and _dur_bad(r, c["max_pulse_ms"]):
            fails.append({"sig": "bad-pulse_ms-accepted", "what": "%s(%r) returned %r" % (VF[f], v, r)})
        if f == "VTimedEnableMs" and _dur_bad(r, c["max_hold_duration"] * 1000 if c["max_hold_duration"] else None):
            fails.append({"sig": "bad-timed_enable_ms-accepted", "what": "%s(%r) returned %r" % (VF[f], v, r)})
        if v is not None and not (r == v or (r != r and v != v)):
            fails.append({"sig": "clamped-silently", "what": "%s(%r) returned %r" % (VF[f], v, r)})
    elif not str(out["err"]).startswith("E"):
        fails.append({"sig": "unexpected-exception", "what": "%s(%r) raised %s" % (VF[f], v, out["err"])})
    return fails


def shrink_verify(case):
    for k, v in case["cfg"].items():
        if v is not None and k not in ("max_pulse_power", "_pulse_ms", "_timed_enable_ms", "plat_max_pulse",
                                       "allow_enable", "pulse_with_timed_enable"):
            yield dict(case, cfg=dict(case["cfg"], **{k: None}))


HDR_VERIFY = ("From Coq Require Import QArith.\nFrom C08 Require Import Py Model.\nOpen Scope Z_scope.\n"
              "Definition run := verify_run.\nDefinition out_eqb := res_eqb.\n")


# ---- timers -------------------------------------------------------------------------------------------------------
def gen_timer(rng, tier, i):
    mhd = rng.choice([None, None, 250, 750, 1250, 2250])      # ms, = 2 mod 4, exact in seconds
    n = rng.randint(3, 12)
    t = 1
    ops = []
    for _ in range(n):
        t += 4 * rng.choice([0, 1, 5, 25, 50, 100, 200, 400, rng.randint(1, 300)]) if ops else 0
        if ops and t == ops[-1][0]:
            t += 4
        k = rng.choice(["soft", "soft", "soft", "hw", "enable", "enable", "disable", "nop", "nop"])
        if k == "soft":
            ops.append([t, "soft", 2 + 4 * rng.choice([0, 1, 10, 25, 50, 100, 200, 500, rng.randint(1, 400)])])
        else:
            ops.append([t, k])
    ops.append([t + 4 * rng.choice([100, 700, 1000]), "nop"])
    return {"mhd": mhd, "ops": ops}


def run_timer(case):
    R = _boot()
    _reset(R)
    cfg = {"allow_enable": tagv(True), "default_pulse_power": None, "default_hold_power": None, "max_pulse_ms": None,
           "max_pulse_power": tagv(1.0), "max_hold_power": None,
           "max_hold_duration": None if case["mhd"] is None else tagv(case["mhd"] / 1000.0),
           "pulse_with_timed_enable": tagv(False), "_pulse_ms": tagv(1), "_timed_enable_ms": tagv(0),
           "plat_max_pulse": tagv(1)}
    _apply_cfg(R, cfg)
    coil, r, log = R["coil"], R["rig"], R["log"]
    obs = []
    try:
        t0 = r.now()
        for op in case["ops"]:
            target = t0 + op[0] / 1000.0
            d = target - r.now()
            if d > 0:
                r.advance(d)
            k = op[1]
            if k == "soft":
                coil.pulse(pulse_ms=op[2])
            elif k == "hw":
                coil.pulse(pulse_ms=1)
            elif k == "enable":
                coil.enable()
            elif k == "disable":
                coil.disable()
            dl = R["real_delay"].delays

            def when(name):
                if name not in dl:
                    return None
                return int(round((dl[name][0].when() - t0) * 1000))
            # on/off from the commands that reached the driver (VirtualDriver.state also changes on a hw pulse)
            last = [x[0] for x in log if x[0] in ("enable", "disable")]
            obs.append([bool(last) and last[-1] == "enable", when("timed_disable"), when("enable_limit_reached")])
        return {"obs": obs, "hw": [x[0] for x in log if x[0] in ("pulse", "enable", "disable", "timed_enable")]}
    finally:
        _reset(R)


def coq_timer(case, out):
    def cop(op):
        k = op[1]
        return "(%d, %s)" % (op[0], {"soft": "(TSoftPulse %d)" % (op[2] if k == "soft" else 0), "hw": "THwPulse",
                                    "enable": "TEnable", "disable": "TDisable", "nop": "TNop"}[k])
    zo = lambda v: "(@None Z)" if v is None else "(Some %s)" % zlit(v)   # noqa
    inp = "(%s, %s)" % (zo(case["mhd"]), coqlist(cop(o) for o in case["ops"]))
    exp = coqlist("(%s, (%s, %s))" % (blit(o[0]), zo(o[1]), zo(o[2])) for o in out["obs"])
    return "(%s, (%s, true))" % (inp, exp)


def oracle_timer(case, out):
    """direct: whenever the coil is on, an off-timer is pending (there is always a limit or a soft pulse in this suite
    unless the coil was enabled without max_hold_duration), and it is not overdue"""
    fails = []
    held = False
    since = 0
    prev = [False, None, None]
    for op, o in zip(case["ops"], out["obs"]):
        on, td, lim = o
        if any(d is not None and d < op[0] for d in prev[1:]):
            held = False                 # a timer fired since the last request: the coil was switched off
        prev = o
        if op[1] == "enable":
            if not held:
                since = op[0]
            held = True
        if not on:
            held = False
        for dl in (td, lim):
            if dl is not None and dl < op[0]:
                fails.append({"sig": "overdue-timer", "what": "a delay with deadline %d is still pending at %d" % (dl, op[0])})
        if on and td is None and lim is None and not (held and case["mhd"] is None):
            fails.append({"sig": "on-without-timer", "what": "coil on at t=%d with no pending off-timer (ops %r)" %
                                                          (op[0], case["ops"])})
        if on and held and case["mhd"] is not None and lim is not None and lim > since + case["mhd"]:
            fails.append({"sig": "held-beyond-max-hold-duration",
                          "what": "hold began at %d, max_hold_duration %d ms, but the watchdog is due at %d" %
                                  (since, case["mhd"], lim)})
        if on and held and case["mhd"] is not None and lim is None:
            fails.append({"sig": "no-watchdog", "what": "coil held at t=%d without enable_limit_reached" % op[0]})
    return fails[:1]


def shrink_timer(case):
    ops = case["ops"]
    for i in range(len(ops)):
        if len(ops) > 1:
            yield {"mhd": case["mhd"], "ops": ops[:i] + ops[i + 1:]}


def nontrivial_timer(case, out):
    prev_on = False
    for op, o in zip(case["ops"], out["obs"]):
        if prev_on and not o[0] and op[1] != "disable":
            return True
        prev_on = o[0]
    return False


HDR_TIMER = ("From C08 Require Import Py Model.\nOpen Scope Z_scope.\n"
             "Definition run := timer_run.\nDefinition out_eqb := tobs_eqb.\n")

# ---- histories: requests (accepted and refused), PSU-deferred calls, placeholders, timers on one clock --------------
HIST_KINDS = ["pulse", "pulse", "pulse", "enable", "enable", "enable", "disable", "disable", "timed_enable", "light",
              "light", "other_pulse", "setpms", "settems", "rule", "nop"]


def _gen_hist_cfg(rng):
    mp = lambda p: None if rng.random() < p else rng.choice([0.125, 0.25, 0.5, 0.75, 1.0])   # noqa
    cfg = {
        "allow_enable": rng.random() < 0.45,
        "default_pulse_power": mp(0.7),
        "default_hold_power": mp(0.7),
        "max_pulse_ms": None if rng.random() < 0.5 else rng.choice([30, 102, 258, 1002]),
        "max_pulse_power": 1.0 if rng.random() < 0.5 else mp(0.1),
        "max_hold_power": mp(0.6),
        "max_hold_duration": None if rng.random() < 0.45 else rng.choice([0.25, 0.75, 1.25, 2.25]),
        "pulse_with_timed_enable": rng.random() < 0.08,
        "_pulse_ms": rng.choice([10, 22, 30, 2, 258, 302]),
        "_timed_enable_ms": rng.choice([0, 0, 1, 2]),
        "plat_max_pulse": rng.choice([255, 25, 25, 1, 1]),
    }
    if cfg["max_pulse_power"] and cfg["default_pulse_power"] and cfg["default_pulse_power"] > cfg["max_pulse_power"]:
        cfg["default_pulse_power"] = cfg["max_pulse_power"]
    if cfg["max_hold_power"] and cfg["default_hold_power"] and cfg["default_hold_power"] > cfg["max_hold_power"]:
        cfg["default_hold_power"] = cfg["max_hold_power"]
    if cfg["max_pulse_ms"] and cfg["_pulse_ms"] > cfg["max_pulse_ms"] and rng.random() < 0.8:
        cfg["_pulse_ms"] = cfg["max_pulse_ms"]
    return cfg


def _hist_ms(rng, c):
    r = rng.random()
    if r < 0.3:
        return None
    if r < 0.8:
        return 2 + 4 * rng.choice([0, 1, 5, 7, 25, 50, 64, 100, 250, rng.randint(0, 300)])
    if r < 0.9 and c["max_pulse_ms"]:
        return c["max_pulse_ms"] + rng.choice([0, 0, 1, 4])
    return rng.choice([0, -2, 2.5, 10 ** 6, True, float("nan"), 1, 255, 256])


def _hist_power(rng, lim):
    r = rng.random()
    if r < 0.5:
        return None
    if r < 0.8:
        return rng.choice([0.125, 0.25, 0.5, 1.0, 1, lim or 0.375])
    return rng.choice([0.0, -0.5, 1.5, float("nan"), (lim or 0.5) + 0.125, 0.3, 0])


def _hist_op(rng, c, kind, t):
    if kind == "pulse":
        return [t, "pulse", rng.choice(["direct", "direct", "event", "player"]),
                {"pulse_ms": tagv(_hist_ms(rng, c)), "pulse_power": tagv(_hist_power(rng, c["max_pulse_power"])),
                 "max_wait_ms": tagv(None if c["pulse_with_timed_enable"] else rng.choice([None, None, None, 500, 500, 40, 0]))}]
    if kind == "enable":
        fl = rng.choice(["direct", "direct", "event", "player", "sw_flip"])
        if fl == "sw_flip":      # Flipper.sw_flip: main_coil.enable() without arguments
            return [t, "enable", fl, {"pulse_ms": None, "pulse_power": None, "hold_power": None, "max_wait_ms": None}]
        return [t, "enable", fl,
                {"pulse_ms": tagv(_hist_ms(rng, c) if rng.random() < 0.5 else None),
                 "pulse_power": tagv(_hist_power(rng, c["max_pulse_power"])),
                 "hold_power": tagv(_hist_power(rng, c["max_hold_power"])),
                 "max_wait_ms": tagv(rng.choice([None, None, 500, 500, 40]) if fl == "direct" else None)}]
    if kind == "timed_enable":
        mhd = c["max_hold_duration"]
        return [t, "timed_enable", rng.choice(["direct", "event"]),
                {"timed_enable_ms": tagv(rng.choice([None, 0, 1, 2, 100, -1, int(mhd) if mhd else 50])),
                 "hold_power": tagv(_hist_power(rng, c["max_hold_power"])),
                 "pulse_ms": tagv(_hist_ms(rng, c) if rng.random() < 0.4 else None),
                 "pulse_power": tagv(_hist_power(rng, c["max_pulse_power"])),
                 "max_wait_ms": tagv(rng.choice([None, None, 500]))}]
    if kind == "disable":
        return [t, "disable", rng.choice(["direct", "event", "player"]), {}]
    if kind == "light":
        return [t, "light", "direct", {"brightness": tagv(rng.choice([0, 0.0, -0.5, 0.25, 0.5, 1.0, 1.0, 0.3764705882352941,
                                                                     float("nan"), 1.5, (c["max_hold_power"] or 0.5)]))}]
    if kind == "other_pulse":
        return [t, "other_pulse", "direct", {"pulse_ms": tagv(rng.choice([40, 100, 100, 200]))}]
    if kind == "setpms":
        v = rng.choice([10, 22, 30, 302, 1002, (c["max_pulse_ms"] or 100) + 4, 90, -6, 0])
        return [t, "setpms", rng.choice(["var", "var", "direct"]), {"v": tagv(v)}]
    if kind == "settems":
        return [t, "settems", rng.choice(["var", "direct"]), {"v": tagv(rng.choice([0, 1, 2, 50, 10 ** 4, -3]))}]
    if kind == "rule":
        return [t, "rule", rng.choice(["no_hold", "with_hold"]),
                {"pulse_ms": tagv(_hist_ms(rng, c)), "pulse_power": tagv(_hist_power(rng, c["max_pulse_power"])),
                 "hold_power": tagv(_hist_power(rng, c["max_hold_power"]))}]
    return [t, "nop", "direct", {}]


def gen_hist(rng, tier, i):
    c = _gen_hist_cfg(rng)
    ops = []
    t = 1
    if rng.random() < 0.55:
        # a race: something that leaves a delay pending (software-timed pulse, watchdog, PSU-deferred call), then
        # one to three further requests inside that window
        first = rng.choice(["soft", "soft", "hold", "defer_pulse", "defer_enable", "defer_enable"])
        if first == "soft":
            c["plat_max_pulse"] = rng.choice([1, 25, 255])
            ms = c["plat_max_pulse"] + 3 + 4 * rng.choice([10, 25, 60, 100, 150])
            if c["max_pulse_ms"] and ms > c["max_pulse_ms"]:
                c["max_pulse_ms"] = rng.choice([None, ms, ms + 100])
            c["pulse_with_timed_enable"] = False
            ops.append([t, "pulse", rng.choice(["direct", "event", "player"]),
                        {"pulse_ms": tagv(ms), "pulse_power": None, "max_wait_ms": None}])
            win = ms
        elif first == "hold":
            if c["max_hold_duration"] is None:
                c["max_hold_duration"] = rng.choice([0.25, 0.75, 1.25])
            if rng.random() < 0.8:
                c["allow_enable"] = True
            ops.append(_hist_op(rng, c, "enable", t))
            ops[-1][3]["max_wait_ms"] = None
            win = int(c["max_hold_duration"] * 1000)
        else:
            c["pulse_with_timed_enable"] = False
            oms = rng.choice([40, 100, 200])
            ops.append([t, "other_pulse", "direct", {"pulse_ms": tagv(oms)}])
            t += 4 * rng.choice([1, 2, 5])
            if first == "defer_pulse":
                ops.append([t, "pulse", rng.choice(["direct", "event", "player"]),
                            {"pulse_ms": tagv(_hist_ms(rng, c)), "pulse_power": None, "max_wait_ms": tagv(500)}])
            else:
                if rng.random() < 0.8:
                    c["allow_enable"] = True
                if rng.random() < 0.7 and c["max_hold_duration"] is None:
                    c["max_hold_duration"] = rng.choice([0.25, 0.75, 1.25])
                ops.append([t, "enable", "direct", {"pulse_ms": None, "pulse_power": None, "hold_power": None,
                                                    "max_wait_ms": tagv(500)}])
            win = oms + 10
        for _ in range(rng.randint(1, 3)):
            t += 4 * max(1, rng.randint(1, max(2, win // 4)) // rng.choice([1, 1, 2, 4]))
            ops.append(_hist_op(rng, c, rng.choice(["enable", "enable", "disable", "disable", "pulse", "light", "timed_enable",
                                                    "setpms", "nop"]), t))
    n = rng.randint(1, 7 if tier == "quick" else 10)
    for _ in range(n):
        if ops:
            t += 4 * rng.choice([1, 2, 5, 25, 50, 100, 200, 400, rng.randint(1, 300)])
        ops.append(_hist_op(rng, c, rng.choice(HIST_KINDS), t))
    ops.append([t + 4 * rng.choice([700, 1000]), "nop", "direct", {}])
    return {"cfg": {k: tagv(v) for k, v in c.items()}, "ops": ops}


def _hist_do(R, op):
    coil, m = R["coil"], R["m"]
    kind, fl = op[1], op[2]
    a = {k: untag(v) for k, v in op[3].items()}
    if kind == "pulse":
        if fl == "direct":
            coil.pulse(a["pulse_ms"], a["pulse_power"], a["max_wait_ms"])
        elif fl == "event":
            coil.event_pulse(pulse_ms=a["pulse_ms"], pulse_power=a["pulse_power"], max_wait_ms=a["max_wait_ms"], junk=1)
        else:
            m.coil_player.play({coil: {"action": "pulse", "pulse_ms": a["pulse_ms"], "pulse_power": a["pulse_power"],
                                       "hold_power": None, "max_wait_ms": a["max_wait_ms"]}}, "verif_ctx", "verif")
    elif kind == "enable":
        if fl == "direct":
            coil.enable(a["pulse_ms"], a["pulse_power"], a["hold_power"], a["max_wait_ms"])
        elif fl == "event":
            coil.event_enable(pulse_ms=a["pulse_ms"], pulse_power=a["pulse_power"], hold_power=a["hold_power"], junk="x")
        elif fl == "player":
            m.coil_player.play({coil: {"action": "enable", "pulse_ms": a["pulse_ms"], "pulse_power": a["pulse_power"],
                                       "hold_power": a["hold_power"], "max_wait_ms": None}}, "verif_ctx", "verif")
        else:
            m.flippers["f_test"]._enabled = True
            m.flippers["f_test"]._sw_flipped = False
            m.flippers["f_test"].sw_flip()
    elif kind == "timed_enable":
        if fl == "direct":
            coil.timed_enable(a["timed_enable_ms"], a["hold_power"], a["pulse_ms"], a["pulse_power"], a["max_wait_ms"])
        else:
            coil.event_timed_enable(timed_enable_ms=a["timed_enable_ms"], hold_power=a["hold_power"], pulse_ms=a["pulse_ms"],
                                    pulse_power=a["pulse_power"], max_wait_ms=a["max_wait_ms"], junk=None)
    elif kind == "disable":
        if fl == "direct":
            coil.disable()
        elif fl == "event":
            coil.event_disable(junk=2)
        else:
            m.coil_player.play({coil: {"action": "disable", "pulse_ms": None, "pulse_power": None, "hold_power": None,
                                       "max_wait_ms": None}}, "verif_ctx", "verif")
    elif kind == "light":
        list(m.lights["l_test"].hw_drivers.values())[0][0].set_brightness(a["brightness"])
    elif kind == "other_pulse":
        m.coils["c_other"].pulse(a["pulse_ms"])
    elif kind in ("setpms", "settems"):
        if fl == "var":
            # the real path: machine variable -> template future -> Driver._calculate_*_placeholder
            m.variables.set_machine_var("c08_pms" if kind == "setpms" else "c08_tems", a["v"])
            R["rig"].advance(0.001)
            got = coil._pulse_ms if kind == "setpms" else coil._timed_enable_ms
            if got != a["v"]:
                # same value as before: no notification; the harness-set default is still in place
                if kind == "setpms":
                    coil._pulse_ms = a["v"]
                else:
                    coil._timed_enable_ms = a["v"]
        elif kind == "setpms":
            coil._pulse_ms = a["v"]
        else:
            coil._timed_enable_ms = a["v"]
    elif kind == "rule":
        from mpf.core.platform_controller import SwitchRuleSettings, DriverRuleSettings, PulseRuleSettings, HoldRuleSettings
        sw = SwitchRuleSettings(switch=m.switches["s_test"], debounce=False, invert=False)
        dr = DriverRuleSettings(driver=coil, recycle=False)
        ps = PulseRuleSettings(power=a["pulse_power"], duration=a["pulse_ms"])
        if fl == "no_hold":
            rule = m.platform_controller.set_pulse_on_hit_rule(sw, dr, ps)
        else:
            rule = m.platform_controller.set_pulse_on_hit_and_enable_and_release_rule(
                sw, dr, ps, HoldRuleSettings(power=a["hold_power"]))
        m.platform_controller.clear_hw_rule(rule)


def run_hist(case):
    R = _boot()
    _reset(R)
    _apply_cfg(R, case["cfg"])
    m, r, log = R["m"], R["rig"], R["log"]
    for k, v in (("c08_pms", -12345), ("c08_tems", -12345)):
        m.variables.set_machine_var(k, v)          # so that every later value is a change (a notification)
    r.advance(0.001)
    _apply_cfg(R, case["cfg"])
    log.wipe()
    R["tie"] = False
    out = {"ops": [], "broken": None}
    t0 = r.now()
    try:
        for op in case["ops"]:
            d = t0 + op[0] / 1000.0 - r.now()
            nlog = len(log)
            try:
                if d > 0:
                    r.advance(d)
                if any(abs(tm - r.now()) < 4e-4 for tm in log.times[nlog:]):
                    R["tie"] = True          # a delay expired exactly at the instant of this request
            except Exception as e:   # noqa  an exception inside a delay callback: the loop is unusable afterwards
                out["broken"] = _classify(e)
                _R.clear()
                break
            _tie_check()
            n0 = len(log)
            err = None
            try:
                _hist_do(R, op)
            except Exception as e:   # noqa: what the code raises is data
                err = _classify(e)
            wait = 0
            for x in log[n0:]:
                if x[0] == "delay_add" and x[1] in ("_pulse_now", "_enable_now"):
                    w = untag(x[2])
                    wait = int(round(w)) if isinstance(w, (int, float)) and w == w and abs(w) < 10 ** 7 else -1
            out["ops"].append({"err": err, "n0": n0, "n1": len(log), "wait": wait})
        out["trace"] = [[int(round((tm - t0) * 1000))] + list(x) for tm, x in zip(log.times, log)]
        if out["broken"] is None:
            dl = R["real_delay"].delays

            def when(name):
                return None if name not in dl else int(round((dl[name][0].when() - t0) * 1000))
            last = [x[0] for x in log if x[0] in ("enable", "disable")]
            out["final"] = [bool(last) and last[-1] == "enable", when("timed_disable"), when("enable_limit_reached"),
                            len([k for k in dl if k not in ("timed_disable", "enable_limit_reached")])]
            out["state"] = R["real_hw"].state
        out["tie"] = bool(R.get("tie"))
    finally:
        if _R:
            try:
                m.coil_player.clear_context("verif_ctx")
            except Exception:   # noqa
                pass
            try:
                _reset(R)
            except Exception:   # noqa
                pass
    return out


def _hist_values(case):
    vs = list(case["cfg"].values())
    for op in case["ops"]:
        vs += list(op[3].values())
    return vs


def _coq_hreq(op, wait):
    kind, fl, a = op[1], op[2], op[3]
    g = lambda k: cv(a.get(k))   # noqa
    if kind == "pulse":
        return "(HReq (RPulse %s %s) %s)" % (g("pulse_ms"), g("pulse_power"), zlit(wait))
    if kind == "enable":
        if fl == "sw_flip":
            return "(HReq (REnable PNone PNone PNone) 0)"
        return "(HReq (REnable %s %s %s) %s)" % (g("pulse_ms"), g("pulse_power"), g("hold_power"), zlit(wait))
    if kind == "timed_enable":
        return "(HReq (RTimedEnable %s %s %s %s) 0)" % (g("timed_enable_ms"), g("hold_power"), g("pulse_ms"), g("pulse_power"))
    if kind == "disable":
        return "(HReq RDisable 0)"
    if kind == "light":
        return "(HLight %s)" % g("brightness")
    if kind == "setpms":
        return "(HSetPulseMs %s)" % g("v")
    if kind == "settems":
        return "(HSetTimedEnableMs %s)" % g("v")
    if kind == "rule":
        ps = "(Some (%s, %s))" % (g("pulse_power"), g("pulse_ms"))
        if fl == "no_hold":
            return "(HReq (RRuleNoHold %s) 0)" % ps
        return "(HReq (RRuleWithHold %s (Some %s)) 0)" % (ps, g("hold_power"))
    return "HNop"


HIST_BAD = "([(0, TX EType); (0, TX EType)], ((false, (@None Z, @None Z)), (0, false)))"     # cannot match: reported


def coq_hist(case, out):
    if not all(representable(v) for v in _hist_values(case)):
        return None
    if out.get("tie") and out["broken"] is None:
        return None                                    # equal deadlines: order not defined (counted as not validated)
    reqs = []
    for op, o in zip(case["ops"], out["ops"]):
        reqs.append("(%s, %s)" % (zlit(op[0]), _coq_hreq(op, max(o["wait"], 0))))
    inp = "(%s, %s)" % (coq_cfg(case["cfg"]), coqlist(reqs))
    if out["broken"] is not None or len(out["ops"]) != len(case["ops"]) or any(o["wait"] < 0 for o in out["ops"]):
        return "(%s, %s)" % (inp, HIST_BAD)
    # the trace: effects in order, the error of a refused request at the position of the request
    items = []
    errs = {}
    for op, o in zip(case["ops"], out["ops"]):
        if o["err"] is not None:
            errs.setdefault(o["n1"], []).append((o["err"], op[0]))
    tr = out["trace"]
    for i in range(len(tr) + 1):
        for e, et in errs.get(i, []):
            if e not in ("EAssert", "ELimits", "EType"):
                return "(%s, %s)" % (inp, HIST_BAD)
            items.append("(%s, TX %s)" % (zlit(et), e))
        if i < len(tr):
            x = tr[i]
            if x[1] == "delay_add":
                if x[2] in ("_pulse_now", "_enable_now"):
                    continue
                return "(%s, %s)" % (inp, HIST_BAD)
            e = coq_eff(x[1:])
            if e is None:
                return "(%s, %s)" % (inp, HIST_BAD)
            items.append("(%s, TE %s)" % (zlit(x[0]), e))
    zo = lambda v: "(@None Z)" if v is None else "(Some %s)" % zlit(v)   # noqa
    f = out["final"]
    return "(%s, (%s, ((%s, (%s, %s)), (%s, true))))" % (inp, coqlist(items), blit(f[0]), zo(f[1]), zo(f[2]), zlit(f[3]))


HDR_HIST = ("From Coq Require Import QArith.\nFrom C08 Require Import Py Model Hist.\nOpen Scope Z_scope.\n"
            "Definition run := hist_run.\nDefinition out_eqb := hist_eqb.\n")


def oracle_hist(case, out):
    """The property on the hardware-level trace of a whole history (independent of the Coq model):
    every command within the limits; a refused request sends nothing and a bad explicit argument is refused; every
    disable request switches the coil off; and at every instant the time the coil has been on (hw enable without a
    hw disable since) is covered by an accepted request: by the software-timed pulses accepted since it was off, or,
    once an accepted enable was executed, by max_hold_duration counted from the first such enable (unlimited only
    when no max_hold_duration is configured)."""
    c = {k: untag(v) for k, v in case["cfg"].items()}
    fails = []

    def bad(sig, what):
        fails.append({"sig": sig, "what": "%s [cfg=%s ops=%s]" % (
            what, {k: v for k, v in c.items() if v not in (None, False)},
            [[o[0], o[1], o[2], {k: untag(v) for k, v in o[3].items() if v is not None}] for o in case["ops"]])})
    if out["broken"] is not None:
        bad("exception-in-delayed-call" if str(out["broken"]).startswith("E") else "unexpected-exception",
            "a delay callback raised %s" % out["broken"])
    holding_allowed = bool(c["allow_enable"]) or bool(c["max_hold_power"]) or bool(c["default_hold_power"])
    mhd_ms = c["max_hold_duration"] * 1000 if c["max_hold_duration"] else None
    tr = out.get("trace", [])
    # which entries come from which request
    owner = {}
    for j, o in enumerate(out["ops"]):
        for i in range(o["n0"], o["n1"]):
            owner[i] = j
    HW = ("pulse", "enable", "timed_enable", "rule")
    for j, (op, o) in enumerate(zip(case["ops"], out["ops"])):
        sl = tr[o["n0"]:o["n1"]]
        a = {k: untag(v) for k, v in op[3].items()}
        if o["err"] is not None:
            if not str(o["err"]).startswith("E"):
                bad("unexpected-exception", "request %r raised %s" % (op[:3], o["err"]))
            if op[1] not in ("other_pulse",) and any(x[1] in HW or x[1] == "delay_add" for x in sl):
                bad("command-sent-by-refused-request", "request %r raised %s but %r happened" % (op[:3], o["err"], sl))
        else:
            chk = []
            if op[1] in ("pulse", "enable", "timed_enable", "rule"):
                if a.get("pulse_ms") is not None:
                    chk.append(("pulse_ms", _dur_bad(a["pulse_ms"], c["max_pulse_ms"])))
                if a.get("pulse_power") is not None:
                    chk.append(("pulse_power", _power_bad(a["pulse_power"], c["max_pulse_power"])))
            if op[1] in ("enable", "timed_enable") or (op[1] == "rule" and op[2] == "with_hold"):
                if a.get("hold_power") is not None:
                    chk.append(("hold_power", _power_bad(a["hold_power"], c["max_hold_power"])))
            if op[1] == "timed_enable" and a.get("timed_enable_ms") is not None:
                chk.append(("timed_enable_ms", _dur_bad(a["timed_enable_ms"], mhd_ms)))
            if op[1] == "light" and _isnum(a["brightness"]) and a["brightness"] > 0:
                chk.append(("hold_power", _power_bad(a["brightness"], c["max_hold_power"])))
            for name, isbad in chk:
                if isbad:
                    bad("bad-%s-accepted" % name, "%s was accepted in %r" % (name, [op[1], op[2], a]))
            if (op[1] == "disable" or (op[1] == "light" and _isnum(a["brightness"]) and a["brightness"] <= 0)) and \
                    not any(x[1] == "disable" for x in sl):
                bad("disable-request-ignored", "disable request at %d sent no hw disable" % op[0])
    # limits on every command, and the on-time of the coil
    on = False
    first_hold = None
    soft_until = None
    end = case["ops"][len(out["ops"]) - 1][0] if out["ops"] else 0

    def check_until(tau):
        if first_hold is not None:
            if mhd_ms and tau > first_hold + mhd_ms + 1:
                bad("held-beyond-max-hold-duration",
                    "coil continuously on until %d ms; the first accepted enable of this on-period was executed at %d, "
                    "max_hold_duration is %d ms" % (tau, first_hold, mhd_ms))
        elif soft_until is None or tau > soft_until + 1:
            bad("on-beyond-accepted-request",
                "coil on until %d ms with no accepted enable; accepted software-timed pulses cover it until %r" %
                (tau, soft_until))
    prev = None
    for i, x in enumerate(tr):
        t, k = x[0], x[1]
        if k == "pulse":
            p, d = untag(x[2]), untag(x[3])
            if _power_bad(p, c["max_pulse_power"]):
                bad("pulse-power-out-of-limits", "hw pulse with power %r at %d" % (p, t))
            if _dur_bad(d, c["max_pulse_ms"]) or d <= 0:
                bad("pulse-ms-out-of-limits", "hw pulse with duration %r at %d" % (d, t))
        elif k == "timed_enable":
            p, d, h, hd = untag(x[2]), untag(x[3]), untag(x[4]), untag(x[5])
            if _power_bad(p, c["max_pulse_power"]):
                bad("pulse-power-out-of-limits", "timed_enable with pulse power %r" % (p,))
            if _dur_bad(d, c["max_pulse_ms"]):
                bad("pulse-ms-out-of-limits", "timed_enable with pulse duration %r" % (d,))
            if _power_bad(h, c["max_hold_power"]) or (h > 0 and not holding_allowed):
                bad("hold-power-out-of-limits", "timed_enable with hold power %r" % (h,))
            if _dur_bad(hd, mhd_ms):
                bad("hold-duration-out-of-limits", "timed_enable with hold duration %r" % (hd,))
        elif k == "rule":
            p, d = untag(x[3]), untag(x[4])
            if _power_bad(p, c["max_pulse_power"]):
                bad("pulse-power-out-of-limits", "rule with pulse power %r" % (p,))
            if _dur_bad(d, c["max_pulse_ms"]):
                bad("pulse-ms-out-of-limits", "rule with pulse duration %r" % (d,))
            if x[5] is not None:
                h = untag(x[5][1])
                if _power_bad(h, c["max_hold_power"]) or not h > 0 or not holding_allowed:
                    bad("hold-power-out-of-limits", "rule with hold power %r" % (h,))
        elif k == "enable":
            p, d, h = untag(x[2]), untag(x[3]), untag(x[4])
            soft = prev is not None and prev[1] == "delay_reset" and prev[2] == "timed_disable" and prev[0] == t
            if soft:
                ms = untag(prev[3])
                if _dur_bad(ms, c["max_pulse_ms"]):
                    bad("soft-pulse-ms-out-of-limits", "software-timed pulse of %r ms at %d" % (ms, t))
                    ms = 0
                if _power_bad(p, c["max_pulse_power"]) or _power_bad(h, c["max_pulse_power"]):
                    bad("pulse-power-out-of-limits", "software-timed pulse with power %r/%r" % (p, h))
                j = owner.get(i)
                if j is not None and case["ops"][j][1] == "pulse":
                    req = untag(case["ops"][j][3].get("pulse_ms"))
                    if req is not None and req != ms:
                        bad("clamped-silently", "pulse_ms=%r requested, software timer of %r ms" % (req, ms))
                soft_until = max(soft_until or 0, t + ms)
            else:
                if _power_bad(p, c["max_pulse_power"]):
                    bad("pulse-power-out-of-limits", "enable with pulse power %r" % (p,))
                if _dur_bad(d, c["max_pulse_ms"]):
                    bad("pulse-ms-out-of-limits", "enable with pulse duration %r" % (d,))
                if _power_bad(h, c["max_hold_power"]) or not h > 0:
                    bad("hold-power-out-of-limits", "enable with hold power %r" % (h,))
                if not holding_allowed:
                    bad("held-without-permission", "coil enabled although its configuration does not allow holding")
                if first_hold is None:
                    first_hold = t
            on = True
        elif k == "disable":
            if on:
                check_until(t)
            on = False
            first_hold = None
            soft_until = None
        prev = x
    if on and out["broken"] is None:
        check_until(end)
        if out.get("final") and out["final"][1] is None and out["final"][2] is None and out["final"][3] == 0 and \
                (first_hold is None or mhd_ms):
            bad("on-without-timer", "coil on at the end of the history with no pending delay and no unlimited hold")
    seen = set()
    res = []
    for f in fails:
        if f["sig"] not in seen:
            seen.add(f["sig"])
            res.append(f)
    return res[:2]


def shrink_hist(case):
    ops = case["ops"]
    for i in range(len(ops) - 1):
        yield {"cfg": case["cfg"], "ops": ops[:i] + ops[i + 1:]}
    base = {"default_pulse_power": None, "default_hold_power": None, "max_pulse_ms": None, "max_hold_power": None,
            "pulse_with_timed_enable": tagv(False)}
    for k, v in base.items():
        if case["cfg"][k] != v:
            yield {"cfg": dict(case["cfg"], **{k: v}), "ops": ops}
    for i, op in enumerate(ops):
        for k, v in op[3].items():
            if v is not None and k != "v" and k != "brightness":
                yield {"cfg": case["cfg"], "ops": ops[:i] + [[op[0], op[1], op[2], dict(op[3], **{k: None})]] + ops[i + 1:]}
        if op[2] in ("event", "player", "var"):
            yield {"cfg": case["cfg"], "ops": ops[:i] + [[op[0], op[1], "direct", op[3]]] + ops[i + 1:]}


def nontrivial_hist(case, out):
    """a refused request while a delay was pending, or a delay that fired between two requests"""
    times = set(op[0] for op in case["ops"])
    fired = any(x[0] not in times and x[0] - 1 not in times for x in out.get("trace", []))
    refused = any(o["err"] is not None for o in out["ops"])
    return fired or refused


def describe_hist(case):
    ks = set(op[1] for op in case["ops"])
    return "mhd" if case["cfg"]["max_hold_duration"] else ("wait" if "other_pulse" in ks else "plain")


SUITES = [
    Suite("call", gen_call, run_call, HDR_CALL, coq_call, oracle_call, shrink_call, nontrivial_call,
          {"quick": 6000, "thorough": 60000}, describe=describe_call, shard=500),
    Suite("verify", gen_verify, run_verify, HDR_VERIFY, coq_verify, oracle_verify, shrink_verify, None,
          {"quick": 3000, "thorough": 30000}, describe=lambda c: c["f"], shard=500),
    Suite("timer", gen_timer, run_timer, HDR_TIMER, coq_timer, oracle_timer, shrink_timer, nontrivial_timer,
          {"quick": 600, "thorough": 6000}, describe=lambda c: "mhd" if c["mhd"] else "no-mhd", shard=300),
    Suite("hist", gen_hist, run_hist, HDR_HIST, coq_hist, oracle_hist, shrink_hist, nontrivial_hist,
          {"quick": 900, "thorough": 12000}, describe=describe_hist, shard=300),
]


def widened_search(seed):
    """oracle-only search with the thorough-tier generators when a proof or the translation broke"""
    import random
    rng = random.Random(seed ^ 0xC08)
    for i in range(4000):
        case = gen_call(rng, "thorough", i)
        out = run_call(case)
        f = oracle_call(case, out)
        if f:
            return {"sig": f[0]["sig"], "what": f[0]["what"], "case": case, "suite": "call"}
    for i in range(3000):
        case = gen_hist(rng, "thorough", i)
        out = run_hist(case)
        f = oracle_hist(case, out)
        if f:
            return {"sig": f[0]["sig"], "what": f[0]["what"], "case": case, "suite": "hist"}
    return None


LEVEL_TEXT = ("Machine-checked proof (Coq) over the limit-verification functions regenerated from driver.py on every run "
              "and a hand-written model of the actuation methods, the coil's delays and the clock: every command of every "
              "accepted request is within the configured limits (also for PSU-deferred calls and whatever the runtime "
              "default placeholders evaluate to), bad requests are refused and change nothing, and for every request "
              "history and every interleaving with expiring delays a coil that is on is guarded by a pending off-timer "
              "or is a permitted hold with its max_hold_duration watchdog counted from the first enable (theorem "
              "history_safe); plus a computed fact that every hw_driver call site, every write of the unverified "
              "defaults and every use of the Driver API by coil_player / lights-on-drivers is reviewed. Tied to /repo by "
              "translation and by differential runs on a booted machine with a recording platform driver and "
              "DelayManager (effects compared with their instants).")
LEVEL_NOTE = ("Trusted: Coq kernel + vm_compute; no axioms; the Python-ast translator (validated by the verify/call suites); "
              "hand model of the action methods, delays and clock (correspondence); the PSU's answer is an unconstrained "
              "input; CPython numeric comparison semantics as modelled; platform drivers below the interface are out of "
              "scope.")
TECHNIQUE = ("Coq proof over translated (T) verify functions + hand-written (H) action/delay/clock model (invariant over "
             "event histories), differential correspondence by vm_compute, direct limit and on-time oracle on the "
             "hardware-level trace of a recording platform driver")
DESIGN_REF = "DESIGN.md section 3, C08"
