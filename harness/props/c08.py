"""C08 translator (T): mpf/devices/driver.py -> coq/C08/gen/Driver.v, and the hw_driver call-site list ->
coq/C08/gen/Sites.v.  Fail closed: anything outside the supported subset raises Unsupported, which the check
reports as a broken tie (obligation translate:<file>:<function>).

Supported subset (exactly what the four get_and_verify_* methods use):
  statements  docstring | assert self.<attr> is not None | name = expr | if/elif/else | raise Exc(...) | return expr
  tests       comparisons incl. chained ones (a op b op c  ==  a op b and b op c, b pure), is None / is not None,
              and / or / not, isinstance(x, int), truthiness of a value expression
  values      names, None/int/float/bool constants, self.config['key'], self._pulse_ms, self._timed_enable_ms,
              self.platform.features['max_pulse'], x if <total test> else y
The translation is continuation-passing: `if` statements that assign become
  let k := fun v1 .. vn => <rest> in ifT <test> (<body>; k v1 .. vn) (<orelse>; k v1 .. vn).
"""
import ast
import os

VERIFY_FUNCS = ["get_and_verify_pulse_power", "get_and_verify_hold_power", "get_and_verify_pulse_ms",
                "get_and_verify_timed_enable_ms"]
CONFIG_FIELDS = {"allow_enable", "default_pulse_power", "default_hold_power", "max_pulse_ms", "max_pulse_power",
                 "max_hold_power", "max_hold_duration", "pulse_with_timed_enable"}
SELF_ATTRS = {"_pulse_ms": "st_pulse_ms", "_timed_enable_ms": "st_timed_enable_ms"}
EXC = {"AssertionError": "EAssert", "DriverLimitsError": "ELimits"}
CMP = {ast.Gt: "Gt", ast.Lt: "Lt", ast.GtE: "Ge", ast.LtE: "Le", ast.Eq: "Eq"}


class Unsupported(Exception):
    pass


def _bad(fn, node, why):
    raise Unsupported("translate:mpf/devices/driver.py:%s line %s: %s (%s)" %
                      (fn, getattr(node, "lineno", "?"), why, ast.dump(node)[:120]))


class FnTranslator:
    def __init__(self, fn):
        self.fn = fn
        self.name = fn.name
        self.kcount = 0

    # ---- values ------------------------------------------------------------------------------------
    def is_self(self, n, attr=None):
        return isinstance(n, ast.Attribute) and isinstance(n.value, ast.Name) and n.value.id == "self" and \
            (attr is None or n.attr == attr)

    def ev(self, e, scope):
        if isinstance(e, ast.Name):
            if e.id not in scope:
                _bad(self.name, e, "name not bound on every path")
            return "v_" + e.id
        if isinstance(e, ast.Constant):
            v = e.value
            if v is None:
                return "PNone"
            if isinstance(v, bool):
                return "(PInt %d)" % int(v)
            if isinstance(v, int):
                return "(PInt %s)" % (str(v) if v >= 0 else "(%d)" % v)
            if isinstance(v, float) and v == v and abs(v) != float("inf"):
                n, d = v.as_integer_ratio()
                return "(PFloat (Fin (%s # %d)))" % (str(n) if n >= 0 else "(%d)" % n, d)
            _bad(self.name, e, "constant")
        if isinstance(e, ast.Subscript):
            key = e.slice
            if isinstance(key, ast.Constant) and isinstance(key.value, str):
                if self.is_self(e.value, "config"):
                    if key.value not in CONFIG_FIELDS:
                        _bad(self.name, e, "config key not in the modelled record")
                    return "(cfg_%s c)" % key.value
                b = e.value
                if isinstance(b, ast.Attribute) and b.attr == "features" and self.is_self(b.value, "platform") \
                        and key.value == "max_pulse":
                    return "(plat_max_pulse c)"
            _bad(self.name, e, "subscript")
        if self.is_self(e) and e.attr in SELF_ATTRS:
            return "(%s c)" % SELF_ATTRS[e.attr]
        if isinstance(e, ast.IfExp):
            return "(if %s then %s else %s)" % (self.tb(e.test, scope), self.ev(e.body, scope), self.ev(e.orelse, scope))
        _bad(self.name, e, "value expression")

    # total tests (cannot raise): used in conditional expressions
    def tb(self, e, scope):
        if isinstance(e, ast.Compare) and len(e.ops) == 1 and isinstance(e.comparators[0], ast.Constant) and \
                e.comparators[0].value is None:
            if isinstance(e.ops[0], ast.Is):
                return "(is_none %s)" % self.ev(e.left, scope)
            if isinstance(e.ops[0], ast.IsNot):
                return "(negb (is_none %s))" % self.ev(e.left, scope)
        if isinstance(e, ast.UnaryOp) and isinstance(e.op, ast.Not):
            return "(negb %s)" % self.tb(e.operand, scope)
        if isinstance(e, ast.BoolOp):
            op = "&&" if isinstance(e.op, ast.And) else "||"
            return "(" + (" %s " % op).join(self.tb(x, scope) for x in e.values) + ")"
        if isinstance(e, (ast.Compare, ast.Call)):
            _bad(self.name, e, "test of a conditional expression may raise")
        return "(truthy %s)" % self.ev(e, scope)

    # tests that may raise TypeError: tst = option bool
    def tt(self, e, scope):
        if isinstance(e, ast.Compare):
            parts = []
            left = e.left
            for op, right in zip(e.ops, e.comparators):
                if isinstance(op, (ast.Is, ast.IsNot)):
                    if not (isinstance(right, ast.Constant) and right.value is None):
                        _bad(self.name, e, "is / is not with something other than None")
                    parts.append("(%s %s)" % ("t_isnone" if isinstance(op, ast.Is) else "t_isnotnone",
                                              self.ev(left, scope)))
                elif type(op) in CMP:
                    parts.append("(t_cmp %s %s %s)" % (CMP[type(op)], self.ev(left, scope), self.ev(right, scope)))
                else:
                    _bad(self.name, e, "comparison operator")
                left = right
            out = parts[-1]
            for p in reversed(parts[:-1]):          # a op b op c: literally (a op b) and (b op c)
                out = "(t_and %s %s)" % (p, out)
            return out
        if isinstance(e, ast.BoolOp):
            f = "t_and" if isinstance(e.op, ast.And) else "t_or"
            vals = [self.tt(x, scope) for x in e.values]
            out = vals[-1]
            for p in reversed(vals[:-1]):
                out = "(%s %s %s)" % (f, p, out)
            return out
        if isinstance(e, ast.UnaryOp) and isinstance(e.op, ast.Not):
            return "(t_not %s)" % self.tt(e.operand, scope)
        if isinstance(e, ast.Call):
            if isinstance(e.func, ast.Name) and e.func.id == "isinstance" and len(e.args) == 2 and \
                    isinstance(e.args[1], ast.Name) and e.args[1].id == "int" and not e.keywords:
                return "(t_isint %s)" % self.ev(e.args[0], scope)
            _bad(self.name, e, "call in a test")
        return "(t_truthy %s)" % self.ev(e, scope)

    # ---- statements ----------------------------------------------------------------------------------
    def assigned(self, stmts):
        out = []
        for s in stmts:
            if isinstance(s, ast.Assign):
                for t in s.targets:
                    if isinstance(t, ast.Name) and t.id not in out:
                        out.append(t.id)
            elif isinstance(s, ast.If):
                for n in self.assigned(s.body) + self.assigned(s.orelse):
                    if n not in out:
                        out.append(n)
        return out

    def tr(self, stmts, scope, tail, ind):
        pad = "  " * ind
        if not stmts:
            if tail is None:
                _bad(self.name, self.fn, "function can fall off its end (returns None)")
            return pad + tail
        s, rest = stmts[0], stmts[1:]
        if isinstance(s, ast.Expr) and isinstance(s.value, ast.Constant) and isinstance(s.value.value, str):
            return self.tr(rest, scope, tail, ind)
        if isinstance(s, ast.Assert):
            t = s.test
            if isinstance(t, ast.Compare) and len(t.ops) == 1 and isinstance(t.ops[0], ast.IsNot) and \
                    isinstance(t.comparators[0], ast.Constant) and t.comparators[0].value is None and \
                    self.is_self(t.left) and t.left.attr in ("platform", "hw_driver"):
                return self.tr(rest, scope, tail, ind)      # model invariant: the device is initialised
            _bad(self.name, s, "assert")
        if isinstance(s, ast.Assign):
            if len(s.targets) != 1 or not isinstance(s.targets[0], ast.Name):
                _bad(self.name, s, "assignment target")
            n = s.targets[0].id
            val = self.ev(s.value, scope)
            return pad + "let v_%s := %s in\n" % (n, val) + self.tr(rest, scope | {n}, tail, ind)
        if isinstance(s, ast.Return):
            if s.value is None:
                _bad(self.name, s, "bare return")
            return pad + "Ok %s" % self.ev(s.value, scope)
        if isinstance(s, ast.Raise):
            return pad + "Err %s" % self.exc(s)
        if isinstance(s, ast.If):
            vs = self.assigned([s])
            for v in vs:
                if v not in scope:
                    _bad(self.name, s, "variable %s assigned under a condition before it is bound" % v)
            self.kcount += 1
            k = "k%d" % self.kcount
            call = " ".join([k] + ["v_" + v for v in vs])
            if vs:
                kdef = "fun %s =>\n" % " ".join("(v_%s : pyval)" % v for v in vs)
            else:
                kdef = "\n"
            body_rest = self.tr(rest, scope, tail, ind + 1)
            test = self.tt(s.test, scope)
            a = self.tr(s.body, scope, call, ind + 1)
            b = self.tr(s.orelse, scope, call, ind + 1)
            return (pad + "let %s := %s%s in\n" % (k, kdef, body_rest) +
                    pad + "ifT %s\n%s(\n%s)\n%s(\n%s)" % (test, pad, a, pad, b))
        _bad(self.name, s, "statement")

    def exc(self, s):
        e = s.exc
        if isinstance(e, ast.Call) and isinstance(e.func, ast.Name) and e.func.id in EXC and s.cause is None:
            return EXC[e.func.id]
        _bad(self.name, s, "raise")

    def translate(self):
        args = self.fn.args
        if args.vararg or args.kwarg or args.kwonlyargs or args.posonlyargs or args.defaults:
            _bad(self.name, self.fn, "signature")
        names = [a.arg for a in args.args]
        if len(names) != 2 or names[0] != "self":
            _bad(self.name, self.fn, "signature (expected (self, x))")
        if self.fn.decorator_list:
            _bad(self.name, self.fn, "decorators")
        p = names[1]
        body = self.tr(self.fn.body, {p}, None, 1)
        return "Definition %s (c : cfg) (v_%s : pyval) : res pyval :=\n%s.\n" % (self.name, p, body)


def translate_driver(repo, gendir):
    path = os.path.join(repo, "mpf", "devices", "driver.py")
    tree = ast.parse(open(path).read())
    cls = [n for n in tree.body if isinstance(n, ast.ClassDef) and n.name == "Driver"]
    if len(cls) != 1:
        raise Unsupported("translate:mpf/devices/driver.py:Driver class not found")
    fns = {n.name: n for n in cls[0].body if isinstance(n, ast.FunctionDef)}
    out = ["(* GENERATED by harness/props/c08.py from mpf/devices/driver.py on every run. Do not edit. *)",
           "From Common Require Import Prelude.", "From Coq Require Import QArith.", "From C08 Require Import Py.",
           "Open Scope Z_scope.", ""]
    for f in VERIFY_FUNCS:
        if f not in fns:
            raise Unsupported("translate:mpf/devices/driver.py:%s missing" % f)
        out.append(FnTranslator(fns[f]).translate())
    os.makedirs(gendir, exist_ok=True)
    _write_if_changed(os.path.join(gendir, "Driver.v"), "\n".join(out))


# --------------------------------------------------------------------------------------------------------
# call sites of the platform driver interface
ACT = ("pulse", "enable", "timed_enable")


def scan_sites(repo):
    """Where non-test mpf code touches the platform driver interface.

    returns sorted list of (file, class, function, kind), kind in
      call:<method>      <x>.hw_driver.<method>(...) for method in pulse / enable / timed_enable
      escape             the hw driver object (or one of its bound actuation methods) is used as a value: aliased,
                         passed on, stored elsewhere  (only outside mpf/platforms: platform code handles its own
                         driver objects and receives DriverSettings that were verified above the interface)
      configure_driver   <x>.configure_driver(...) outside mpf/platforms: where hw driver objects are created
    """
    sites = []
    root = os.path.join(repo, "mpf")
    for dp, dn, fn in os.walk(root):
        dn[:] = sorted(d for d in dn if d not in ("tests", "__pycache__"))
        for f in sorted(fn):
            if not f.endswith(".py"):
                continue
            p = os.path.join(dp, f)
            rel = os.path.relpath(p, repo)
            in_platforms = rel.startswith(os.path.join("mpf", "platforms") + os.sep)
            try:
                tree = ast.parse(open(p, encoding="utf-8").read())
            except SyntaxError as e:
                raise Unsupported("translate:%s: does not parse: %s" % (rel, e))
            parents = {}
            for node in ast.walk(tree):
                for ch in ast.iter_child_nodes(node):
                    parents[ch] = node

            def where(node):
                cls, fun = "", ""
                q = node
                while q in parents:
                    q = parents[q]
                    if isinstance(q, (ast.FunctionDef, ast.AsyncFunctionDef)) and not fun:
                        fun = q.name
                    if isinstance(q, ast.ClassDef) and not cls:
                        cls = q.name
                return cls, fun

            for node in ast.walk(tree):
                if isinstance(node, ast.Call) and isinstance(node.func, ast.Attribute) and \
                        node.func.attr == "configure_driver" and not in_platforms:
                    sites.append((rel,) + where(node) + ("configure_driver",))
                if not (isinstance(node, ast.Attribute) and node.attr == "hw_driver"):
                    continue
                par = parents.get(node)
                kind = None
                if isinstance(node.ctx, (ast.Store, ast.Del)):
                    kind = None
                elif isinstance(par, ast.Attribute) and par.value is node:
                    gp = parents.get(par)
                    if par.attr in ACT:
                        kind = "call:" + par.attr if (isinstance(gp, ast.Call) and gp.func is par) else "escape"
                elif isinstance(par, ast.Compare) and all(isinstance(o, (ast.Is, ast.IsNot)) for o in par.ops):
                    kind = None
                elif not in_platforms:
                    kind = "escape"
                if kind:
                    sites.append((rel,) + where(node) + (kind,))
    return sorted(set(sites))


def coq_string(s):
    return '"' + s.replace('"', '""') + '"'


def translate_sites(repo, gendir):
    sites = scan_sites(repo)
    lines = ["(* GENERATED by harness/props/c08.py: every access to `.hw_driver` in non-test mpf code. *)",
             "From Coq Require Import String List.", "Import ListNotations.", "Open Scope string_scope.", "",
             "(* (file, class, function, kind) *)",
             "Definition sites : list (string * string * string * string) := ["]
    lines.append(";\n".join("  (%s, %s, %s, %s)" % tuple(coq_string(x) for x in s) for s in sites))
    lines.append("].")
    os.makedirs(gendir, exist_ok=True)
    _write_if_changed(os.path.join(gendir, "Sites.v"), "\n".join(lines) + "\n")
    return sites


def _write_if_changed(path, text):
    try:
        if open(path).read() == text:
            return
    except OSError:
        pass
    with open(path, "w") as f:
        f.write(text)


def translate(repo, gendir):
    translate_driver(repo, gendir)
    translate_sites(repo, gendir)


if __name__ == "__main__":
    import sys
    translate(sys.argv[1], sys.argv[2])
    print(open(os.path.join(sys.argv[2], "Driver.v")).read())
