"""C02 — Queue, relay and boolean events complete exactly once and in order."""
import asyncio

from vlib import Suite, zlit, coqlist, blit

ID = "C02"
READY = True
RULE = ("queue: 2-6 events (queue / plain), 0-3 handlers each (sync scripts: wait, clear-own, release k-th outstanding "
        "wait, post queue/plain event to a later event with or without passing the own queue object on, remove a "
        "handler; registered data kwargs colliding with the posted ones, a registered queue object, conditions "
        "name{k==v}; add_async_handler coroutines that finish at once or await an environment future), environment "
        "scripts run between loop slices at distinct virtual instants (posts of several events at once, releases of "
        "outstanding waits in generated order, removals); non-trivial = at least one wait released by a later "
        "environment step or a queue event nested in a queue-event handler.  mode: a real Mode (use_wait_queue on/off) "
        "started by a queue event with generated handlers before/after Mode.start and on mode_<m>_starting; releases "
        "incl. stopping the mode; non-trivial = mode has use_wait_queue or a handler on mode_<m>_starting.  "
        "sync: relay/boolean/plain posts over 0-5 handlers with generated priorities and result behaviours; "
        "non-trivial = a dict result (relay) or a False result (boolean) occurs")
TRUSTED_BASE = [
    "Coq 8.16.1 kernel (coqc), vm_compute for refutation witnesses and for evaluating the model in the correspondence run; no native_compute",
    "axioms: none (every Print Assumptions is 'Closed under the global context')",
    "hand-written model coq/C02/Model.v (EventManager._post/process_event_queue/_process_queue_event/_run_handlers_sequential/"
    "_run_handlers/_process_event, QueuedEvent, add_async_handler adapter, FIFO model of asyncio call_soon/create_task/Event.set) "
    "tied to /repo by correspondence: harness/props/c02.py runs the real EventManager / Mode on the rig and the model on the same scripts",
    "CPython asyncio (call_soon FIFO, Task wake-up through call_soon, Event.set) is MODELLED and validated on every run",
    "harness instrumentation: class-level logging wrappers around QueuedEvent.wait/clear, EventManager._async_handler_coroutine, "
    "Mode.start and Mode._started inside the worker process (they call the original code)",
]
ASSUMPTIONS = [
    "handlers do not raise; conditions are of the form name{k==v}; handler kwargs/conditions of plain-event handlers are C01's part",
    "liveness (callback exactly once) assumes fair clearing and fresh queues: no handler passes the queue object it was "
    "given on into another queue event (Mode.start did; fixes/C02-mode-start-no-queue-forward.patch)",
    "EventManager.stop() task cancellation and exceptions other than CancelledError in coroutine handlers are not covered",
]

MODE_HID = 900
TRIGGERS = (1, 3, 4)          # event ids of the three start events of a mode (2 = mode_<m>_starting)


def mode_hid(trigger):
    return MODE_HID + (trigger - 1)


def reg_fields(r):
    """[ev, hid, prio, body, registered data kwargs, registered queue index or None, condition [k, v] or None]"""
    r = list(r) + [[], None, None][len(r) - 4:] if len(r) < 7 else list(r)
    return r


def canon_args(kwargs):
    return sorted([int(k[1:]), v] for k, v in kwargs.items() if k[:1] == "k" and k[1:].isdigit())


def merged_expect(posted, hkw):
    d = dict((k, v) for k, v in posted)
    for k, v in hkw:
        d[k] = v
    return sorted([k, v] for k, v in d.items())

# ------------------------------------------------------------------------------------------------
# worker state
_W = {"rig": None, "mrig": None, "patched": False}
CUR = None           # the Run currently executing in this worker


def _patch():
    """Class-level logging wrappers (worker process only); each calls the original."""
    if _W["patched"]:
        return
    _W["patched"] = True
    from mpf.core import events as E
    from mpf.core.mode import Mode
    o_wait, o_clear = E.QueuedEvent.wait, E.QueuedEvent.clear
    o_adapter = E.EventManager._async_handler_coroutine
    o_start, o_started = Mode.start, Mode._started

    def wait(self):
        run = CUR
        if run is None or id(self) not in run.qnum:
            return o_wait(self)
        if run.aborted:
            return None
        try:
            o_wait(self)
        except AssertionError:
            run.error()
            return None
        run.log.append(["W", run.qnum[id(self)]])
        if run.in_mode is not None:
            run.outst.append(["m", self, run.in_mode])
        elif not run.in_adapter:
            run.outst.append(["w", self])
        return None

    def clear(self):
        run = CUR
        if run is None or id(self) not in run.qnum:
            return o_clear(self)
        if run.aborted:
            return None
        try:
            o_clear(self)
        except AssertionError:
            run.error()
            return None
        run.log.append(["C", run.qnum[id(self)]])
        for k, it in enumerate(run.outst):
            if it[0] in ("w", "m") and it[1] is self:
                del run.outst[k]
                break
        return None

    def adapter(self, _coroutine, queue, **kwargs):
        run = CUR
        if run is None or not hasattr(_coroutine, "_c02_hid"):
            return o_adapter(self, _coroutine, queue, **kwargs)
        if run.aborted:
            return None
        q = run.num(queue)
        psn = run.mode_psn if getattr(_coroutine, "_c02_mode", False) else kwargs.get("_psn")
        run.log.append(["I", psn, _coroutine._c02_hid, q])
        run.log.append(["A", canon_args(kwargs)])
        run.in_adapter = True
        try:
            return o_adapter(self, _coroutine, queue, _q=q, **kwargs)
        finally:
            run.in_adapter = False

    def start(self, mode_priority=None, callback=None, **kwargs):
        run = CUR
        if run is None or run.mode != self.name:
            return o_start(self, mode_priority, callback, **kwargs)
        if run.aborted:
            return None
        queue = kwargs.get("queue")
        psn = kwargs.get("_psn")
        trigger = run.posts.get(str(psn), [None, None, 1])[2]
        hid = mode_hid(trigger)
        q = run.num(queue)
        run.log.append(["I", psn, hid, q])
        run.log.append(["A", canon_args(kwargs)])
        was = bool(self._starting or self._active)
        mark = len(run.log)
        run.in_mode = self.name
        try:
            o_start(self, mode_priority, callback, **kwargs)
        finally:
            run.in_mode = None
        started = bool(self._starting and not was)
        waited = ["W", q] in run.log[mark:]
        if started:
            run.mode_psn = run.alloc()
            run.qposts.append(run.mode_psn)
            run.log.append(["Q", run.mode_psn])
        run.mode_reqs.append({"hid": hid, "psn": psn, "busy": was, "started": started, "waited": waited, "q": q})
        return None

    def started(self, **kwargs):
        run = CUR
        if run is not None and run.mode == self.name and not run.aborted:
            run.log.append(["CB", run.mode_psn])
        return o_started(self, **kwargs)

    E.QueuedEvent.wait = wait
    E.QueuedEvent.clear = clear
    E.EventManager._async_handler_coroutine = adapter
    Mode.start = start
    Mode._started = started


class Run:
    def __init__(self, em, loop, prefix, mode=None):
        self.em = em
        self.loop = loop
        self.prefix = prefix
        self.mode = mode
        self.qnum = {}
        self.qobjs = []
        self.log = []
        self.outst = []
        self.psn = 0
        self.aborted = False
        self.failed = False
        self.in_adapter = False
        self.in_mode = None
        self.mode_psn = None
        self.keys = {}
        self.qposts = []
        self.shared_used = False
        self.evname = {}
        self.posts = {}
        self.pre = []
        self.mode_reqs = []

    def preallocate(self, n):
        from mpf.core.events import QueuedEvent
        for _ in range(n):
            q = QueuedEvent(self.em.debug_log)
            self.pre.append(q)
            self.num(q)

    def name(self, ev):
        return self.evname.get(ev, "%s_e%d" % (self.prefix, ev))

    def num(self, queue):
        if id(queue) not in self.qnum:
            self.qnum[id(queue)] = len(self.qobjs)
            self.qobjs.append(queue)
        return self.qnum[id(queue)]

    def alloc(self):
        self.psn += 1
        return self.psn - 1

    def error(self):
        if not self.failed:
            self.log.append(["E"])
        self.failed = True
        self.aborted = True

    def make_cb(self, psn):
        def cb(**kwargs):
            if not self.aborted:
                self.log.append(["CB", psn])
        return cb

    def release(self, k):
        n = len(self.outst)
        if not n:
            return
        it = self.outst.pop(k % n)
        if it[0] == "w":
            it[1].clear()
        elif it[0] == "f":
            it[1].set_result(None)
        else:                                   # a mode holds this wait: it is released when the mode stops
            self.outst.insert(k % n, it)        # (removed by the clear wrapper)
            self.em.post("stop_" + it[2])

    def execute(self, acts, own):
        for a in acts:
            if self.aborted:
                return
            k = a[0]
            if k == "W":
                if own is not None:
                    own.wait()
            elif k == "CO":
                if own is not None:
                    own.clear()
            elif k == "CN":
                self.release(a[1])
            elif k == "XN":
                n = len(self.outst)
                if n and self.outst[a[1] % n][0] == "f":
                    self.outst.pop(a[1] % n)[1].cancel()       # the coroutine's await raises CancelledError
            elif k == "PQ":
                psn = self.alloc()
                kw = {"_psn": psn}
                data = a[3] if len(a) > 3 else []
                for k, v in data:
                    kw["k%d" % k] = v
                shq = None
                if a[2] and own is not None:
                    kw["queue"] = own
                    self.shared_used = True
                    shq = self.qnum[id(own)]
                self.posts[str(psn)] = [canon_args(kw), shq, a[1]]
                self.qposts.append(psn)
                self.log.append(["Q", psn])
                self.em.post_queue(self.name(a[1]), self.make_cb(psn), **kw)
            elif k == "PP":
                psn = self.alloc()
                self.em.post(self.name(a[1]), _psn=psn)
            elif k == "RM":
                if a[1] in self.keys:
                    self.em.remove_handler_by_key(self.keys[a[1]])

    def make_sync(self, hid, acts, mode_handler=False):
        def handler(queue=None, **kwargs):
            if self.aborted:
                return
            psn = self.mode_psn if mode_handler else kwargs.get("_psn")
            if queue is not None:
                self.log.append(["I", psn, hid, self.num(queue)])
                self.log.append(["A", canon_args(kwargs)])
            else:
                self.log.append(["P", psn, hid])
            self.execute(acts, queue)
        return handler

    def make_async(self, hid, aw, mode_handler=False, raise_cancelled=False):
        async def coro(_q=None, **kwargs):
            if self.aborted:
                return
            if aw:
                fut = self.loop.create_future()
                self.outst.append(["f", fut, _q])
                await fut
            if raise_cancelled and not self.aborted:
                raise asyncio.CancelledError()                 # the task ends CANCELLED instead of finished
        coro._c02_hid = hid
        coro._c02_mode = mode_handler
        return coro

    def register(self, ev, hid, prio, body, hkw=(), hq=None, cond=None, mode_handler=False):
        name = self.name(ev)
        if cond is not None:
            name += "{k%d==%d}" % (cond[0], cond[1])
        kw = {"k%d" % k: v for k, v in hkw}
        if hq is not None:
            kw["queue"] = self.pre[hq]
            self.shared_used = True
        if body[0] == "s":
            self.keys[hid] = self.em.add_handler(name, self.make_sync(hid, body[1], mode_handler), priority=prio, **kw)
        else:
            self.keys[hid] = self.em.add_async_handler(
                name, self.make_async(hid, body[1], mode_handler, len(body) > 2 and body[2]), priority=prio, **kw)

    def observe(self, tasks):
        if self.failed:
            log = self.log[:self.log.index(["E"]) + 1]
            return {"log": log, "pending": 0, "outst": [], "err": True}
        outst = []
        for it in self.outst:
            outst.append(["f", it[2]] if it[0] == "f" else ["w", self.qnum[id(it[1])]])
        return {"log": self.log, "pending": len(tasks), "outst": outst, "err": False}

    def cleanup(self, tasks):
        self.aborted = True
        for t in tasks:
            t.remove_done_callback(self.em._queue_task_done)
            t.cancel()
            if t in self.em._queue_tasks:
                self.em._queue_tasks.remove(t)
        for it in self.outst:
            if it[0] == "f" and not it[1].done():
                it[1].set_result(None)
        for key in self.keys.values():
            self.em.remove_handler_by_key(key)


# ------------------------------------------------------------------------------------------------
# suite "queue": a fresh EventManager on the rig's loop
def _init_queue():
    from rig import Rig
    if _W.get("boot_error"):
        return
    try:
        _patch()
        if _W["rig"] is None:
            _W.setdefault("n", 0)
            _W["rig"] = Rig({}).start()
    except BaseException as e:      # a tree on which MPF does not even boot: report it as data, do not kill the worker
        _W["boot_error"] = "%s: %s" % (type(e).__name__, str(e)[:300])


def _boot_failed():
    return {"log": [], "pending": 0, "outst": [], "err": False, "qposts": [], "shared": False,
            "boot_error": _W["boot_error"], "seen": [], "returned": [], "cbs": []}


def _drop_rig(which):
    try:
        _W[which].stop()
    except BaseException:
        pass
    _W[which] = None


def gen_actions(rng, ev, nev, hids, in_queue_handler, kinds):
    acts = []
    waited = False
    n = rng.choice([0, 1, 1, 2, 2, 3])
    for _ in range(n):
        r = rng.random()
        if in_queue_handler and r < 0.35 and (not waited or rng.random() < 0.05):
            acts.append(["W"])
            waited = True
            if rng.random() < 0.2:
                acts.append(["CO"])
                waited = False
        elif in_queue_handler and r < 0.40 and (waited or rng.random() < 0.1):
            acts.append(["CO"])
            waited = False
        elif r < 0.55:
            acts.append(["CN", rng.randrange(4)])
        elif r < 0.90 and ev < nev:
            tgt = rng.randint(ev + 1, nev)
            if kinds[tgt] == "q":
                acts.append(["PQ", tgt, in_queue_handler and rng.random() < 0.12, gen_kw(rng)])
            else:
                acts.append(["PP", tgt])
        elif r < 0.97 and hids:
            acts.append(["RM", rng.choice(hids)])
    return acts


def gen_kw(rng):
    """data kwargs over a small key range so that posted and registered keys collide"""
    return [[rng.randint(1, 3), rng.randint(0, 2)] for _ in range(rng.choice([0, 0, 1, 1, 2, 3]))]


def gen_queue(rng, tier, i):
    nev = rng.randint(2, 6)
    kinds = {e: ("q" if rng.random() < 0.7 else "p") for e in range(1, nev + 1)}
    kinds[1] = "q"
    nh = {e: rng.choice([0, 1, 1, 2, 2, 3]) for e in kinds}
    hids = []
    plan = []
    for e in kinds:
        for _ in range(nh[e]):
            hids.append(len(hids) + 1)
            plan.append((e, hids[-1]))
    rng.shuffle(plan)                    # registration order is independent of the event
    regs = []
    for e, hid in plan:
        prio = rng.choice([1, 1, 2, 5, 5, 10])
        if kinds[e] == "q" and rng.random() < 0.3:
            body = ["a", rng.random() < 0.6, rng.random() < 0.25]      # [await a future?, end with CancelledError?]
        else:
            body = ["s", gen_actions(rng, e, nev, hids, kinds[e] == "q", kinds)]
        hkw, hq, cond = [], None, None
        if kinds[e] == "q":
            if rng.random() < 0.45:
                d = {}
                for k, v in gen_kw(rng) or [[rng.randint(1, 3), rng.randint(0, 2)]]:
                    d[k] = v                      # a Python call cannot repeat a keyword
                hkw = [[k, v] for k, v in d.items()]
            if rng.random() < 0.03:
                hq = rng.randrange(2)              # registered with queue=<object allocated before the run>
            if rng.random() < 0.2:
                cond = [rng.randint(1, 3), rng.randint(0, 2)]
        regs.append([e, hid, prio, body, hkw, hq, cond])

    def posts(k):
        out = []
        for _ in range(k):
            e = rng.randint(1, nev)
            out.append(["PQ", e, False, gen_kw(rng)] if kinds[e] == "q" else ["PP", e])
        return out
    env = [posts(rng.choice([1, 1, 2, 3]))]
    for _ in range(rng.randint(1, 7)):
        r = rng.random()
        if r < 0.6:
            env.append([["XN" if rng.random() < 0.2 else "CN", rng.randrange(5)] for _ in range(rng.choice([1, 1, 1, 2, 3]))])
        elif r < 0.8:
            env.append(posts(1) + ([["CN", rng.randrange(5)]] if rng.random() < 0.5 else []))
        elif r < 0.9 and hids:
            env.append([["RM", rng.choice(hids)]] + posts(rng.choice([0, 1])))
        else:
            env.append([["CN", rng.randrange(5)], ["PQ", 1, False, gen_kw(rng)]])
    if rng.random() < 0.7:                # fair clearing: release everything that is still outstanding
        env += [[["CN", rng.randrange(3)]] for _ in range(rng.choice([6, 10, 14]))]
    return {"kinds": {str(k): v for k, v in kinds.items()}, "regs": regs, "env": env}


def run_queue(case):
    global CUR
    from mpf.core.events import EventManager
    _init_queue()
    if _W.get("boot_error"):
        return _boot_failed()
    rig = _W["rig"]
    _W["n"] += 1
    em = EventManager(rig.machine)
    run = Run(em, rig.loop, "c02_%d" % _W["n"])
    CUR = run
    try:
        try:
            regs = [reg_fields(r) for r in case["regs"]]
            run.preallocate(max([r[5] + 1 for r in regs if r[5] is not None] + [0]))
            for ev, hid, prio, body, hkw, hq, cond in regs:
                run.register(ev, hid, prio, body, hkw, hq, cond)
            for batch in case["env"]:
                if run.aborted:
                    break
                run.execute(batch, None)
                rig.advance(0.125)
        except Exception as e:          # an exception escaped from the event loop: the machine is gone
            out = run.observe([])
            out.update(qposts=run.qposts, shared=run.shared_used, posts=run.posts,
                       loop_exception="%s: %s" % (type(e).__name__, str(e)[:300]))
            run.aborted = True
            _drop_rig("rig")
            return out
        tasks = list(em._queue_tasks)
        out = run.observe(tasks)
        out["qposts"] = run.qposts
        out["shared"] = run.shared_used
        out["posts"] = run.posts
        try:
            run.cleanup(tasks)
            rig.advance(0.125)
        except Exception:
            _drop_rig("rig")
            return out
        if rig.exception():
            out["loop_exception"] = str(rig.exception())[:300]
            rig._exception = None
        return out
    finally:
        CUR = None


# --- printing for Coq ---------------------------------------------------------------------------
def nlit(n):
    return "%d%%nat" % n


def c_action(a):
    k = a[0]
    if k == "W":
        return "AWait"
    if k == "CO":
        return "AClearOwn"
    if k == "CN":
        return "(AClearNth %s)" % nlit(a[1])
    if k == "XN":
        return "(ACancelNth %s)" % nlit(a[1])
    if k == "PQ":
        return "(APostQ %s %s %s)" % (zlit(a[1]), blit(a[2]), c_zz(a[3] if len(a) > 3 else []))
    if k == "PP":
        return "(APostP %s)" % zlit(a[1])
    if k == "RM":
        return "(ARemove %s)" % zlit(a[1])
    raise ValueError(a)


def c_zz(kw):
    return coqlist("(%s, %s)" % (zlit(k), zlit(v)) for k, v in kw)


def c_handler(r):
    ev, hid, prio, body, hkw, hq, cond = reg_fields(r)
    return "(%s, mkH %s %s %s %s %s %s)" % (
        zlit(ev), zlit(hid), zlit(prio), c_zz(hkw), "None" if hq is None else "(Some %s)" % nlit(hq),
        "None" if cond is None else "(Some (%s, %s))" % (zlit(cond[0]), zlit(cond[1])), c_body(body))


def c_body(b):
    if b[0] == "s":
        return "(HSync %s)" % coqlist(c_action(a) for a in b[1])
    return "(HAsync %s)" % blit(b[1])


def c_obs(o):
    k = o[0]
    if k == "I":
        return "(LInvoke %s %s %s)" % (nlit(o[1]), zlit(o[2]), nlit(o[3]))
    if k == "A":
        return "(LArgs %s)" % c_zz(o[1])
    if k == "P":
        return "(LPlain %s %s)" % (nlit(o[1]), zlit(o[2]))
    if k == "CB":
        return "(LCallback %s)" % nlit(o[1])
    if k == "Q":
        return "(LPostQ %s)" % nlit(o[1])
    if k == "W":
        return "(LWait %s)" % nlit(o[1])
    if k == "C":
        return "(LClear %s)" % nlit(o[1])
    if k == "E":
        return "(LErr 0)"
    raise ValueError(o)


def c_outcome(out):
    outst = coqlist("(%s %s)" % ("OWait" if k == "w" else "OFut", nlit(q)) for k, q in out["outst"])
    return "(mkO %s %s %s %s true)" % (coqlist(c_obs(o) for o in out["log"]), nlit(out["pending"]), outst,
                                       blit(out["err"]))


def c_input(regs, env):
    r = coqlist(c_handler(x) for x in regs)
    e = coqlist(coqlist(c_action(a) for a in b) for b in env)
    return "(%s, %s)" % (r, e)


def log_ok(out):
    for o in out["log"]:
        if o[0] != "A" and any(x is None for x in o[1:]):
            return False
    return True


def coq_queue(case, out):
    if out.get("loop_exception") or out.get("boot_error") or not log_ok(out):
        return None
    return "(%s, %s)" % (c_input(case["regs"], case["env"]), c_outcome(out))


# --- the property's own predicate on the implementation's log -------------------------------------
def oracle_log(out, regs, removed_possible, check_live=True):
    """regs: {event: [(hid, prio)] in registration order}, out: observation of the implementation"""
    fails = []
    if out.get("boot_error"):
        return [{"sig": "machine-does-not-boot", "what": "MPF does not boot on this tree: " + out["boot_error"]}]
    if out.get("loop_exception"):
        return [{"sig": "loop-exception", "what": "exception in the event loop: " + out["loop_exception"]}]
    if out["err"]:
        return []                # a handler script misused its queue (double lock / not locked): outside the property
    log = out["log"]
    cb = {}
    inv = {}                      # psn -> list of (hid, q)
    waits = {}                    # (psn, hid) -> list of [q, cleared]
    open_wait = {}                # q -> record of the wait currently registered on q
    cur = None
    for o in log:
        k = o[0]
        if k == "I":
            psn = o[1]
            for h0, _ in inv.get(psn, []):
                for w in waits.get((psn, h0), []):
                    if not w[1]:
                        fails.append({"sig": "not-sequential",
                                      "what": "handler %s of post %s invoked while the wait of handler %s is outstanding"
                                              % (o[2], psn, h0)})
            if psn in cb:
                fails.append({"sig": "handler-after-callback", "what": "post %s: handler %s after the callback" % (psn, o[2])})
            inv.setdefault(psn, []).append((o[2], o[3]))
            cur = (psn, o[2])
        elif k == "P":
            cur = None
        elif k == "W":
            rec = [o[1], False]
            if cur is not None:
                waits.setdefault(cur, []).append(rec)
            open_wait[o[1]] = rec
        elif k == "C":
            if o[1] in open_wait:
                open_wait.pop(o[1])[1] = True
        elif k == "CB":
            psn = o[1]
            cb[psn] = cb.get(psn, 0) + 1
            if cb[psn] > 1:
                fails.append({"sig": "callback-twice", "what": "callback of post %s fired %d times" % (psn, cb[psn])})
            for h0, _ in inv.get(psn, []):
                for w in waits.get((psn, h0), []):
                    if not w[1]:
                        fails.append({"sig": "callback-before-clear",
                                      "what": "callback of post %s while the wait of handler %s is outstanding" % (psn, h0)})
    # priority order of the invoked handlers of every dispatch
    prio = {}
    order = {}
    for ev, hs in regs.items():
        for n, (hid, p) in enumerate(hs):
            prio[hid] = (-p, n)
    for psn, hs in inv.items():
        keys = [prio[h] for h, _ in hs if h in prio]
        if keys != sorted(keys):
            fails.append({"sig": "priority-order", "what": "post %s: handlers invoked in order %s" % (psn, [h for h, _ in hs])})
    if check_live and not out["outst"]:
        # every wait has been released and the loop is idle: every queue event must have completed
        for psn in out["qposts"]:
            if cb.get(psn, 0) != 1:
                if out.get("shared"):
                    sig = "shared-queue-never-completes"
                elif psn not in inv and out["pending"] == 0:
                    sig = "handlers-removed-callback-lost"
                else:
                    sig = "callback-lost"
                fails.append({"sig": sig, "what": "queue event (post %s) never completed although no wait is outstanding "
                                                  "(callbacks=%d, dispatchers still pending=%d)" % (psn, cb.get(psn, 0), out["pending"])})
                break
    return fails


def cond_holds(cond, merged):
    if cond is None:
        return True
    d = dict((k, v) for k, v in merged)
    return cond[0] in d and d[cond[0]] == cond[1]


def oracle_queue(case, out):
    regs = {}
    H = {}
    for r in case["regs"]:
        ev, hid, prio, body, hkw, hq, cond = reg_fields(r)
        regs.setdefault(ev, []).append((hid, prio))
        H[hid] = (ev, hkw, hq, cond)
    fails = oracle_log(out, regs, True, check_live=not out.get("shared"))
    if out.get("err") or out.get("loop_exception") or out.get("boot_error"):
        return fails
    posts = out.get("posts", {})
    log = out["log"]
    # the arguments every queue-event handler receives: posted kwargs overridden by its registered kwargs, plus queue
    nseen = max([H[h][2] + 1 for h in H if H[h][2] is not None] + [0])
    for n, o in enumerate(log):
        if o[0] != "I" or o[2] not in H or str(o[1]) not in posts:
            continue
        psn, hid, q = o[1], o[2], o[3]
        ev, hkw, hq, cond = H[hid]
        pkw, shq = posts[str(psn)][0], posts[str(psn)][1]
        want = merged_expect(pkw, hkw)
        got = log[n + 1][1] if n + 1 < len(log) and log[n + 1][0] == "A" else None
        if got != want:
            fails.append({"sig": "handler-kwargs", "what": "handler %s of post %s was called with %s; posted %s overridden by "
                                                           "registered %s is %s" % (hid, psn, got, pkw, hkw, want)})
        if not cond_holds(cond, want):
            fails.append({"sig": "condition-ignored", "what": "handler %s (condition %s) invoked with %s" % (hid, cond, want)})
        wantq = hq if hq is not None else shq
        if wantq is None:
            wantq = nseen
            nseen += 1
        if q != wantq:
            fails.append({"sig": "handler-queue", "what": "handler %s of post %s got queue object #%s, expected #%s "
                                                          "(registered %s, posted %s)" % (hid, psn, q, wantq, hq, shq)})
    if not _uses_remove(case):
        # without removals: the callback comes after ALL registered handlers of the event whose condition holds
        cbs = set(o[1] for o in log if o[0] == "CB")
        inv = {}
        for o in log:
            if o[0] == "I":
                inv.setdefault(o[1], []).append(o[2])
        for psn in cbs:
            if str(psn) not in posts:
                continue
            pkw, _, ev = posts[str(psn)]
            want = [h for h, p in sorted(regs.get(ev, []), key=lambda x: -x[1])
                    if cond_holds(H[h][3], merged_expect(pkw, H[h][1]))]
            if inv.get(psn, []) != want:
                fails.append({"sig": "callback-before-all-handlers",
                              "what": "post %s completed after handlers %s; registered with a true condition (priority "
                                      "order): %s" % (psn, inv.get(psn, []), want)})
    return fails


def _uses_remove(case):
    def has(acts):
        return any(a[0] == "RM" for a in acts)
    return any(has(b) for b in case["env"]) or any(r[3][0] == "s" and has(r[3][1]) for r in case["regs"])


def shrink_queue(case):
    regs, env = case["regs"], case["env"]
    for i in range(len(env)):
        yield dict(case, env=env[:i] + env[i + 1:])
    for i in range(len(regs)):
        yield dict(case, regs=regs[:i] + regs[i + 1:])
    for i, b in enumerate(env):
        for j in range(len(b)):
            if len(b) > 1:
                yield dict(case, env=env[:i] + [b[:j] + b[j + 1:]] + env[i + 1:])
    for i, r in enumerate(regs):
        r = reg_fields(r)
        body = r[3]
        if body[0] == "s":
            for j in range(len(body[1])):
                yield dict(case, regs=regs[:i] + [r[:3] + [["s", body[1][:j] + body[1][j + 1:]]] + r[4:]] + regs[i + 1:])
        else:
            yield dict(case, regs=regs[:i] + [r[:3] + [["s", []]] + r[4:]] + regs[i + 1:])
        if r[4] or r[5] is not None or r[6] is not None:
            yield dict(case, regs=regs[:i] + [r[:4] + [[], None, None]] + regs[i + 1:])
            yield dict(case, regs=regs[:i] + [r[:4] + [r[4], None, None]] + regs[i + 1:])


def nontrivial_queue(case, out):
    log = out.get("log", [])
    nested = any(r[3][0] == "s" and any(a[0] == "PQ" for a in r[3][1]) for r in case["regs"])
    waited = any(o[0] == "W" for o in log)
    return bool(log) and (nested or waited)


def describe_queue(case):
    na = sum(1 for r in case["regs"] if r[3][0] == "a")
    return "events=%d handlers=%s async=%s" % (len(case["kinds"]), min(len(case["regs"]), 9), min(na, 3))


# ------------------------------------------------------------------------------------------------
# suite "mode": a real Mode started from a queue event
MODES = {"m1": True, "m2": False}      # name -> use_wait_queue


def _boot_mode_rig():
    from rig import Rig
    modes = {}
    for name, uwq in MODES.items():
        modes[name] = {"mode": {"start_events": ["go%d_%s" % (t, name) for t in TRIGGERS],
                                "stop_events": ["stop_" + name], "priority": 100,
                                "use_wait_queue": uwq, "game_mode": False}}
    _W["mrig"] = Rig({"modes": sorted(MODES)}, modes=modes).start()


def _init_mode():
    if _W.get("boot_error"):
        return
    try:
        _patch()
        if _W["mrig"] is None:
            _boot_mode_rig()
    except BaseException as e:
        _W["boot_error"] = "%s: %s" % (type(e).__name__, str(e)[:300])


def gen_mode(rng, tier, i):
    mode = rng.choice(["m1", "m1", "m2"])
    hid = [0]

    def handlers(ev, n):
        out = []
        for _ in range(n):
            hid[0] += 1
            prio = rng.choice([1, 50, 100, 101, 150]) if ev != 2 else rng.choice([1, 2, 5])
            if rng.random() < 0.25:
                body = ["a", rng.random() < 0.6, rng.random() < 0.2]
            else:
                acts = []
                r = rng.random()
                if r < 0.45:
                    acts.append(["W"])
                    if rng.random() < 0.15:
                        acts.append(["CO"])
                body = ["s", acts]            # (no release-k-th here: the mode's own wait is released by stopping it)
            out.append([ev, hid[0], prio, body])
        return out
    regs = handlers(1, rng.choice([0, 1, 1, 2, 3])) + handlers(2, rng.choice([0, 1, 1, 2]))
    more = rng.random() < 0.6                 # further start requests for the same mode while it is starting / active
    if more:
        regs += handlers(3, rng.choice([0, 0, 1, 2])) + handlers(4, rng.choice([0, 0, 1]))
    rng.shuffle(regs)
    env = [[["PQ", 1, False]]]
    if more and rng.random() < 0.3:
        env[0].append(["PQ", 3, False])       # two start requests in the same loop slice
    later = [t for t in (3, 4) if more and ["PQ", t, False] not in env[0]]
    for _ in range(rng.randint(0, 7)):
        r = rng.random()
        if later and r < 0.3:
            env.append([["PQ", later.pop(0), False]])
        elif r < 0.45:
            env.append([["ST"]])              # stop request
        else:
            env.append([["XN" if rng.random() < 0.15 else "CN", rng.randrange(4)]])
    if rng.random() < 0.75:
        env += [[["CN", rng.randrange(2)]] for _ in range(8)]
        if rng.random() < 0.5:
            env += [[["ST"]]] + [[["CN", rng.randrange(2)]] for _ in range(3)]
    return {"mode": mode, "regs": regs, "env": env}


def run_mode(case):
    global CUR
    _init_mode()
    if _W.get("boot_error"):
        return dict(_boot_failed(), resolved=[], mode_active=False, mode_starting=False, mode_holds=False,
                    mode_hold_q=[], mode_reqs=[])
    rig = _W["mrig"]
    em = rig.machine.events
    mode = rig.machine.modes[case["mode"]]
    run = Run(em, rig.loop, "c02m", mode=case["mode"])
    run.evname = {2: "mode_%s_starting" % case["mode"]}
    for t in TRIGGERS:
        run.evname[t] = "go%d_%s" % (t, case["mode"])
    before = list(em._queue_tasks)
    CUR = run
    reboot = False
    try:
        return _run_mode_inner(case, rig, em, mode, run, before)
    except Exception as e:
        run.aborted = True
        out = run.observe([])
        out.update(qposts=run.qposts, shared=False, resolved=[], mode_active=False, mode_starting=False,
                   mode_holds=False, mode_hold_q=[], mode_reqs=run.mode_reqs, loop_exception="%s: %s" % (type(e).__name__, str(e)[:300]))
        _drop_rig("mrig")
        return out
    finally:
        CUR = None


def _run_mode_inner(case, rig, em, mode, run, before):
    reboot = False
    try:
        for ev, hid, prio, body in case["regs"]:
            run.register(ev, hid, prio, body, mode_handler=(ev == 2))
        resolved = []
        for batch in case["env"]:
            if run.aborted:
                break
            acts = []
            for act in batch:
                if act[0] == "CN":
                    n = len(run.outst)
                    if not n:
                        continue
                    k = act[1] % n
                    if run.outst[k][0] == "m" and not mode.active:
                        # the mode's wait can only be released by stopping an ACTIVE mode: environment picks another one
                        others = [j for j in range(n) if run.outst[j][0] != "m"]
                        if not others:
                            continue
                        k = others[act[1] % len(others)]
                    act = ["CN", k]
                elif act[0] == "ST":
                    held = [j for j, it in enumerate(run.outst) if it[0] == "m"]
                    if mode.active and held:
                        act = ["CN", held[0]]        # stopping the mode releases the wait it holds
                    else:
                        em.post("stop_" + case["mode"])    # nothing held (or not active): no effect on queue events
                        continue
                acts.append(act)
                run.execute([act], None)
            resolved.append(acts)
            rig.advance(0.125)
        tasks = [t for t in em._queue_tasks if t not in before]
        out = run.observe(tasks)
        out["qposts"] = run.qposts
        out["shared"] = False
        out["posts"] = {}
        out["resolved"] = resolved
        out["mode_active"] = bool(mode.active)
        out["mode_starting"] = bool(mode._starting)
        out["mode_holds"] = any(it[0] == "m" for it in run.outst)
        out["mode_hold_q"] = [run.qnum[id(it[1])] for it in run.outst if it[0] == "m"]
        out["mode_reqs"] = run.mode_reqs
        run.cleanup(tasks)
        rig.advance(0.125)
        if mode.active:
            mode.stop()
            rig.advance(0.125)
        if mode.active or mode._starting or mode.stopping or mode._mode_start_wait_queue is not None:
            reboot = True
        if rig.exception():
            out["loop_exception"] = str(rig.exception())[:300]
            reboot = True
        return out
    finally:
        if reboot:
            _drop_rig("mrig")


def mode_regs(case, out):
    """Mode.start is registered (at boot, before the case's handlers) on every start event.  Whether a given start
    request starts the mode or is ignored (mode already starting / active) is the implementation's decision, checked
    by the oracle and handed to the model as that handler's script (model of the FIXED Mode.start, or nothing)."""
    uwq = MODES[case["mode"]]
    started = set(r["hid"] for r in out.get("mode_reqs", []) if r["started"])
    regs = []
    for t in TRIGGERS:
        script = "(mode_start_script %s false 2)" % blit(uwq) if mode_hid(t) in started else "[]"
        regs.append("(%s, mkH %s 100 [] None None (HSync %s))" % (zlit(t), zlit(mode_hid(t)), script))
    for r in case["regs"]:
        regs.append(c_handler(r))
    return coqlist(regs)


def coq_mode(case, out):
    if out.get("loop_exception") or out.get("boot_error") or not log_ok(out):
        return None
    env = coqlist(coqlist(c_action(a) for a in b) for b in out["resolved"])
    return "((%s, %s), %s)" % (mode_regs(case, out), env, c_outcome(out))


def oracle_mode(case, out):
    regs = {2: []}
    for t in TRIGGERS:
        regs[t] = [(mode_hid(t), 100)]
    for ev, hid, prio, body in case["regs"]:
        regs[ev].append((hid, prio))
    fails = oracle_log(out, regs, False, check_live=False)
    if out.get("loop_exception") or out.get("boot_error") or out["err"]:
        return fails
    uwq = MODES[case["mode"]]
    log = out["log"]
    cbs = [o[1] for o in log if o[0] == "CB"]
    reqs = out.get("mode_reqs", [])
    for r in reqs:
        if r["busy"] and r["started"]:
            fails.append({"sig": "mode-started-twice", "what": "start request (post %s) started mode %s although it was "
                                                               "starting/active" % (r["psn"], case["mode"])})
        if not r["busy"] and not r["started"]:
            fails.append({"sig": "start-request-dropped", "what": "start request (post %s) for the idle mode %s was ignored"
                                                                  % (r["psn"], case["mode"])})
        if not r["started"] and r["waited"]:
            fails.append({"sig": "ignored-start-holds-event",
                          "what": "start request (post %s) was ignored (mode %s starting/active) but locked its queue event"
                                  % (r["psn"], case["mode"])})
        if r["started"] and r["waited"] != uwq:
            fails.append({"sig": "mode-wait-queue", "what": "mode %s (use_wait_queue=%s) started by post %s: waited=%s"
                                                            % (case["mode"], uwq, r["psn"], r["waited"])})
    hold_q = out.get("mode_hold_q", [])
    if len(hold_q) > 1:
        fails.append({"sig": "ignored-start-holds-event", "what": "mode %s holds %d queue events" % (case["mode"], len(hold_q))})
    other = [x for x in out["outst"] if not (x[0] == "w" and x[1] in hold_q)]
    if reqs and not other:
        # every wait except the one the mode itself holds is released and the loop is idle
        if hold_q and not out["mode_active"]:
            sig = "mode-stuck-starting" if out["mode_starting"] else "mode-not-active"
            fails.append({"sig": sig, "what": "mode %s holds the start queue but is not active (starting=%s): it can never "
                                              "be stopped, the triggering queue event never completes"
                                              % (case["mode"], out["mode_starting"])})
        else:
            holders = set(r["psn"] for r in reqs if r["q"] in hold_q)
            for psn in out["qposts"]:
                want = 0 if psn in holders else 1
                if cbs.count(psn) != want:
                    fails.append({"sig": "mode-start-event-incomplete" if cbs.count(psn) < want else "callback-twice",
                                  "what": "nothing but the active mode's own wait is outstanding: queue event (post %s) "
                                          "completed %d times, expected %d" % (psn, cbs.count(psn), want)})
                    break
            if out["pending"] != len(holders):
                fails.append({"sig": "mode-start-event-incomplete",
                              "what": "%d dispatchers pending, %d events held by the mode" % (out["pending"], len(holders))})
    return fails


def shrink_mode(case):
    regs, env = case["regs"], case["env"]
    for i in range(len(regs)):
        yield dict(case, regs=regs[:i] + regs[i + 1:])
    for i in range(1, len(env)):
        yield dict(case, env=env[:i] + env[i + 1:])
    for i, (ev, hid, prio, body) in enumerate(regs):
        if body != ["s", []]:
            yield dict(case, regs=regs[:i] + [[ev, hid, prio, ["s", []]]] + regs[i + 1:])


def nontrivial_mode(case, out):
    return MODES[case["mode"]] or any(r[0] == 2 for r in case["regs"]) or len(out.get("mode_reqs", [])) > 1


def describe_mode(case):
    nreq = sum(1 for b in case["env"] for a in b if a[0] == "PQ")
    return "%s starting_handlers=%d start_requests=%d stops=%s" % (
        case["mode"], sum(1 for r in case["regs"] if r[0] == 2), nreq,
        min(2, sum(1 for b in case["env"] for a in b if a[0] == "ST")))


# ------------------------------------------------------------------------------------------------
# suite "sync": relay / boolean / plain events through _run_handlers and _process_event
def gen_result(rng):
    r = rng.random()
    if r < 0.2:
        return ["n"]
    if r < 0.45:
        return ["b", rng.random() < 0.5]
    if r < 0.6:
        return ["i", rng.choice([0, 0, 1, 5, -3])]
    return ["d", [[rng.randint(1, 4), rng.randint(-5, 5)] for _ in range(rng.choice([0, 1, 1, 2, 3]))]]


def gen_sync(rng, tier, i):
    typ = rng.choice(["relay", "relay", "boolean", "boolean", "plain"])
    hs = []
    for hid in range(1, rng.choice([0, 1, 2, 3, 4, 5, 5]) + 1):
        r = rng.random()
        if r < 0.5:
            beh = ["const", gen_result(rng)]
        elif r < 0.8:
            beh = ["incr", rng.randint(1, 4)]
        else:
            beh = ["falseif", rng.randint(1, 4), rng.randint(0, 3)]
        hs.append([hid, rng.choice([1, 1, 2, 5, 5, 10]), beh])
    kw = []
    for k in rng.sample([1, 2, 3, 4, 5], rng.randint(0, 3)):
        kw.append([k, rng.randint(0, 3)])
    return {"type": typ, "hs": hs, "kw": kw}


def _py_result(t):
    if t[0] == "n":
        return None
    if t[0] in ("b", "i"):
        return t[1]
    d = {}
    for k, v in t[1]:
        d["k%d" % k] = v
    return d


def _tag_result(r):
    if r is None:
        return ["n"]
    if isinstance(r, bool):
        return ["b", r]
    if isinstance(r, int):
        return ["i", r]
    if isinstance(r, dict):
        return ["d", sorted([int(k[1:]), v] for k, v in r.items())]
    return ["?", repr(r)]


def _canon_kw(kwargs):
    return sorted([int(k[1:]), v] for k, v in kwargs.items() if k != "ev_result")


def run_sync(case):
    from mpf.core.events import EventManager
    _init_queue()
    if _W.get("boot_error"):
        return _boot_failed()
    rig = _W["rig"]
    _W["n"] += 1
    em = EventManager(rig.machine)
    name = "c02s_%d" % _W["n"]
    seen = []
    returned = []
    cbs = []

    def make(hid, beh):
        def handler(**kwargs):
            seen.append([hid, _canon_kw(kwargs)])
            if beh[0] == "const":
                r = _py_result(beh[1])
            elif beh[0] == "incr":
                r = {"k%d" % beh[1]: kwargs.get("k%d" % beh[1], 0) + 1}
            else:
                r = not (kwargs.get("k%d" % beh[1]) == beh[2])
            returned.append([hid, _tag_result(r)])
            return r
        return handler
    keys = [em.add_handler(name, make(hid, beh), priority=prio) for hid, prio, beh in case["hs"]]

    def cb(**kwargs):
        cbs.append({"kw": _canon_kw(kwargs), "has": "ev_result" in kwargs,
                    "evr": _tag_result(kwargs.get("ev_result"))})
    kw = {"k%d" % k: v for k, v in case["kw"]}
    post = {"relay": em.post_relay, "boolean": em.post_boolean, "plain": em.post}[case["type"]]
    try:
        post(name, cb, **kw)
        rig.advance(0.125)
    except Exception as e:
        _drop_rig("rig")
        return {"seen": seen, "returned": returned, "cbs": cbs, "loop_exception": "%s: %s" % (type(e).__name__, str(e)[:300])}
    for k in keys:
        em.remove_handler_by_key(k)
    return {"seen": seen, "returned": returned, "cbs": cbs}


def c_kw(kw):
    return coqlist("(%s, %s)" % (zlit(k), zlit(v)) for k, v in kw)


def c_result(t):
    if t[0] == "n":
        return "RNone"
    if t[0] == "b":
        return "(RBool %s)" % blit(t[1])
    if t[0] == "i":
        return "(RInt %s)" % zlit(t[1])
    return "(RDict %s)" % c_kw(t[1])


def c_beh(b):
    if b[0] == "const":
        t = b[1]
        if t[0] == "d":      # a dict literal with repeated keys keeps the last value
            d = {}
            for k, v in t[1]:
                d[k] = v
            t = ["d", [[k, v] for k, v in d.items()]]
        return "(BConst %s)" % c_result(t)
    if b[0] == "incr":
        return "(BIncr %s)" % zlit(b[1])
    return "(BFalseIf %s %s)" % (zlit(b[1]), zlit(b[2]))


def coq_sync(case, out):
    if out.get("loop_exception") or out.get("boot_error") or len(out["cbs"]) != 1:
        return None
    cb = out["cbs"][0]
    typ = {"relay": "TRelay", "boolean": "TBoolean", "plain": "TPlain"}[case["type"]]
    inp = "(%s, %s, %s)" % (typ, coqlist("(%s, %s, %s)" % (zlit(h), zlit(p), c_beh(b)) for h, p, b in case["hs"]),
                            c_kw(case["kw"]))
    if not cb["has"]:
        evr = "ENone"
    elif cb["evr"] == ["b", False]:
        evr = "EFalse"
    else:
        evr = "(ERes %s)" % c_result(cb["evr"])
    seen = coqlist("(%s, %s)" % (zlit(h), c_kw(kw)) for h, kw in out["seen"])
    return "(%s, (mkSO %s %s false RNone, %s))" % (inp, seen, c_kw(cb["kw"]), evr)


def oracle_sync(case, out):
    fails = []
    if out.get("boot_error"):
        return [{"sig": "machine-does-not-boot", "what": "MPF does not boot on this tree: " + out["boot_error"]}]
    if out.get("loop_exception"):
        return [{"sig": "loop-exception", "what": "exception in the event loop: " + out["loop_exception"]}]
    if len(out["cbs"]) != 1:
        return [{"sig": "sync-callback-count", "what": "callback fired %d times" % len(out["cbs"])}]
    cb = out["cbs"][0]
    order = [h for h, p, b in sorted(case["hs"], key=lambda x: -x[1])]
    seen = out["seen"]
    ret = dict((h, r) for h, r in out["returned"])
    kw = dict((k, v) for k, v in case["kw"])
    called = [h for h, _ in seen]
    expect_called = []
    aborted = False
    for h in order:
        expect_called.append(h)
        # what the handler must have seen: posted kwargs updated by all earlier dict results (relay only)
        mine = [s for s in seen if s[0] == h]
        if mine and mine[0][1] != sorted([k, v] for k, v in kw.items()):
            fails.append({"sig": "relay-fold" if case["type"] == "relay" else "kwargs-changed",
                          "what": "handler %s saw %s, expected %s" % (h, mine[0][1], sorted(kw.items()))})
            break
        r = ret.get(h)
        if r is None:
            break
        if case["type"] == "relay" and r[0] == "d":
            for k, v in r[1]:
                kw[k] = v
        if case["type"] == "boolean" and r == ["b", False]:
            aborted = True
            break
    if called != expect_called:
        fails.append({"sig": "boolean-first-false" if case["type"] == "boolean" else "sync-handler-order",
                      "what": "handlers called %s, expected %s" % (called, expect_called)})
    if cb["kw"] != sorted([k, v] for k, v in kw.items()):
        fails.append({"sig": "relay-final-kwargs" if case["type"] == "relay" else "callback-kwargs",
                      "what": "callback got %s, expected %s" % (cb["kw"], sorted(kw.items()))})
    if case["type"] == "boolean":
        if aborted and not (cb["has"] and cb["evr"] == ["b", False]):
            fails.append({"sig": "boolean-result", "what": "a handler returned False but the callback got ev_result=%s" % cb["evr"]})
        if not aborted and cb["has"] and cb["evr"] == ["b", False]:
            fails.append({"sig": "boolean-result", "what": "no handler returned False but ev_result is False"})
    return fails


def shrink_sync(case):
    hs = case["hs"]
    for i in range(len(hs)):
        yield dict(case, hs=hs[:i] + hs[i + 1:])
    for i in range(len(case["kw"])):
        yield dict(case, kw=case["kw"][:i] + case["kw"][i + 1:])


def nontrivial_sync(case, out):
    rs = [r for _, r in out.get("returned", [])]
    if case["type"] == "relay":
        return any(r[0] == "d" and r[1] for r in rs)
    if case["type"] == "boolean":
        return ["b", False] in rs
    return len(rs) > 1


def describe_sync(case):
    return "%s handlers=%d" % (case["type"], len(case["hs"]))


HDR_QUEUE = "From C02 Require Import Model.\nDefinition run := queue_run.\nDefinition out_eqb := outcome_eqb.\n"
HDR_SYNC = "From C02 Require Import Model.\nDefinition run := sync_run.\nDefinition out_eqb := sync_out_eqb.\n"

SUITES = [
    Suite("queue", gen_queue, run_queue, HDR_QUEUE, coq_queue, oracle_queue, shrink_queue, nontrivial_queue,
          {"quick": 1500, "thorough": 40000}, worker_init=_init_queue, shard=250, describe=describe_queue),
    Suite("mode", gen_mode, run_mode, HDR_QUEUE, coq_mode, oracle_mode, shrink_mode, nontrivial_mode,
          {"quick": 400, "thorough": 8000}, worker_init=_init_mode, shard=200, describe=describe_mode),
    Suite("sync", gen_sync, run_sync, HDR_SYNC, coq_sync, oracle_sync, shrink_sync, nontrivial_sync,
          {"quick": 1000, "thorough": 30000}, worker_init=_init_queue, shard=500, describe=describe_sync),
]

LEVEL_TEXT = ("Machine-checked proof (Coq) over an executable model of the event manager's queue-event machinery (asyncio "
              "ready queue, process_event_queue, sequential dispatcher tasks, QueuedEvent heap, coroutine adapter): for all "
              "handler scripts, nestings and environment schedules, a dispatcher never continues while the wait of its "
              "previous handler is outstanding, calls its callback at most once and only after its whole handler snapshot "
              "ran in priority order, and - when no handler hands its queue object on to another queue event - every "
              "posted queue event has completed exactly once whenever the loop is idle and nothing is outstanding; relay "
              "and boolean folding are proved against an independent specification.  The model is tied to /repo by "
              "running both on the same generated scripts on every run (real EventManager and real Mode objects).")
LEVEL_NOTE = ("Trusted: Coq kernel + vm_compute; no axioms.  Model hand-written; the asyncio FIFO scheduling it assumes is "
              "validated by the correspondence run.  Two defects of the unchanged tree are refuted on the model "
              "(nested_shared_queue_refuted, removed_handlers_callback_lost_refuted) and repaired by fixes/C02-*.patch; the "
              "model describes the fixed code.")
TECHNIQUE = "Coq proof (invariants over a small-step machine) + differential correspondence (vm_compute) + direct trace oracle"
DESIGN_REF = "DESIGN.md section 3, C02"
