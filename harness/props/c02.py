"""C02 — Queue, relay and boolean events complete exactly once and in order."""
import asyncio

from vlib import Suite, zlit, coqlist, blit

ID = "C02"
READY = True
RULE = ("queue: 2-6 events (queue / plain), 0-3 handlers each (sync scripts: wait, clear-own, release k-th outstanding "
        "wait, post queue/plain event to a later event with or without passing the own queue object on, remove a "
        "handler; registered data kwargs colliding with the posted ones, a registered queue object, conditions "
        "name{k==v}; add_async_handler coroutines that finish at once or await an environment future), environment "
        "scripts run between loop slices at distinct virtual instants (posts of several events at once, releases of "
        "outstanding waits in generated order, removals); non-trivial = at least one wait released by a later "
        "environment step or a queue event nested in a queue-event handler.  mode: a real Mode (use_wait_queue on/off) "
        "started by a queue event with generated handlers before/after Mode.start and on mode_<m>_starting; releases "
        "incl. stopping the mode; non-trivial = mode has use_wait_queue or a handler on mode_<m>_starting.  "
        "life: chains of 1-3 real modes (three with use_wait_queue, one without); the head mode is started by an outer "
        "queue event (sometimes also by a second queue or plain event), every further mode by a lifecycle event of its "
        "predecessor (mode_<p>_will_start / _starting / _started / _stopping / _stopped, generated priority); generated "
        "sync/async handlers on the outer events and on every mode's starting and stopping queue events (wait held until an "
        "environment release, wait+clear = zero hold, no wait); operations, one per loop slice: post an outer event (again), "
        "mode.stop(), release / cancel the k-th harness wait, and at the end three fair rounds stopping every mode and "
        "releasing everything; non-trivial = a mode held the queue of its start event and a stop was requested.  "
        "relock: 1-4 handlers of one queue event, each keeps its QueuedEvent and may wait; operations wait / clear on the "
        "kept queues from outside and loop runs in any order, 25 % clear+wait of the same queue in one loop slice; "
        "non-trivial = such a clear+wait pair was executed.  "
        "relay: the real queue_relay_player and queue_event_player configured in three contexts (machine-wide, two modes) "
        "on three queue events and four wait_for events (two of them shared by relays of different contexts), 0-4 "
        "generated sync/async handlers around them; one environment operation per loop slice: post a queue event, post a "
        "queue_event_player trigger, post a wait_for event, start / stop a mode, release a harness wait; non-trivial = a "
        "relay blocked a queue event.  ballend: ModeController._ball_ending on a real (fake-ball) game with three game "
        "modes and one non-game mode, each mode's mode_<n>_stopping queue event optionally held open; operations: start, "
        "stop by a third party, release a held stop, post ball_ending; non-trivial = a ball_ending posted while a mode is "
        "already stopping or one that stays open over several operations.  "
        "sync: relay/boolean/plain posts over 0-5 handlers with generated priorities, registered handler kwargs (40 %), "
        "blocking facilities (30 %), result behaviours incl. dicts with _min_priority and a block_event_player-like "
        "behaviour; posted WITHOUT arguments in 40 % of the cases, with a posted _min_priority in 10 %; "
        "non-trivial = a dict result (relay) or a False result (boolean) occurs")
TRUSTED_BASE = [
    "Coq 8.16.1 kernel (coqc), vm_compute for refutation witnesses and for evaluating the model in the correspondence run; no native_compute",
    "axioms: none (every Print Assumptions is 'Closed under the global context')",
    "hand-written model coq/C02/Model.v (EventManager._post/process_event_queue/_process_queue_event/_run_handlers_sequential/"
    "_run_handlers incl. handler kwargs and _min_priority blocking/_process_event, QueuedEvent, add_async_handler adapter, FIFO model "
    "of asyncio call_soon/create_task/Event.set), coq/C02/Relay.v (QueueRelayPlayer play/_callback/clear_context with registry and "
    "instance dicts as separate tables, QueueEventPlayer.play, composition with the event-manager machine), coq/C02/ModeCtl.v "
    "(ModeController._ball_ending/_mode_stopped_callback, Mode.stop/_stopped callback bookkeeping) "
    "coq/C02/Life.v (Mode.start as a handler script, Mode._started / Mode.stop / Mode._stopped composed with the event-manager "
    "machine step by step, mode table; input unrolled per event instance) and coq/C02/Relock.v (one dispatcher against wait/clear "
    "from outside, both dispatcher versions), "
    "tied to /repo by correspondence: harness/props/c02.py runs the real EventManager / Mode / config players / ModeController on "
    "the rig and the model on the same scripts",
    "CPython asyncio (call_soon FIFO, Task wake-up through call_soon, Event.set) is MODELLED and validated on every run",
    "harness instrumentation: class-level logging wrappers around QueuedEvent.wait/clear, EventManager._async_handler_coroutine, "
    "EventManager.post (records watched event names), Mode.start, Mode._started, QueueRelayPlayer.play, QueueEventPlayer.play "
    "(adds a `_psn` entry to the entry's args so that handlers and the callback can be attributed to the post) and "
    "QueueEventPlayer._callback inside the worker process (they call the original code)",
    "relay suite: the composition reads the relay player's registrations off the machine log after every batch; sound because "
    "there is one environment operation per loop slice (no wait_for event / mode stop inside a batch)",
]
ASSUMPTIONS = [
    "handlers do not raise; conditions are of the form name{k==v}; conditions of plain/relay/boolean handlers are C01's part",
    "liveness (callback exactly once) assumes fair clearing and fresh queues: no handler passes the queue object it was "
    "given on into another queue event (Mode.start did; fixes/C02-mode-start-no-queue-forward.patch)",
    "EventManager.stop() task cancellation and exceptions other than CancelledError in coroutine handlers are not covered",
    "relay suite: a mode is not stopped while a running dispatcher still holds a snapshot with that mode's relay handler "
    "which it has not reached yet (the mode.active guard of config_play_callback is not modelled; such stops are skipped "
    "and counted); queue_event_player entries without events_when_finished are not generated",
    "ballend: a new ball_ending is posted only after the previous one completed (what the game does); modes start and, "
    "when nobody holds their stopping event, stop within one loop slice",
    "life suite: which start requests start a mode and which are ignored is the implementation's decision (checked by the oracle "
    "against the mode's state) and enters the model as the script of that Mode.start invocation; stop requests are decided by "
    "the model; the harness registers Mode.start itself as the handler of the start events (with a `_hid` kwarg) as the mode "
    "controller does; that no handler script other than Mode._stopped clears a mode's wait is checked by oracle and "
    "correspondence, not proved",
    "relock: waits/clears from outside refer to the queue of a handler that was already invoked; the dispatcher-level theorems "
    "of Relock.v are about one dispatcher with per-handler queues",
    "the fix fixes/C02-dispatcher-rechecks-wait.patch is applied (modelled: the fixed dispatcher in Model.v and Relock.v; unfixed: "
    "relock_lost_wait_refuted / oracle sig relock-wait-overrun)",
    "the fix fixes/C02-queue-event-player-args-callback.patch is applied (modelled: the fixed code; unfixed: "
    "qep_args_callback_refuted / oracle sig qep-callback-rejects-args)",
]

MODE_HID = 900
TRIGGERS = (1, 3, 4)          # event ids of the three start events of a mode (2 = mode_<m>_starting)


def mode_hid(trigger):
    return MODE_HID + (trigger - 1)


def reg_fields(r):
    """[ev, hid, prio, body, registered data kwargs, registered queue index or None, condition [k, v] or None]"""
    r = list(r) + [[], None, None][len(r) - 4:] if len(r) < 7 else list(r)
    return r


def canon_args(kwargs):
    # (config players hand their args on as strings)
    return sorted([int(k[1:]), int(v)] for k, v in kwargs.items() if k[:1] == "k" and k[1:].isdigit())


def merged_expect(posted, hkw):
    d = dict((k, v) for k, v in posted)
    for k, v in hkw:
        d[k] = v
    return sorted([k, v] for k, v in d.items())

# ------------------------------------------------------------------------------------------------
# worker state
_W = {"rig": None, "mrig": None, "patched": False}
CUR = None           # the Run currently executing in this worker


def _patch():
    """Class-level logging wrappers (worker process only); each calls the original."""
    if _W["patched"]:
        return
    _W["patched"] = True
    from mpf.core import events as E
    from mpf.core.mode import Mode
    o_wait, o_clear = E.QueuedEvent.wait, E.QueuedEvent.clear
    o_adapter = E.EventManager._async_handler_coroutine
    o_start, o_started = Mode.start, Mode._started

    def wait(self):
        run = CUR
        if run is None or id(self) not in run.qnum:
            return o_wait(self)
        if run.aborted:
            return None
        try:
            o_wait(self)
        except AssertionError:
            run.error()
            return None
        run.log.append(["W", run.qnum[id(self)]])
        if run.in_mode is not None:
            run.outst.append(["m", self, run.in_mode])
        elif run.in_relay:
            run.outst.append(["r", self])          # held by the queue relay player
        elif not run.in_adapter:
            run.outst.append(["w", self])
        return None

    def clear(self):
        run = CUR
        if run is None or id(self) not in run.qnum:
            return o_clear(self)
        if run.aborted:
            return None
        try:
            o_clear(self)
        except AssertionError:
            run.error()
            return None
        run.log.append(["C", run.qnum[id(self)]])
        for k, it in enumerate(run.outst):
            if it[0] in ("w", "m", "r") and it[1] is self:
                del run.outst[k]
                break
        return None

    def adapter(self, _coroutine, queue, **kwargs):
        run = CUR
        if run is None or not hasattr(_coroutine, "_c02_hid"):
            return o_adapter(self, _coroutine, queue, **kwargs)
        if run.aborted:
            return None
        q = run.num(queue)
        psn = run.psn_for(getattr(_coroutine, "_c02_mode", False), kwargs)
        run.log.append(["I", psn, _coroutine._c02_hid, q])
        run.log.append(["A", canon_args(kwargs)])
        run.in_adapter = True
        try:
            return o_adapter(self, _coroutine, queue, _q=q, **kwargs)
        finally:
            run.in_adapter = False

    def start(self, mode_priority=None, callback=None, **kwargs):
        run = CUR
        if run is not None and run.life is not None and self.name in run.life["idx"]:
            return _life_start(self, o_start, run, mode_priority, callback, kwargs)
        if run is None or run.mode != self.name:
            return o_start(self, mode_priority, callback, **kwargs)
        if run.aborted:
            return None
        queue = kwargs.get("queue")
        psn = kwargs.get("_psn")
        trigger = run.posts.get(str(psn), [None, None, 1])[2]
        hid = mode_hid(trigger)
        q = run.num(queue)
        run.log.append(["I", psn, hid, q])
        run.log.append(["A", canon_args(kwargs)])
        was = bool(self._starting or self._active)
        mark = len(run.log)
        run.in_mode = self.name
        try:
            o_start(self, mode_priority, callback, **kwargs)
        finally:
            run.in_mode = None
        started = bool(self._starting and not was)
        waited = ["W", q] in run.log[mark:]
        if started:
            run.mode_psn = run.alloc()
            run.qposts.append(run.mode_psn)
            run.log.append(["Q", run.mode_psn])
        run.mode_reqs.append({"hid": hid, "psn": psn, "busy": was, "started": started, "waited": waited, "q": q})
        return None

    def started(self, **kwargs):
        run = CUR
        if run is not None and run.life is not None and self.name in run.life["idx"] and not run.aborted:
            m = run.life["idx"][self.name]
            run.log.append(["CB", run.life_psn.get((m, 2))])
            run.life_psn[(m, 3)] = run.alloc()             # post(mode_<m>_started)
            run.life_g[(m, 3)] = run.life_gen.get(m, 1) - 1
            run.life_events.append(["started", m, len(run.log)])
        elif run is not None and run.mode == self.name and not run.aborted:
            run.log.append(["CB", run.mode_psn])
        return o_started(self, **kwargs)

    o_stopped = Mode._stopped

    def stopped(self, *a, **kwargs):
        run = CUR
        if run is not None and run.life is not None and self.name in run.life["idx"] and not run.aborted:
            m = run.life["idx"][self.name]
            run.log.append(["CB", run.life_psn.get((m, 5))])
            run.life_psn[(m, 6)] = run.alloc()             # post(mode_<m>_stopped)
            run.life_g[(m, 6)] = run.life_gen.get(m, 1) - 1
            run.life_events.append(["stopped", m, len(run.log)])
        return o_stopped(self, *a, **kwargs)

    from mpf.config_players.queue_relay_player import QueueRelayPlayer
    from mpf.config_players.queue_event_player import QueueEventPlayer
    o_rplay, o_qplay, o_qcb, o_post = QueueRelayPlayer.play, QueueEventPlayer.play, QueueEventPlayer._callback, E.EventManager.post

    def relay_play(self, settings, context, calling_context, priority=0, **kwargs):
        run = CUR
        if run is None or not run.relay or run.aborted or (context, calling_context) not in run.relay_hids:
            return o_rplay(self, settings, context, calling_context, priority, **kwargs)
        hid = run.relay_hids[(context, calling_context)]
        queue = kwargs.get("queue")
        run.log.append(["I", kwargs.get("_psn"), hid, run.num(queue)])
        run.log.append(["A", canon_args(kwargs)])
        run.plays.append(queue)
        run.in_relay = True
        try:
            return o_rplay(self, settings, context, calling_context, priority, **kwargs)
        finally:
            run.in_relay = False

    def qep_play(self, settings, context, calling_context, priority=0, **kwargs):
        run = CUR
        if run is None or not run.relay or run.aborted or (context, calling_context) not in run.qep_hids:
            return o_qplay(self, settings, context, calling_context, priority, **kwargs)
        hid, evid = run.qep_hids[(context, calling_context)]
        run.log.append(["P", kwargs.get("_psn"), hid])
        psn = run.alloc()
        args = dict(settings["args"] or {})
        args["_psn"] = psn                      # lets the handlers and the callback wrapper identify the post
        run.posts[str(psn)] = [canon_args(args), None, evid]
        run.qposts.append(psn)
        run.qep_psn[psn] = settings["events_when_finished"]
        run.log.append(["Q", psn])
        return o_qplay(self, dict(settings, args=args), context, calling_context, priority, **kwargs)

    def qep_callback(self, event, s, *a, **kwargs):
        run = CUR
        if run is not None and run.relay and not run.aborted and isinstance(s, dict) and "_psn" in s:
            run.log.append(["CB", s["_psn"]])
        return o_qcb(self, event, s, *a, **kwargs)

    def post(self, event, callback=None, **kwargs):
        run = CUR
        if run is not None and run.relay and not run.aborted and event in run.watch:
            run.posted.append([event, kwargs.get("_psn")])
        return o_post(self, event, callback, **kwargs)

    QueueRelayPlayer.play = relay_play
    QueueEventPlayer.play = qep_play
    QueueEventPlayer._callback = qep_callback
    E.EventManager.post = post
    E.QueuedEvent.wait = wait
    E.QueuedEvent.clear = clear
    E.EventManager._async_handler_coroutine = adapter
    Mode.start = start
    Mode._started = started
    Mode._stopped = stopped


class Run:
    def __init__(self, em, loop, prefix, mode=None):
        self.em = em
        self.loop = loop
        self.prefix = prefix
        self.mode = mode
        self.qnum = {}
        self.qobjs = []
        self.log = []
        self.outst = []
        self.psn = 0
        self.aborted = False
        self.failed = False
        self.in_adapter = False
        self.in_mode = None
        self.mode_psn = None
        self.keys = {}
        self.qposts = []
        self.shared_used = False
        self.evname = {}
        self.posts = {}
        self.pre = []
        self.mode_reqs = []
        self.relay = False
        self.in_relay = False
        self.relay_hids = {}
        self.qep_hids = {}
        self.qep_psn = {}
        self.plays = []
        self.watch = set()
        self.posted = []
        self.life = None             # suite "life": {"idx": {mode name: number}, "starts": {hid: {...}}}
        self.life_psn = {}           # (mode number, lifecycle event kind) -> post number of its current instance
        self.life_events = []
        self.life_reqs = []
        self.life_gen = {}           # mode number -> lives so far
        self.life_g = {}             # (mode number, kind) -> life the current instance of that event belongs to
        self.life_inst = {}          # post number of an outer event -> how many times that event was posted before

    def psn_for(self, flag, kwargs):
        """post number a handler invocation belongs to: flag False -> the `_psn` kwarg of the post, True -> the mode
        suite's starting event, a tuple -> that lifecycle event of the life suite"""
        if isinstance(flag, (tuple, list)):
            return self.life_psn.get(tuple(flag))
        return self.mode_psn if flag else kwargs.get("_psn")

    def preallocate(self, n):
        from mpf.core.events import QueuedEvent
        for _ in range(n):
            q = QueuedEvent(self.em.debug_log)
            self.pre.append(q)
            self.num(q)

    def name(self, ev):
        return self.evname.get(ev, "%s_e%d" % (self.prefix, ev))

    def num(self, queue):
        if id(queue) not in self.qnum:
            self.qnum[id(queue)] = len(self.qobjs)
            self.qobjs.append(queue)
        return self.qnum[id(queue)]

    def alloc(self):
        self.psn += 1
        return self.psn - 1

    def error(self):
        if not self.failed:
            self.log.append(["E"])
        self.failed = True
        self.aborted = True

    def make_cb(self, psn):
        def cb(**kwargs):
            if not self.aborted:
                self.log.append(["CB", psn])
        return cb

    def release(self, k):
        n = len(self.outst)
        if not n:
            return
        it = self.outst.pop(k % n)
        if it[0] == "w":
            it[1].clear()
        elif it[0] == "f":
            it[1].set_result(None)
        else:                                   # a mode holds this wait: it is released when the mode stops
            self.outst.insert(k % n, it)        # (removed by the clear wrapper)
            self.em.post("stop_" + it[2])

    def execute(self, acts, own):
        for a in acts:
            if self.aborted:
                return
            k = a[0]
            if k == "W":
                if own is not None:
                    own.wait()
            elif k == "CO":
                if own is not None:
                    own.clear()
            elif k == "CN":
                self.release(a[1])
            elif k == "XN":
                n = len(self.outst)
                if n and self.outst[a[1] % n][0] == "f":
                    self.outst.pop(a[1] % n)[1].cancel()       # the coroutine's await raises CancelledError
            elif k == "PQ":
                psn = self.alloc()
                kw = {"_psn": psn}
                data = a[3] if len(a) > 3 else []
                for k, v in data:
                    kw["k%d" % k] = v
                shq = None
                if a[2] and own is not None:
                    kw["queue"] = own
                    self.shared_used = True
                    shq = self.qnum[id(own)]
                self.posts[str(psn)] = [canon_args(kw), shq, a[1]]
                self.qposts.append(psn)
                self.log.append(["Q", psn])
                self.em.post_queue(self.name(a[1]), self.make_cb(psn), **kw)
            elif k == "PP":
                psn = self.alloc()
                self.em.post(self.name(a[1]), _psn=psn)
            elif k == "RM":
                if a[1] in self.keys:
                    self.em.remove_handler_by_key(self.keys[a[1]])

    def make_sync(self, hid, acts, mode_handler=False):
        def handler(queue=None, **kwargs):
            if self.aborted:
                return
            psn = self.psn_for(mode_handler, kwargs)
            if queue is not None:
                self.log.append(["I", psn, hid, self.num(queue)])
                self.log.append(["A", canon_args(kwargs)])
            else:
                self.log.append(["P", psn, hid])
            self.execute(acts, queue)
        return handler

    def make_async(self, hid, aw, mode_handler=False, raise_cancelled=False):
        async def coro(_q=None, **kwargs):
            if self.aborted:
                return
            if aw:
                fut = self.loop.create_future()
                self.outst.append(["f", fut, _q])
                await fut
            if raise_cancelled and not self.aborted:
                raise asyncio.CancelledError()                 # the task ends CANCELLED instead of finished
        coro._c02_hid = hid
        coro._c02_mode = mode_handler
        return coro

    def register(self, ev, hid, prio, body, hkw=(), hq=None, cond=None, mode_handler=False):
        name = self.name(ev)
        if cond is not None:
            name += "{k%d==%d}" % (cond[0], cond[1])
        kw = {"k%d" % k: v for k, v in hkw}
        if hq is not None:
            kw["queue"] = self.pre[hq]
            self.shared_used = True
        if body[0] == "s":
            self.keys[hid] = self.em.add_handler(name, self.make_sync(hid, body[1], mode_handler), priority=prio, **kw)
        else:
            self.keys[hid] = self.em.add_async_handler(
                name, self.make_async(hid, body[1], mode_handler, len(body) > 2 and body[2]), priority=prio, **kw)

    def observe(self, tasks):
        if self.failed:
            log = self.log[:self.log.index(["E"]) + 1]
            return {"log": log, "pending": 0, "outst": [], "err": True}
        outst = []
        for it in self.outst:
            outst.append(["f", it[2]] if it[0] == "f" else ["w", self.qnum[id(it[1])]])
        return {"log": self.log, "pending": len(tasks), "outst": outst, "err": False}

    def cleanup(self, tasks):
        self.aborted = True
        for t in tasks:
            t.remove_done_callback(self.em._queue_task_done)
            t.cancel()
            if t in self.em._queue_tasks:
                self.em._queue_tasks.remove(t)
        for it in self.outst:
            if it[0] == "f" and not it[1].done():
                it[1].set_result(None)
        for key in self.keys.values():
            self.em.remove_handler_by_key(key)


# ------------------------------------------------------------------------------------------------
# suite "queue": a fresh EventManager on the rig's loop
def _init_queue():
    from rig import Rig
    if _W.get("boot_error"):
        return
    try:
        _patch()
        if _W["rig"] is None:
            _W.setdefault("n", 0)
            _W["rig"] = Rig({}).start()
    except BaseException as e:      # a tree on which MPF does not even boot: report it as data, do not kill the worker
        _W["boot_error"] = "%s: %s" % (type(e).__name__, str(e)[:300])


def _boot_failed():
    return {"log": [], "pending": 0, "outst": [], "err": False, "qposts": [], "shared": False,
            "boot_error": _W["boot_error"], "seen": [], "returned": [], "cbs": []}


def _drop_rig(which):
    try:
        _W[which].stop()
    except BaseException:
        pass
    _W[which] = None


def gen_actions(rng, ev, nev, hids, in_queue_handler, kinds):
    acts = []
    waited = False
    n = rng.choice([0, 1, 1, 2, 2, 3])
    for _ in range(n):
        r = rng.random()
        if in_queue_handler and r < 0.35 and (not waited or rng.random() < 0.05):
            acts.append(["W"])
            waited = True
            if rng.random() < 0.2:
                acts.append(["CO"])
                waited = False
        elif in_queue_handler and r < 0.40 and (waited or rng.random() < 0.1):
            acts.append(["CO"])
            waited = False
        elif r < 0.55:
            acts.append(["CN", rng.randrange(4)])
        elif r < 0.90 and ev < nev:
            tgt = rng.randint(ev + 1, nev)
            if kinds[tgt] == "q":
                acts.append(["PQ", tgt, in_queue_handler and rng.random() < 0.12, gen_kw(rng)])
            else:
                acts.append(["PP", tgt])
        elif r < 0.97 and hids:
            acts.append(["RM", rng.choice(hids)])
    return acts


def gen_kw(rng):
    """data kwargs over a small key range so that posted and registered keys collide"""
    return [[rng.randint(1, 3), rng.randint(0, 2)] for _ in range(rng.choice([0, 0, 1, 1, 2, 3]))]


def gen_queue(rng, tier, i):
    nev = rng.randint(2, 6)
    kinds = {e: ("q" if rng.random() < 0.7 else "p") for e in range(1, nev + 1)}
    kinds[1] = "q"
    nh = {e: rng.choice([0, 1, 1, 2, 2, 3]) for e in kinds}
    hids = []
    plan = []
    for e in kinds:
        for _ in range(nh[e]):
            hids.append(len(hids) + 1)
            plan.append((e, hids[-1]))
    rng.shuffle(plan)                    # registration order is independent of the event
    regs = []
    for e, hid in plan:
        prio = rng.choice([1, 1, 2, 5, 5, 10])
        if kinds[e] == "q" and rng.random() < 0.3:
            body = ["a", rng.random() < 0.6, rng.random() < 0.25]      # [await a future?, end with CancelledError?]
        else:
            body = ["s", gen_actions(rng, e, nev, hids, kinds[e] == "q", kinds)]
        hkw, hq, cond = [], None, None
        if kinds[e] == "q":
            if rng.random() < 0.45:
                d = {}
                for k, v in gen_kw(rng) or [[rng.randint(1, 3), rng.randint(0, 2)]]:
                    d[k] = v                      # a Python call cannot repeat a keyword
                hkw = [[k, v] for k, v in d.items()]
            if rng.random() < 0.03:
                hq = rng.randrange(2)              # registered with queue=<object allocated before the run>
            if rng.random() < 0.2:
                cond = [rng.randint(1, 3), rng.randint(0, 2)]
        regs.append([e, hid, prio, body, hkw, hq, cond])

    def posts(k):
        out = []
        for _ in range(k):
            e = rng.randint(1, nev)
            out.append(["PQ", e, False, gen_kw(rng)] if kinds[e] == "q" else ["PP", e])
        return out
    env = [posts(rng.choice([1, 1, 2, 3]))]
    for _ in range(rng.randint(1, 7)):
        r = rng.random()
        if r < 0.6:
            env.append([["XN" if rng.random() < 0.2 else "CN", rng.randrange(5)] for _ in range(rng.choice([1, 1, 1, 2, 3]))])
        elif r < 0.8:
            env.append(posts(1) + ([["CN", rng.randrange(5)]] if rng.random() < 0.5 else []))
        elif r < 0.9 and hids:
            env.append([["RM", rng.choice(hids)]] + posts(rng.choice([0, 1])))
        else:
            env.append([["CN", rng.randrange(5)], ["PQ", 1, False, gen_kw(rng)]])
    if rng.random() < 0.7:                # fair clearing: release everything that is still outstanding
        env += [[["CN", rng.randrange(3)]] for _ in range(rng.choice([6, 10, 14]))]
    return {"kinds": {str(k): v for k, v in kinds.items()}, "regs": regs, "env": env}


def run_queue(case):
    global CUR
    from mpf.core.events import EventManager
    _init_queue()
    if _W.get("boot_error"):
        return _boot_failed()
    rig = _W["rig"]
    _W["n"] += 1
    em = EventManager(rig.machine)
    run = Run(em, rig.loop, "c02_%d" % _W["n"])
    CUR = run
    try:
        try:
            regs = [reg_fields(r) for r in case["regs"]]
            run.preallocate(max([r[5] + 1 for r in regs if r[5] is not None] + [0]))
            for ev, hid, prio, body, hkw, hq, cond in regs:
                run.register(ev, hid, prio, body, hkw, hq, cond)
            for batch in case["env"]:
                if run.aborted:
                    break
                run.execute(batch, None)
                rig.advance(0.125)
        except Exception as e:          # an exception escaped from the event loop: the machine is gone
            out = run.observe([])
            out.update(qposts=run.qposts, shared=run.shared_used, posts=run.posts,
                       loop_exception="%s: %s" % (type(e).__name__, str(e)[:300]))
            run.aborted = True
            _drop_rig("rig")
            return out
        tasks = list(em._queue_tasks)
        out = run.observe(tasks)
        out["qposts"] = run.qposts
        out["shared"] = run.shared_used
        out["posts"] = run.posts
        try:
            run.cleanup(tasks)
            rig.advance(0.125)
        except Exception:
            _drop_rig("rig")
            return out
        if rig.exception():
            out["loop_exception"] = str(rig.exception())[:300]
            rig._exception = None
        return out
    finally:
        CUR = None


# --- printing for Coq ---------------------------------------------------------------------------
def nlit(n):
    return "%d%%nat" % n


def tlist(items, ty):
    """list literal; an empty list carries its type (a case file's first element must be typable on its own)"""
    items = list(items)
    return coqlist(items) if items else "(@nil %s)" % ty


def c_action(a):
    k = a[0]
    if k == "W":
        return "AWait"
    if k == "CO":
        return "AClearOwn"
    if k == "CN":
        return "(AClearNth %s)" % nlit(a[1])
    if k == "XN":
        return "(ACancelNth %s)" % nlit(a[1])
    if k == "PQ":
        return "(APostQ %s %s %s)" % (zlit(a[1]), blit(a[2]), c_zz(a[3] if len(a) > 3 else []))
    if k == "PP":
        return "(APostP %s)" % zlit(a[1])
    if k == "RM":
        return "(ARemove %s)" % zlit(a[1])
    raise ValueError(a)


def c_zz(kw):
    return tlist(("(%s, %s)" % (zlit(k), zlit(v)) for k, v in kw), "(Z * Z)")


def c_handler(r):
    ev, hid, prio, body, hkw, hq, cond = reg_fields(r)
    return "(%s, mkH %s %s %s %s %s %s)" % (
        zlit(ev), zlit(hid), zlit(prio), c_zz(hkw), "None" if hq is None else "(Some %s)" % nlit(hq),
        "None" if cond is None else "(Some (%s, %s))" % (zlit(cond[0]), zlit(cond[1])), c_body(body))


def c_body(b):
    if b[0] == "s":
        return "(HSync %s)" % tlist((c_action(a) for a in b[1]), "action")
    return "(HAsync %s)" % blit(b[1])


def c_obs(o):
    k = o[0]
    if k == "I":
        return "(LInvoke %s %s %s)" % (nlit(o[1]), zlit(o[2]), nlit(o[3]))
    if k == "A":
        return "(LArgs %s)" % c_zz(o[1])
    if k == "P":
        return "(LPlain %s %s)" % (nlit(o[1]), zlit(o[2]))
    if k == "CB":
        return "(LCallback %s)" % nlit(o[1])
    if k == "Q":
        return "(LPostQ %s)" % nlit(o[1])
    if k == "W":
        return "(LWait %s)" % nlit(o[1])
    if k == "C":
        return "(LClear %s)" % nlit(o[1])
    if k == "E":
        return "(LErr 0)"
    raise ValueError(o)


def c_outcome(out):
    outst = tlist(("(%s %s)" % ("OWait" if k == "w" else "OFut", nlit(q)) for k, q in out["outst"]), "oitem")
    return "(mkO %s %s %s %s true)" % (tlist((c_obs(o) for o in out["log"]), "obs"), nlit(out["pending"]), outst,
                                       blit(out["err"]))


def c_input(regs, env):
    r = tlist((c_handler(x) for x in regs), "(Z * handler)")
    e = tlist((tlist((c_action(a) for a in b), "action") for b in env), "(list action)")
    return "(%s, %s)" % (r, e)


def log_ok(out):
    for o in out["log"]:
        if o[0] != "A" and any(x is None for x in o[1:]):
            return False
    return True


def coq_queue(case, out):
    if out.get("loop_exception") or out.get("boot_error") or not log_ok(out):
        return None
    return "(%s, %s)" % (c_input(case["regs"], case["env"]), c_outcome(out))


# --- the property's own predicate on the implementation's log -------------------------------------
def oracle_log(out, regs, removed_possible, check_live=True):
    """regs: {event: [(hid, prio)] in registration order}, out: observation of the implementation"""
    fails = []
    if out.get("boot_error"):
        return [{"sig": "machine-does-not-boot", "what": "MPF does not boot on this tree: " + out["boot_error"]}]
    if out.get("loop_exception"):
        return [{"sig": "loop-exception", "what": "exception in the event loop: " + out["loop_exception"]}]
    if out["err"]:
        return []                # a handler script misused its queue (double lock / not locked): outside the property
    log = out["log"]
    cb = {}
    inv = {}                      # psn -> list of (hid, q)
    waits = {}                    # (psn, hid) -> list of [q, cleared]
    open_wait = {}                # q -> record of the wait currently registered on q
    cur = None
    for o in log:
        k = o[0]
        if k == "I":
            psn = o[1]
            for h0, _ in inv.get(psn, []):
                for w in waits.get((psn, h0), []):
                    if not w[1]:
                        fails.append({"sig": "not-sequential",
                                      "what": "handler %s of post %s invoked while the wait of handler %s is outstanding"
                                              % (o[2], psn, h0)})
            if psn in cb:
                fails.append({"sig": "handler-after-callback", "what": "post %s: handler %s after the callback" % (psn, o[2])})
            inv.setdefault(psn, []).append((o[2], o[3]))
            cur = (psn, o[2])
        elif k == "P":
            cur = None
        elif k == "W":
            rec = [o[1], False]
            if cur is not None:
                waits.setdefault(cur, []).append(rec)
            open_wait[o[1]] = rec
        elif k == "C":
            if o[1] in open_wait:
                open_wait.pop(o[1])[1] = True
        elif k == "CB":
            psn = o[1]
            cb[psn] = cb.get(psn, 0) + 1
            if cb[psn] > 1:
                fails.append({"sig": "callback-twice", "what": "callback of post %s fired %d times" % (psn, cb[psn])})
            for h0, _ in inv.get(psn, []):
                for w in waits.get((psn, h0), []):
                    if not w[1]:
                        fails.append({"sig": "callback-before-clear",
                                      "what": "callback of post %s while the wait of handler %s is outstanding" % (psn, h0)})
    # priority order of the invoked handlers of every dispatch
    prio = {}
    order = {}
    for ev, hs in regs.items():
        for n, (hid, p) in enumerate(hs):
            prio[hid] = (-p, n)
    for psn, hs in inv.items():
        keys = [prio[h] for h, _ in hs if h in prio]
        if keys != sorted(keys):
            fails.append({"sig": "priority-order", "what": "post %s: handlers invoked in order %s" % (psn, [h for h, _ in hs])})
    if check_live and not out["outst"]:
        # every wait has been released and the loop is idle: every queue event must have completed
        for psn in out["qposts"]:
            if cb.get(psn, 0) != 1:
                if out.get("shared"):
                    sig = "shared-queue-never-completes"
                elif psn not in inv and out["pending"] == 0:
                    sig = "handlers-removed-callback-lost"
                else:
                    sig = "callback-lost"
                fails.append({"sig": sig, "what": "queue event (post %s) never completed although no wait is outstanding "
                                                  "(callbacks=%d, dispatchers still pending=%d)" % (psn, cb.get(psn, 0), out["pending"])})
                break
    return fails


def cond_holds(cond, merged):
    if cond is None:
        return True
    d = dict((k, v) for k, v in merged)
    return cond[0] in d and d[cond[0]] == cond[1]


def oracle_queue(case, out):
    regs = {}
    H = {}
    for r in case["regs"]:
        ev, hid, prio, body, hkw, hq, cond = reg_fields(r)
        regs.setdefault(ev, []).append((hid, prio))
        H[hid] = (ev, hkw, hq, cond)
    fails = oracle_log(out, regs, True, check_live=not out.get("shared"))
    if out.get("err") or out.get("loop_exception") or out.get("boot_error"):
        return fails
    posts = out.get("posts", {})
    log = out["log"]
    # the arguments every queue-event handler receives: posted kwargs overridden by its registered kwargs, plus queue
    nseen = max([H[h][2] + 1 for h in H if H[h][2] is not None] + [0])
    for n, o in enumerate(log):
        if o[0] != "I" or o[2] not in H or str(o[1]) not in posts:
            continue
        psn, hid, q = o[1], o[2], o[3]
        ev, hkw, hq, cond = H[hid]
        pkw, shq = posts[str(psn)][0], posts[str(psn)][1]
        want = merged_expect(pkw, hkw)
        got = log[n + 1][1] if n + 1 < len(log) and log[n + 1][0] == "A" else None
        if got != want:
            fails.append({"sig": "handler-kwargs", "what": "handler %s of post %s was called with %s; posted %s overridden by "
                                                           "registered %s is %s" % (hid, psn, got, pkw, hkw, want)})
        if not cond_holds(cond, want):
            fails.append({"sig": "condition-ignored", "what": "handler %s (condition %s) invoked with %s" % (hid, cond, want)})
        wantq = hq if hq is not None else shq
        if wantq is None:
            wantq = nseen
            nseen += 1
        if q != wantq:
            fails.append({"sig": "handler-queue", "what": "handler %s of post %s got queue object #%s, expected #%s "
                                                          "(registered %s, posted %s)" % (hid, psn, q, wantq, hq, shq)})
    if not _uses_remove(case):
        # without removals: the callback comes after ALL registered handlers of the event whose condition holds
        cbs = set(o[1] for o in log if o[0] == "CB")
        inv = {}
        for o in log:
            if o[0] == "I":
                inv.setdefault(o[1], []).append(o[2])
        for psn in cbs:
            if str(psn) not in posts:
                continue
            pkw, _, ev = posts[str(psn)]
            want = [h for h, p in sorted(regs.get(ev, []), key=lambda x: -x[1])
                    if cond_holds(H[h][3], merged_expect(pkw, H[h][1]))]
            if inv.get(psn, []) != want:
                fails.append({"sig": "callback-before-all-handlers",
                              "what": "post %s completed after handlers %s; registered with a true condition (priority "
                                      "order): %s" % (psn, inv.get(psn, []), want)})
    return fails


def _uses_remove(case):
    def has(acts):
        return any(a[0] == "RM" for a in acts)
    return any(has(b) for b in case["env"]) or any(r[3][0] == "s" and has(r[3][1]) for r in case["regs"])


def shrink_queue(case):
    regs, env = case["regs"], case["env"]
    for i in range(len(env)):
        yield dict(case, env=env[:i] + env[i + 1:])
    for i in range(len(regs)):
        yield dict(case, regs=regs[:i] + regs[i + 1:])
    for i, b in enumerate(env):
        for j in range(len(b)):
            if len(b) > 1:
                yield dict(case, env=env[:i] + [b[:j] + b[j + 1:]] + env[i + 1:])
    for i, r in enumerate(regs):
        r = reg_fields(r)
        body = r[3]
        if body[0] == "s":
            for j in range(len(body[1])):
                yield dict(case, regs=regs[:i] + [r[:3] + [["s", body[1][:j] + body[1][j + 1:]]] + r[4:]] + regs[i + 1:])
        else:
            yield dict(case, regs=regs[:i] + [r[:3] + [["s", []]] + r[4:]] + regs[i + 1:])
        if r[4] or r[5] is not None or r[6] is not None:
            yield dict(case, regs=regs[:i] + [r[:4] + [[], None, None]] + regs[i + 1:])
            yield dict(case, regs=regs[:i] + [r[:4] + [r[4], None, None]] + regs[i + 1:])


def nontrivial_queue(case, out):
    log = out.get("log", [])
    nested = any(r[3][0] == "s" and any(a[0] == "PQ" for a in r[3][1]) for r in case["regs"])
    waited = any(o[0] == "W" for o in log)
    return bool(log) and (nested or waited)


def describe_queue(case):
    na = sum(1 for r in case["regs"] if r[3][0] == "a")
    return "events=%d handlers=%s async=%s" % (len(case["kinds"]), min(len(case["regs"]), 9), min(na, 3))


# ------------------------------------------------------------------------------------------------
# suite "mode": a real Mode started from a queue event
MODES = {"m1": True, "m2": False}      # name -> use_wait_queue


def _boot_mode_rig():
    from rig import Rig
    modes = {}
    for name, uwq in MODES.items():
        modes[name] = {"mode": {"start_events": ["go%d_%s" % (t, name) for t in TRIGGERS],
                                "stop_events": ["stop_" + name], "priority": 100,
                                "use_wait_queue": uwq, "game_mode": False}}
    _W["mrig"] = Rig({"modes": sorted(MODES)}, modes=modes).start()


def _init_mode():
    if _W.get("boot_error"):
        return
    try:
        _patch()
        if _W["mrig"] is None:
            _boot_mode_rig()
    except BaseException as e:
        _W["boot_error"] = "%s: %s" % (type(e).__name__, str(e)[:300])


def gen_mode(rng, tier, i):
    mode = rng.choice(["m1", "m1", "m2"])
    hid = [0]

    def handlers(ev, n):
        out = []
        for _ in range(n):
            hid[0] += 1
            prio = rng.choice([1, 50, 100, 101, 150]) if ev != 2 else rng.choice([1, 2, 5])
            if rng.random() < 0.25:
                body = ["a", rng.random() < 0.6, rng.random() < 0.2]
            else:
                acts = []
                r = rng.random()
                if r < 0.45:
                    acts.append(["W"])
                    if rng.random() < 0.15:
                        acts.append(["CO"])
                body = ["s", acts]            # (no release-k-th here: the mode's own wait is released by stopping it)
            out.append([ev, hid[0], prio, body])
        return out
    regs = handlers(1, rng.choice([0, 1, 1, 2, 3])) + handlers(2, rng.choice([0, 1, 1, 2]))
    more = rng.random() < 0.6                 # further start requests for the same mode while it is starting / active
    if more:
        regs += handlers(3, rng.choice([0, 0, 1, 2])) + handlers(4, rng.choice([0, 0, 1]))
    rng.shuffle(regs)
    env = [[["PQ", 1, False]]]
    if more and rng.random() < 0.3:
        env[0].append(["PQ", 3, False])       # two start requests in the same loop slice
    later = [t for t in (3, 4) if more and ["PQ", t, False] not in env[0]]
    for _ in range(rng.randint(0, 7)):
        r = rng.random()
        if later and r < 0.3:
            env.append([["PQ", later.pop(0), False]])
        elif r < 0.45:
            env.append([["ST"]])              # stop request
        else:
            env.append([["XN" if rng.random() < 0.15 else "CN", rng.randrange(4)]])
    if rng.random() < 0.75:
        env += [[["CN", rng.randrange(2)]] for _ in range(8)]
        if rng.random() < 0.5:
            env += [[["ST"]]] + [[["CN", rng.randrange(2)]] for _ in range(3)]
    return {"mode": mode, "regs": regs, "env": env}


def run_mode(case):
    global CUR
    _init_mode()
    if _W.get("boot_error"):
        return dict(_boot_failed(), resolved=[], mode_active=False, mode_starting=False, mode_holds=False,
                    mode_hold_q=[], mode_reqs=[])
    rig = _W["mrig"]
    em = rig.machine.events
    mode = rig.machine.modes[case["mode"]]
    run = Run(em, rig.loop, "c02m", mode=case["mode"])
    run.evname = {2: "mode_%s_starting" % case["mode"]}
    for t in TRIGGERS:
        run.evname[t] = "go%d_%s" % (t, case["mode"])
    before = list(em._queue_tasks)
    CUR = run
    reboot = False
    try:
        return _run_mode_inner(case, rig, em, mode, run, before)
    except Exception as e:
        run.aborted = True
        out = run.observe([])
        out.update(qposts=run.qposts, shared=False, resolved=[], mode_active=False, mode_starting=False,
                   mode_holds=False, mode_hold_q=[], mode_reqs=run.mode_reqs, loop_exception="%s: %s" % (type(e).__name__, str(e)[:300]))
        _drop_rig("mrig")
        return out
    finally:
        CUR = None


def _run_mode_inner(case, rig, em, mode, run, before):
    reboot = False
    try:
        for ev, hid, prio, body in case["regs"]:
            run.register(ev, hid, prio, body, mode_handler=(ev == 2))
        resolved = []
        for batch in case["env"]:
            if run.aborted:
                break
            acts = []
            for act in batch:
                if act[0] == "CN":
                    n = len(run.outst)
                    if not n:
                        continue
                    k = act[1] % n
                    if run.outst[k][0] == "m" and not mode.active:
                        # the mode's wait can only be released by stopping an ACTIVE mode: environment picks another one
                        others = [j for j in range(n) if run.outst[j][0] != "m"]
                        if not others:
                            continue
                        k = others[act[1] % len(others)]
                    act = ["CN", k]
                elif act[0] == "ST":
                    held = [j for j, it in enumerate(run.outst) if it[0] == "m"]
                    if mode.active and held:
                        act = ["CN", held[0]]        # stopping the mode releases the wait it holds
                    else:
                        em.post("stop_" + case["mode"])    # nothing held (or not active): no effect on queue events
                        continue
                acts.append(act)
                run.execute([act], None)
            resolved.append(acts)
            rig.advance(0.125)
        tasks = [t for t in em._queue_tasks if t not in before]
        out = run.observe(tasks)
        out["qposts"] = run.qposts
        out["shared"] = False
        out["posts"] = {}
        out["resolved"] = resolved
        out["mode_active"] = bool(mode.active)
        out["mode_starting"] = bool(mode._starting)
        out["mode_holds"] = any(it[0] == "m" for it in run.outst)
        out["mode_hold_q"] = [run.qnum[id(it[1])] for it in run.outst if it[0] == "m"]
        out["mode_reqs"] = run.mode_reqs
        run.cleanup(tasks)
        rig.advance(0.125)
        if mode.active:
            mode.stop()
            rig.advance(0.125)
        if mode.active or mode._starting or mode.stopping or mode._mode_start_wait_queue is not None:
            reboot = True
        if rig.exception():
            out["loop_exception"] = str(rig.exception())[:300]
            reboot = True
        return out
    finally:
        if reboot:
            _drop_rig("mrig")


def mode_regs(case, out):
    """Mode.start is registered (at boot, before the case's handlers) on every start event.  Whether a given start
    request starts the mode or is ignored (mode already starting / active) is the implementation's decision, checked
    by the oracle and handed to the model as that handler's script (model of the FIXED Mode.start, or nothing)."""
    uwq = MODES[case["mode"]]
    started = set(r["hid"] for r in out.get("mode_reqs", []) if r["started"])
    regs = []
    for t in TRIGGERS:
        script = "(mode_start_script %s false 2)" % blit(uwq) if mode_hid(t) in started else "[]"
        regs.append("(%s, mkH %s 100 [] None None (HSync %s))" % (zlit(t), zlit(mode_hid(t)), script))
    for r in case["regs"]:
        regs.append(c_handler(r))
    return coqlist(regs)


def coq_mode(case, out):
    if out.get("loop_exception") or out.get("boot_error") or not log_ok(out):
        return None
    env = tlist((tlist((c_action(a) for a in b), "action") for b in out["resolved"]), "(list action)")
    return "((%s, %s), %s)" % (mode_regs(case, out), env, c_outcome(out))


def oracle_mode(case, out):
    regs = {2: []}
    for t in TRIGGERS:
        regs[t] = [(mode_hid(t), 100)]
    for ev, hid, prio, body in case["regs"]:
        regs[ev].append((hid, prio))
    fails = oracle_log(out, regs, False, check_live=False)
    if out.get("loop_exception") or out.get("boot_error") or out["err"]:
        return fails
    uwq = MODES[case["mode"]]
    log = out["log"]
    cbs = [o[1] for o in log if o[0] == "CB"]
    reqs = out.get("mode_reqs", [])
    for r in reqs:
        if r["busy"] and r["started"]:
            fails.append({"sig": "mode-started-twice", "what": "start request (post %s) started mode %s although it was "
                                                               "starting/active" % (r["psn"], case["mode"])})
        if not r["busy"] and not r["started"]:
            fails.append({"sig": "start-request-dropped", "what": "start request (post %s) for the idle mode %s was ignored"
                                                                  % (r["psn"], case["mode"])})
        if not r["started"] and r["waited"]:
            fails.append({"sig": "ignored-start-holds-event",
                          "what": "start request (post %s) was ignored (mode %s starting/active) but locked its queue event"
                                  % (r["psn"], case["mode"])})
        if r["started"] and r["waited"] != uwq:
            fails.append({"sig": "mode-wait-queue", "what": "mode %s (use_wait_queue=%s) started by post %s: waited=%s"
                                                            % (case["mode"], uwq, r["psn"], r["waited"])})
    hold_q = out.get("mode_hold_q", [])
    if len(hold_q) > 1:
        fails.append({"sig": "ignored-start-holds-event", "what": "mode %s holds %d queue events" % (case["mode"], len(hold_q))})
    other = [x for x in out["outst"] if not (x[0] == "w" and x[1] in hold_q)]
    if reqs and not other:
        # every wait except the one the mode itself holds is released and the loop is idle
        if hold_q and not out["mode_active"]:
            sig = "mode-stuck-starting" if out["mode_starting"] else "mode-not-active"
            fails.append({"sig": sig, "what": "mode %s holds the start queue but is not active (starting=%s): it can never "
                                              "be stopped, the triggering queue event never completes"
                                              % (case["mode"], out["mode_starting"])})
        else:
            holders = set(r["psn"] for r in reqs if r["q"] in hold_q)
            for psn in out["qposts"]:
                want = 0 if psn in holders else 1
                if cbs.count(psn) != want:
                    fails.append({"sig": "mode-start-event-incomplete" if cbs.count(psn) < want else "callback-twice",
                                  "what": "nothing but the active mode's own wait is outstanding: queue event (post %s) "
                                          "completed %d times, expected %d" % (psn, cbs.count(psn), want)})
                    break
            if out["pending"] != len(holders):
                fails.append({"sig": "mode-start-event-incomplete",
                              "what": "%d dispatchers pending, %d events held by the mode" % (out["pending"], len(holders))})
    return fails


def shrink_mode(case):
    regs, env = case["regs"], case["env"]
    for i in range(len(regs)):
        yield dict(case, regs=regs[:i] + regs[i + 1:])
    for i in range(1, len(env)):
        yield dict(case, env=env[:i] + env[i + 1:])
    for i, (ev, hid, prio, body) in enumerate(regs):
        if body != ["s", []]:
            yield dict(case, regs=regs[:i] + [[ev, hid, prio, ["s", []]]] + regs[i + 1:])


def nontrivial_mode(case, out):
    return MODES[case["mode"]] or any(r[0] == 2 for r in case["regs"]) or len(out.get("mode_reqs", [])) > 1


def describe_mode(case):
    nreq = sum(1 for b in case["env"] for a in b if a[0] == "PQ")
    return "%s starting_handlers=%d start_requests=%d stops=%s" % (
        case["mode"], sum(1 for r in case["regs"] if r[0] == 2), nreq,
        min(2, sum(1 for b in case["env"] for a in b if a[0] == "ST")))


# ------------------------------------------------------------------------------------------------
# suite "relay": queue_relay_player / queue_event_player (real config players, three contexts) as clients of queue events
#   contexts: 0 = machine-wide config ("_global"), 1 = mode ra (priority 100), 2 = mode rb (priority 200)
#   queue events 1..3 ("c02r_q<n>"), wait_for events 1..4 ("c02r_w<n>"), trigger events 11..14 ("c02r_t<n>")
RCTX = {0: "_global", 1: "ra", 2: "rb"}
RPRIO = {0: 0, 1: 100, 2: 200}
# relay entries: (context, queue event, handler id, wait_for event)
RELAYS = [(0, 1, 801, 1), (0, 2, 802, 2), (1, 1, 811, 3), (1, 3, 812, 1), (2, 2, 821, 2), (2, 3, 822, 4)]
# queue_event_player entries: (context, trigger event, handler id, queue event, args); every entry has args AND
# events_when_finished
QEPS = [(0, 11, 851, 1, [[1, 1]]), (0, 12, 852, 3, [[2, 0]]), (1, 13, 861, 2, [[2, 2]]), (2, 14, 871, 1, [[1, 0], [3, 1]])]
RELAY_HIDS = set(r[2] for r in RELAYS)


def _relay_sections(ctx):
    qr = {}
    for c, ev, hid, w in RELAYS:
        if c == ctx:
            qr["c02r_q%d" % ev] = {"post": "c02r_p%d" % hid, "wait_for": "c02r_w%d" % w, "pass_args": hid == 802}
    qe = {}
    for c, t, hid, ev, args in QEPS:
        if c == ctx:
            qe["c02r_t%d" % t] = {"queue_event": "c02r_q%d" % ev, "events_when_finished": "c02r_f%d" % t,
                                  "args": {"k%d" % k: str(v) for k, v in args}}
    return {"queue_relay_player": qr, "queue_event_player": qe}


def _boot_relay_rig():
    from rig import Rig
    config = dict(_relay_sections(0), modes=["ra", "rb"])
    modes = {}
    for c in (1, 2):
        modes[RCTX[c]] = dict(_relay_sections(c), mode={"start_events": ["c02r_start_" + RCTX[c]],
                                                         "stop_events": ["c02r_stop_" + RCTX[c]],
                                                         "priority": RPRIO[c], "game_mode": False})
    _W["rrig"] = Rig(config, modes=modes).start()


def _init_relay():
    if _W.get("boot_error"):
        return
    try:
        _patch()
        if _W.get("rrig") is None:
            _boot_relay_rig()
    except BaseException as e:
        _W["boot_error"] = "%s: %s" % (type(e).__name__, str(e)[:300])


def gen_relay(rng, tier, i):
    regs = []
    for hid in range(1, rng.choice([0, 1, 1, 2, 2, 3, 4]) + 1):
        r = rng.random()
        if r < 0.3:
            body = ["a", rng.random() < 0.6, rng.random() < 0.2]
        elif r < 0.7:
            body = ["s", [["W"]] + ([["CO"]] if rng.random() < 0.2 else [])]
        else:
            body = ["s", []]
        regs.append([rng.randint(1, 3), hid, rng.choice([1, 50, 150, 250]), body])
    ops = []
    for c in (1, 2):
        if rng.random() < 0.65:
            ops.append(["START", c])
    rng.shuffle(ops)
    for _ in range(rng.randint(3, 11)):
        r = rng.random()
        if r < 0.35:
            ops.append(["PQ", rng.randint(1, 3), False, gen_kw(rng)])
        elif r < 0.47:
            ops.append(["PP", rng.randint(11, 14)])
        elif r < 0.67:
            ops.append(["WF", rng.randint(1, 4)])
        elif r < 0.77:
            ops.append(["STOP", rng.choice([1, 2])])
        elif r < 0.84:
            ops.append(["START", rng.choice([1, 2])])
        elif r < 0.97:
            ops.append(["CN", rng.randrange(4)])
        else:
            ops.append(["XN", rng.randrange(4)])
    if rng.random() < 0.75:              # fair release: every wait_for event (twice: relays chain), every harness wait
        for _ in range(3):
            ws = [1, 2, 3, 4]
            rng.shuffle(ws)
            ops += [["WF", w] for w in ws] + [["CN", 0] for _ in range(3)]
    return {"regs": regs, "ops": ops}


def _relay_player(machine, section):
    return getattr(machine, section)          # machine.queue_relay_player


def _relay_tables(rig, run):
    """instance dicts and registered wake-up handlers of the real QueueRelayPlayer, as queue numbers"""
    player = _relay_player(rig.machine, "queue_relay_player")
    held = set()
    for ctx, d in player.instances.items():
        for q in d.get("queue_relay_player", {}):
            held.add(id(q))
    wake = []
    for w in range(1, 5):
        for h in rig.machine.events.registered_handlers.get("c02r_w%d" % w, []):
            q = h.kwargs.get("queue")
            if q is not None and id(q) in run.qnum:
                wake.append(run.qnum[id(q)])
    return [run.qnum[id(q)] for q in run.plays if id(q) in held], sorted(wake), len(held)


def run_relay(case):
    global CUR
    _init_relay()
    if _W.get("boot_error"):
        return dict(_boot_failed(), resolved=[], marks=[], relay_held=[], relay_wake=[], posted=[], skipped=0)
    rig = _W["rrig"]
    em = rig.machine.events
    run = Run(em, rig.loop, "c02r")
    run.relay = True
    for ev in (1, 2, 3):
        run.evname[ev] = "c02r_q%d" % ev
    for c, ev, hid, w in RELAYS:
        run.relay_hids[(RCTX[c], "c02r_q%d" % ev)] = hid
        run.watch.add("c02r_p%d" % hid)
    for c, t, hid, ev, args in QEPS:
        run.evname[t] = "c02r_t%d" % t
        run.qep_hids[(RCTX[c], "c02r_t%d" % t)] = (hid, ev)
        run.watch.add("c02r_f%d" % t)
    before = list(em._queue_tasks)
    CUR = run
    reboot = True
    try:
        for ev, hid, prio, body in case["regs"]:
            run.register(ev, hid, prio, body)
        resolved, marks, skipped = [], [], 0
        for op in case["ops"]:
            if run.aborted:
                break
            k = op[0]
            if k in ("PQ", "PP"):
                run.execute([op], None)
            elif k in ("CN", "XN"):
                others = [j for j, it in enumerate(run.outst) if it[0] != "r"]     # a relay's wait is not ours to clear
                if not others:
                    continue
                op = [k, others[op[1] % len(others)]]
                run.execute([op], None)
            elif k == "WF":
                em.post("c02r_w%d" % op[1])
            else:
                mode = rig.machine.modes[RCTX[op[1]]]
                if k == "START":
                    if mode.active or mode._starting or mode.stopping:
                        continue
                    mode.start()
                else:
                    if not mode.active or mode.stopping:
                        continue
                    if _stop_excluded(run, op[1]):
                        skipped += 1
                        continue
                    mode.stop()
            resolved.append(op)
            rig.advance(0.125)
            marks.append(len(run.log))
            if k in ("START", "STOP") and bool(rig.machine.modes[RCTX[op[1]]].active) != (k == "START"):
                run.log.append(["E"])        # (never on a sound tree: nothing holds the mode's own queue events)
                run.failed = run.aborted = True
        tasks = [t for t in em._queue_tasks if t not in before]
        out = run.observe(tasks)
        held, wake, nheld = _relay_tables(rig, run)
        out.update(qposts=run.qposts, shared=False, posts=run.posts, resolved=resolved, marks=marks, relay_held=held,
                   relay_wake=wake, relay_nheld=nheld, posted=run.posted, skipped=skipped,
                   qep={str(k): v for k, v in run.qep_psn.items()})
        run.cleanup(tasks)
        CUR = None
        for w in range(1, 5):
            em.post("c02r_w%d" % w)
        for c in (1, 2):
            rig.machine.modes[RCTX[c]].stop()
        rig.advance(0.125)
        rig.advance(0.125)
        _, _, nheld = _relay_tables(rig, run)
        reboot = bool(nheld or rig.exception() or any(rig.machine.modes[RCTX[c]].active or rig.machine.modes[RCTX[c]]._starting
                                                      or rig.machine.modes[RCTX[c]].stopping for c in (1, 2))
                      or any(em.registered_handlers.get("c02r_w%d" % w) for w in range(1, 5)))
        if rig.exception():
            out["loop_exception"] = str(rig.exception())[:300]
        return out
    except Exception as e:
        run.aborted = True
        out = run.observe([])
        out.update(qposts=run.qposts, shared=False, posts=run.posts, resolved=[], marks=[], relay_held=[], relay_wake=[],
                   relay_nheld=0, posted=[], skipped=0, qep={}, loop_exception="%s: %s" % (type(e).__name__, str(e)[:300]))
        return out
    finally:
        CUR = None
        if reboot:
            _drop_rig("rrig")


def _stop_excluded(run, ctx):
    """NOT MODELLED: a dispatcher that is still running holds a snapshot with the mode's play handler which it has not
    reached yet; after the stop config_play_callback would ignore the call (mode.active guard)."""
    done = set(o[1] for o in run.log if o[0] == "CB")
    for c, ev, hid, w in RELAYS:
        if c != ctx:
            continue
        for psn in run.qposts:
            if psn in done or run.posts.get(str(psn), [None, None, None])[2] != ev:
                continue
            if not any(o[0] == "I" and o[1] == psn and o[2] == hid for o in run.log):
                return True
    return False


def c_cop(op):
    k = op[0]
    if k == "WF":
        return "(CWaitFor %s)" % zlit(op[1])
    if k == "START":
        return "(CStart %s)" % zlit(op[1])
    if k == "STOP":
        return "(CStop %s)" % zlit(op[1])
    return "(CEnv [%s])" % c_action(op)


RELAY_CFG_COQ = "(%s, %s)" % (
    coqlist("(mkRC %d %d %d %d %d)" % (c, ev, hid, RPRIO[c], w) for c, ev, hid, w in RELAYS),
    coqlist("(mkQC %d %d %d %d %d %s)" % (c, t, hid, RPRIO[c], ev, c_zz(args)) for c, t, hid, ev, args in QEPS))


def coq_relay(case, out):
    if out.get("loop_exception") or out.get("boot_error") or not log_ok(out):
        return None
    regs = tlist((c_handler(r) for r in case["regs"]), "(Z * handler)")
    ops = tlist((c_cop(op) for op in out["resolved"]), "cop")
    held = tlist((nlit(q) for q in out["relay_held"]), "nat")
    return "(((c02_relay_cfg, %s), %s), ((%s, false), %s))" % (regs, ops, c_outcome(out), held)


def oracle_relay(case, out):
    """Independent of the model: replays the environment operations over the configuration tables."""
    regs = {}
    for c, ev, hid, w in RELAYS:
        regs.setdefault(ev, []).append((hid, RPRIO[c]))
    for c, t, hid, ev, args in QEPS:
        regs.setdefault(t, []).append((hid, RPRIO[c]))
    for ev, hid, prio, body in case["regs"]:
        regs.setdefault(ev, []).append((hid, prio))
    if out.get("loop_exception") and "QueueEventPlayer._callback() got an unexpected keyword argument" in out["loop_exception"]:
        return [{"sig": "qep-callback-rejects-args",
                 "what": "queue_event_player entry with args and events_when_finished: the completion callback of its "
                         "queue event raises " + out["loop_exception"]}]
    fails = oracle_log(out, regs, False, check_live=True)
    if out.get("loop_exception") or out.get("boot_error") or out["err"]:
        return fails
    log = out["log"]
    entry = dict((hid, (c, w)) for c, ev, hid, w in RELAYS)
    held = {}                          # queue number -> (context, wait_for event) of the relay that blocks it
    start = 0
    for op, end in zip(out["resolved"], out["marks"]):
        seg = log[start:end]
        start = end
        if op[0] == "WF":
            want = set(q for q, (c, w) in held.items() if w == op[1])
        elif op[0] == "STOP":
            want = set(q for q, (c, w) in held.items() if c == op[1])
        else:
            want = set()
        before = dict(held)
        for o in seg:
            if o[0] == "I" and o[2] in entry:
                held[o[3]] = entry[o[2]]
        got = set(o[1] for o in seg if o[0] == "C" and (o[1] in before))
        for q in sorted(want - got):
            fails.append({"sig": "relay-wait-orphaned",
                          "what": "%s: queue #%s blocked by the relay of context %s (wait_for w%s) was not released"
                                  % (op, q, before[q][0], before[q][1])})
        for q in sorted(got - want):
            fails.append({"sig": "relay-cleared-wrongly",
                          "what": "%s: queue #%s blocked by the relay of context %s (wait_for w%s) was released"
                                  % (op, q, before[q][0], before[q][1])})
        for q in got:
            held.pop(q, None)
        if fails:
            return fails
    if sorted(out["relay_held"]) != sorted(held):
        fails.append({"sig": "relay-tables-disagree", "what": "instance dicts hold queues %s, blocked by relays: %s"
                                                              % (sorted(out["relay_held"]), sorted(held))})
    if out["relay_wake"] != sorted(held):
        fails.append({"sig": "relay-wait-orphaned",
                      "what": "queues blocked by relays: %s, but wake-up handlers are registered only for %s: the others "
                              "can never complete" % (sorted(held), out["relay_wake"])})
    # every relay play posts its `post` event once; every queue_event_player post that completed posted its finished event
    nplay = {}
    for o in log:
        if o[0] == "I" and o[2] in entry:
            nplay[o[2]] = nplay.get(o[2], 0) + 1
    for hid in entry:
        n = sum(1 for e, _ in out["posted"] if e == "c02r_p%d" % hid)
        if n != nplay.get(hid, 0):
            fails.append({"sig": "relay-post-event", "what": "relay %s played %d times, posted c02r_p%s %d times"
                                                             % (hid, nplay.get(hid, 0), hid, n)})
    cbs = [o[1] for o in log if o[0] == "CB"]
    for psn, fin in out.get("qep", {}).items():
        n = sum(1 for e, p in out["posted"] if e == fin and p == int(psn))
        if n != cbs.count(int(psn)) or n > 1:
            fails.append({"sig": "qep-finished-event", "what": "queue_event_player post %s completed %d times, %s posted %d times"
                                                               % (psn, cbs.count(int(psn)), fin, n)})
    return fails


def shrink_relay(case):
    regs, ops = case["regs"], case["ops"]
    for i in range(len(ops)):
        yield dict(case, ops=ops[:i] + ops[i + 1:])
    for i in range(len(regs)):
        yield dict(case, regs=regs[:i] + regs[i + 1:])
    for i, r in enumerate(regs):
        if r[3] != ["s", []]:
            yield dict(case, regs=regs[:i] + [r[:3] + [["s", []]]] + regs[i + 1:])


def nontrivial_relay(case, out):
    log = out.get("log", [])
    return any(o[0] == "I" and o[2] in RELAY_HIDS for o in log)


def describe_relay(case):
    ops = [o[0] for o in case["ops"]]
    return "handlers=%d stops=%d qep=%s" % (len(case["regs"]), min(ops.count("STOP"), 2), "PP" in ops)


# ------------------------------------------------------------------------------------------------
# suite "ballend": ModeController._ball_ending over real game modes in arbitrary lifecycle phases
BE_MODES = [("g1", True, True), ("g2", True, True), ("g3", True, True), ("n1", False, True)]   # name, game_mode, stop_on_ball_end


def _boot_ballend_rig():
    from unittest.mock import MagicMock
    from rig import FakeGameRig
    modes = {}
    for name, game, auto in BE_MODES:
        modes[name] = {"mode": {"start_events": ["c02b_start_" + name], "stop_events": ["c02b_stop_" + name],
                                "priority": 100, "game_mode": game, "stop_on_ball_end": auto}}
    rig = FakeGameRig({"modes": [m[0] for m in BE_MODES]}, modes=modes).start()
    rig.machine.playfield.add_ball = MagicMock()
    rig.machine.events.post("game_start")
    rig.advance(1)
    if rig.machine.game is None or rig.machine.game.player is None:
        raise AssertionError("no game")
    rig.machine.game.balls_in_play = 1
    _W["brig"] = rig


def _init_ballend():
    if _W.get("boot_error"):
        return
    try:
        _patch()
        if _W.get("brig") is None:
            _boot_ballend_rig()
    except BaseException as e:
        _W["boot_error"] = "%s: %s" % (type(e).__name__, str(e)[:300])


def gen_ballend(rng, tier, i):
    n = len(BE_MODES)
    holds = [rng.random() < 0.5 for _ in range(n)]
    ops = []
    for _ in range(rng.randint(4, 14)):
        r = rng.random()
        if r < 0.35:
            ops.append(["START", rng.randrange(n)])
        elif r < 0.55:
            ops.append(["STOP", rng.randrange(n)])
        elif r < 0.75:
            ops.append(["REL", rng.randrange(n)])
        else:
            ops.append(["BE"])
    if rng.random() < 0.7:
        ops += [["REL", j] for j in range(n)]
    return {"holds": holds, "ops": ops}


def run_ballend(case):
    _init_ballend()
    if _W.get("boot_error"):
        return {"boot_error": _W["boot_error"], "resolved": [], "trace": []}
    rig = _W["brig"]
    m = rig.machine
    em = m.events
    mc = m.mode_controller
    modes = [m.modes[name] for name, _, _ in BE_MODES]
    held = {}
    done = [0]
    posted = [0]
    keys = []
    reboot = True
    try:
        def make_hold(j):
            def hold(queue, **kwargs):
                queue.wait()
                held[j] = queue
            return hold
        for j, h in enumerate(case["holds"]):
            if h:
                keys.append(em.add_handler("mode_%s_stopping" % BE_MODES[j][0], make_hold(j), priority=5))

        def cb(**kwargs):
            done[0] += 1

        def snap():
            phases = [2 if md.stopping else (1 if md.active else 0) for md in modes]
            q = mc.queue
            return {"phases": phases, "count": int(mc.mode_stop_count), "locked": bool(q is not None and q.waiter and posted[0] > done[0]),
                    "done": done[0], "starting": [bool(md._starting) for md in modes]}
        resolved, trace = [], []
        for op in case["ops"]:
            k = op[0]
            if k == "START":
                md = modes[op[1]]
                if md.active or md._starting or md.stopping:
                    continue
                md.start()
            elif k == "STOP":
                md = modes[op[1]]
                if not md.active or md.stopping:
                    continue
                md.stop()
            elif k == "REL":
                if op[1] not in held:
                    continue
                held.pop(op[1]).clear()
            else:
                if posted[0] > done[0]:
                    continue                 # the previous ball_ending has not completed: the game does not end the ball again
                posted[0] += 1
                em.post_queue("ball_ending", cb)
            resolved.append(op)
            rig.advance(0.125)
            trace.append(snap())
        out = {"resolved": resolved, "trace": trace}
        # clean up: release everything, stop every mode, let a pending ball_ending complete
        for key in keys:
            em.remove_handler_by_key(key)
        for j in list(held):
            held.pop(j).clear()
        rig.advance(0.125)
        for md in modes:
            md.stop()
        rig.advance(0.125)
        rig.advance(0.125)
        reboot = bool(rig.exception() or any(md.active or md.stopping or md._starting for md in modes)
                      or m.game is None or (mc.queue is not None and mc.queue.waiter))
        if rig.exception():
            out["loop_exception"] = str(rig.exception())[:300]
        return out
    except Exception as e:
        return {"resolved": [], "trace": [], "loop_exception": "%s: %s" % (type(e).__name__, str(e)[:300])}
    finally:
        if reboot:
            _drop_rig("brig")


BE_CFG_COQ = coqlist("(%s, %s)" % (blit(g), blit(a)) for _, g, a in BE_MODES)


def coq_ballend(case, out):
    if out.get("loop_exception") or out.get("boot_error"):
        return None
    if any(any(t["starting"]) for t in out["trace"]):
        return None                          # (never: nobody holds mode_<n>_starting here)
    ops = []
    for op in out["resolved"]:
        k = op[0]
        ops.append("BBallEnding" if k == "BE" else "(%s %s)" % ({"START": "BStart", "STOP": "BStop", "REL": "BRelease"}[k], nlit(op[1])))
    tr = tlist(("(%s, %s, %s, %s, false)" % ("[" + ";".join(zlit(p) for p in t["phases"]) + "]", zlit(t["count"]),
                                              blit(t["locked"]), nlit(t["done"])) for t in out["trace"]),
               "(list Z * Z * bool * nat * bool)")
    return "((%s, %s, %s), %s)" % (BE_CFG_COQ, coqlist(blit(h) for h in case["holds"]), tlist(ops, "beop"), tr)


def oracle_ballend(case, out):
    """The property on the implementation's trace: the ball_ending queue event completes exactly once, not before
    every game mode with stop_on_ball_end that was running (active or already stopping) when it was posted has stopped,
    and as soon as they all have."""
    if out.get("boot_error"):
        return [{"sig": "machine-does-not-boot", "what": "MPF does not boot on this tree: " + out["boot_error"]}]
    if out.get("loop_exception"):
        return [{"sig": "loop-exception", "what": "exception in the event loop: " + out["loop_exception"]}]
    fails = []
    open_set = None
    prev = {"phases": [0] * len(BE_MODES), "done": 0}
    for n, (op, t) in enumerate(zip(out["resolved"], out["trace"])):
        if op[0] == "BE":
            open_set = [j for j, (_, game, auto) in enumerate(BE_MODES) if game and auto and prev["phases"][j] != 0]
            base = prev["done"]
        if open_set is not None:
            open_set = [j for j in open_set if t["phases"][j] != 0]      # (a mode that stopped may be started again)
            running = [BE_MODES[j][0] for j in open_set]
            if t["done"] - base > 1:
                fails.append({"sig": "callback-twice", "what": "op %d %s: ball_ending completed %d times" % (n, op, t["done"] - base)})
            elif t["done"] - base == 1:
                if running:
                    fails.append({"sig": "ball-ending-before-modes-stopped",
                                  "what": "op %d %s: ball_ending completed while %s (running when the ball ended) had not "
                                          "finished stopping" % (n, op, running)})
                open_set = None
            elif not running:
                fails.append({"sig": "ball-ending-never-completes",
                              "what": "op %d %s: every mode the controller waits for has stopped but ball_ending did not "
                                      "complete (mode_stop_count=%s)" % (n, op, t["count"])})
                open_set = None
        elif t["done"] != prev["done"]:
            fails.append({"sig": "callback-twice", "what": "op %d %s: ball_ending completed without having been posted" % (n, op)})
        if fails:
            break
        prev = t
    return fails


def shrink_ballend(case):
    ops = case["ops"]
    for i in range(len(ops)):
        yield dict(case, ops=ops[:i] + ops[i + 1:])
    for j, h in enumerate(case["holds"]):
        if h:
            yield dict(case, holds=case["holds"][:j] + [False] + case["holds"][j + 1:])


def nontrivial_ballend(case, out):
    # a ball_ending posted while some game mode is already stopping, or one that stays open over several operations
    tr = out.get("trace", [])
    prev = None
    for op, t in zip(out.get("resolved", []), tr):
        if op[0] == "BE" and (t["locked"] or (prev and 2 in prev["phases"])):
            return True
        prev = t
    return False


def describe_ballend(case):
    ops = [o[0] for o in case["ops"]]
    return "holds=%d ball_endings=%d" % (sum(case["holds"]), min(ops.count("BE"), 3))


# ------------------------------------------------------------------------------------------------
# suite "sync": relay / boolean / plain events through _run_handlers and _process_event
#   handler = [hid, prio, behaviour, registered kwargs [[k, v]], blocking facility id or None]
#   posted  = kw [[k, v]] (often empty) and mp = None | [all, [[facility, prio]]]  (kwargs['_min_priority'])
def gen_mp(rng):
    return [rng.choice([0, 0, 2, 6]), [[f, rng.choice([0, 2, 6, 11])] for f in rng.sample([1, 2], rng.randint(0, 2))]]


def gen_result(rng):
    r = rng.random()
    if r < 0.2:
        return ["n"]
    if r < 0.4:
        return ["b", rng.random() < 0.5]
    if r < 0.5:
        return ["i", rng.choice([0, 0, 1, 5, -3])]
    d = [[rng.randint(1, 4), rng.randint(-5, 5)] for _ in range(rng.choice([0, 1, 1, 2, 3]))]
    if r < 0.62:
        return ["dm", d[:1], gen_mp(rng)]
    return ["d", d]


def gen_sync(rng, tier, i):
    typ = rng.choice(["relay", "relay", "relay", "boolean", "boolean", "plain"])
    hs = []
    for hid in range(1, rng.choice([0, 1, 2, 3, 4, 5, 5]) + 1):
        r = rng.random()
        if r < 0.45:
            beh = ["const", gen_result(rng)]
        elif r < 0.7:
            beh = ["incr", rng.randint(1, 4)]
        elif r < 0.85:
            beh = ["falseif", rng.randint(1, 4), rng.randint(0, 3)]
        else:
            beh = ["block", rng.choice([1, 2]), rng.choice([2, 6, 11])]
        hkw = []
        if rng.random() < 0.4:
            hkw = [[k, rng.randint(0, 3)] for k in rng.sample([1, 2, 3, 4], rng.choice([1, 1, 2]))]
        fac = rng.choice([1, 2]) if rng.random() < 0.3 else None
        hs.append([hid, rng.choice([1, 1, 2, 5, 5, 10]), beh, hkw, fac])
    kw = []
    if rng.random() >= 0.4:                # 40 %: posted WITHOUT arguments
        for k in rng.sample([1, 2, 3, 4, 5], rng.randint(1, 3)):
            kw.append([k, rng.randint(0, 3)])
    mp = gen_mp(rng) if rng.random() < 0.1 else None
    return {"type": typ, "hs": hs, "kw": kw, "mp": mp}


def sync_fields(h):
    h = list(h)
    return h + [[], None][len(h) - 3:] if len(h) < 5 else h


def _py_mp(mp):
    d = {"all": mp[0]}
    for f, p in mp[1]:
        d["f%d" % f] = p
    return d


def _canon_mp(m):
    if m is None:
        return None
    if not isinstance(m, dict) or "all" not in m:
        return ["?", repr(m)]
    return [m["all"], sorted([int(k[1:]), v] for k, v in m.items() if k != "all")]


def _py_result(t):
    if t[0] == "n":
        return None
    if t[0] in ("b", "i"):
        return t[1]
    d = {}
    for k, v in t[1]:
        d["k%d" % k] = v
    if t[0] == "dm":
        d["_min_priority"] = _py_mp(t[2])
    return d


def _tag_result(r):
    if r is None:
        return ["n"]
    if isinstance(r, bool):
        return ["b", r]
    if isinstance(r, int):
        return ["i", r]
    if isinstance(r, dict):
        d = sorted([int(k[1:]), v] for k, v in r.items() if k != "_min_priority")
        if "_min_priority" in r:
            return ["dm", d, _canon_mp(r["_min_priority"])]
        return ["d", d]
    return ["?", repr(r)]


def _canon_kw(kwargs):
    return sorted([int(k[1:]), v] for k, v in kwargs.items() if k not in ("ev_result", "_min_priority"))


def run_sync(case):
    from mpf.core.events import EventManager
    _init_queue()
    if _W.get("boot_error"):
        return _boot_failed()
    rig = _W["rig"]
    _W["n"] += 1
    em = EventManager(rig.machine)
    name = "c02s_%d" % _W["n"]
    seen = []
    returned = []
    cbs = []

    def make(hid, beh):
        def handler(**kwargs):
            seen.append([hid, _canon_kw(kwargs), _canon_mp(kwargs.get("_min_priority"))])
            if beh[0] == "const":
                r = _py_result(beh[1])
            elif beh[0] == "incr":
                r = {"k%d" % beh[1]: kwargs.get("k%d" % beh[1], 0) + 1}
            elif beh[0] == "block":           # what block_event_player / shot do (on a copy)
                m = dict(kwargs.get("_min_priority", {"all": 0}))
                m["f%d" % beh[1]] = beh[2]
                r = {"_min_priority": m}
            else:
                r = not (kwargs.get("k%d" % beh[1]) == beh[2])
            returned.append([hid, _tag_result(r)])
            return r
        return handler
    keys = []
    for h in case["hs"]:
        hid, prio, beh, hkw, fac = sync_fields(h)
        keys.append(em.add_handler(name, make(hid, beh), priority=prio,
                                   blocking_facility=None if fac is None else "f%d" % fac,
                                   **{"k%d" % k: v for k, v in hkw}))

    def cb(**kwargs):
        cbs.append({"kw": _canon_kw(kwargs), "mp": _canon_mp(kwargs.get("_min_priority")), "has": "ev_result" in kwargs,
                    "evr": _tag_result(kwargs.get("ev_result"))})
    kw = {"k%d" % k: v for k, v in case["kw"]}
    if case.get("mp") is not None:
        kw["_min_priority"] = _py_mp(case["mp"])
    post = {"relay": em.post_relay, "boolean": em.post_boolean, "plain": em.post}[case["type"]]
    try:
        post(name, cb, **kw)
        rig.advance(0.125)
    except Exception as e:
        _drop_rig("rig")
        return {"seen": seen, "returned": returned, "cbs": cbs, "loop_exception": "%s: %s" % (type(e).__name__, str(e)[:300])}
    for k in keys:
        em.remove_handler_by_key(k)
    return {"seen": seen, "returned": returned, "cbs": cbs}


def c_kw(kw):
    return tlist(("(%s, %s)" % (zlit(k), zlit(v)) for k, v in kw), "(Z * Z)")


def c_mp(mp):
    return "(%s, %s)" % (zlit(mp[0]), c_kw(sorted(mp[1])))      # facility map in canonical (sorted) form


def c_omp(mp):
    return "(@None minprio)" if mp is None else "(Some %s)" % c_mp(mp)


def c_result(t):
    if t[0] == "n":
        return "RNone"
    if t[0] == "b":
        return "(RBool %s)" % blit(t[1])
    if t[0] == "i":
        return "(RInt %s)" % zlit(t[1])
    if t[0] == "dm":
        return "(RDictMP %s %s)" % (c_kw(t[1]), c_mp(t[2]))
    return "(RDict %s)" % c_kw(t[1])


def c_beh(b):
    if b[0] == "const":
        t = b[1]
        if t[0] in ("d", "dm"):      # a dict literal with repeated keys keeps the last value
            d = {}
            for k, v in t[1]:
                d[k] = v
            t = [t[0], [[k, v] for k, v in d.items()]] + t[2:]
        return "(BConst %s)" % c_result(t)
    if b[0] == "incr":
        return "(BIncr %s)" % zlit(b[1])
    if b[0] == "block":
        return "(BBlock %s %s)" % (zlit(b[1]), zlit(b[2]))
    return "(BFalseIf %s %s)" % (zlit(b[1]), zlit(b[2]))


def _mp_ok(m):
    return m is None or (len(m) == 2 and m[0] != "?")


def coq_sync(case, out):
    if out.get("loop_exception") or out.get("boot_error") or len(out["cbs"]) != 1:
        return None
    cb = out["cbs"][0]
    if not all(_mp_ok(s[2]) for s in out["seen"]) or not _mp_ok(cb["mp"]) or cb["evr"][0] == "?":
        return None
    typ = {"relay": "TRelay", "boolean": "TBoolean", "plain": "TPlain"}[case["type"]]
    regs = []
    for h in case["hs"]:
        hid, prio, beh, hkw, fac = sync_fields(h)
        regs.append("(mkSR %s %s %s %s %s)" % (zlit(hid), zlit(prio), c_kw(hkw),
                                              "None" if fac is None else "(Some %s)" % zlit(fac), c_beh(beh)))
    inp = "(%s, %s, (%s, %s))" % (typ, tlist(regs, "sreg"), c_kw(case["kw"]), c_omp(case.get("mp")))
    if not cb["has"]:
        evr = "ENone"
    elif cb["evr"] == ["b", False]:
        evr = "EFalse"
    else:
        evr = "(ERes %s)" % c_result(cb["evr"])
    seen = tlist(("(%s, (%s, %s))" % (zlit(h), c_kw(kw), c_omp(mp)) for h, kw, mp in out["seen"]), "(Z * sstate)")
    return "(%s, (mkSO %s (%s, %s) false RNone, %s))" % (inp, seen, c_kw(cb["kw"]), c_omp(cb["mp"]), evr)


def oracle_sync(case, out):
    """Independent of the model: replay the handlers' ACTUAL return values over the registration data."""
    fails = []
    if out.get("boot_error"):
        return [{"sig": "machine-does-not-boot", "what": "MPF does not boot on this tree: " + out["boot_error"]}]
    if out.get("loop_exception"):
        return [{"sig": "loop-exception", "what": "exception in the event loop: " + out["loop_exception"]}]
    if len(out["cbs"]) != 1:
        return [{"sig": "sync-callback-count", "what": "callback fired %d times" % len(out["cbs"])}]
    cb = out["cbs"][0]
    typ = case["type"]
    hs = [sync_fields(h) for h in case["hs"]]
    order = sorted(hs, key=lambda x: -x[1])
    seen = out["seen"]
    ret = dict((h, r) for h, r in out["returned"])
    kw = dict((k, v) for k, v in case["kw"])
    mp = case.get("mp")
    called = [s[0] for s in seen]
    expect_called = []
    aborted = False
    blocking = False
    for hid, prio, beh, hkw, fac in order:
        if mp is not None and fac is not None:
            facs = dict((f, p) for f, p in mp[1])
            if mp[0] > prio or (fac in facs and facs[fac] > prio):
                blocking = True
                continue                       # blocked by _min_priority: must not be called
        expect_called.append(hid)
        # what the handler must have seen: the kwargs as updated by all earlier handlers, overridden by its own
        view = dict(kw)
        for k, v in hkw:
            view[k] = v
        want = [sorted([k, v] for k, v in view.items()), None if mp is None else [mp[0], sorted(mp[1])]]
        mine = [s for s in seen if s[0] == hid]
        if mine and mine[0][1:] != want:
            fails.append({"sig": "relay-fold" if typ == "relay" else "sync-handler-kwargs",
                          "what": "handler %s (registered kwargs %s) saw %s, expected %s; posted %s"
                                  % (hid, hkw, mine[0][1:], want, case["kw"])})
            break
        r = ret.get(hid)
        if r is None:
            break
        if typ == "relay" and r[0] in ("d", "dm"):
            for k, v in r[1]:
                kw[k] = v
        if r[0] == "dm":
            mp = r[2]
        if typ == "boolean" and r == ["b", False]:
            aborted = True
            break
    if not fails and called != expect_called:
        sig = "boolean-first-false" if typ == "boolean" and not blocking else \
              ("min-priority-blocking" if blocking else "sync-handler-order")
        fails.append({"sig": sig, "what": "handlers called %s, expected %s" % (called, expect_called)})
    if not fails:
        want = [sorted([k, v] for k, v in kw.items()), None if mp is None else [mp[0], sorted(mp[1])]]
        if [cb["kw"], cb["mp"]] != want:
            fails.append({"sig": "relay-final-kwargs" if typ == "relay" else "callback-kwargs",
                          "what": "callback got %s, expected %s" % ([cb["kw"], cb["mp"]], want)})
    if typ == "boolean":
        if aborted and not (cb["has"] and cb["evr"] == ["b", False]):
            fails.append({"sig": "boolean-result", "what": "a handler returned False but the callback got ev_result=%s" % cb["evr"]})
        if not aborted and cb["has"] and cb["evr"] == ["b", False]:
            fails.append({"sig": "boolean-result", "what": "no handler returned False but ev_result is False"})
    return fails


def shrink_sync(case):
    hs = case["hs"]
    for i in range(len(hs)):
        yield dict(case, hs=hs[:i] + hs[i + 1:])
    for i in range(len(case["kw"])):
        yield dict(case, kw=case["kw"][:i] + case["kw"][i + 1:])
    if case.get("mp") is not None:
        yield dict(case, mp=None)
    for i, h in enumerate(hs):
        h = sync_fields(h)
        if h[3] or h[4] is not None:
            yield dict(case, hs=hs[:i] + [h[:3] + [[], None]] + hs[i + 1:])
            yield dict(case, hs=hs[:i] + [h[:3] + [h[3], None]] + hs[i + 1:])


def nontrivial_sync(case, out):
    rs = [r for _, r in out.get("returned", [])]
    if case["type"] == "relay":
        return any(r[0] in ("d", "dm") and (r[1] or r[0] == "dm") for r in rs)
    if case["type"] == "boolean":
        return ["b", False] in rs
    return len(rs) > 1


def describe_sync(case):
    hs = [sync_fields(h) for h in case["hs"]]
    return "%s handlers=%d posted=%s hkw=%s mp=%s" % (
        case["type"], len(hs), "empty" if not case["kw"] else "args", any(h[3] for h in hs),
        case.get("mp") is not None or any(h[2][0] == "block" or (h[2][0] == "const" and h[2][1][0] == "dm") for h in hs))



# ------------------------------------------------------------------------------------------------
# suite "life": the whole life of the wait a use_wait_queue mode holds on the queue event that started it, for chains of
# real modes: start -> (held mode_<m>_starting) -> active -> stop requested -> (held mode_<m>_stopping) -> stopped -> clear
#   modes 0..3; events: 1, 2 outer queue events, 3 outer plain event, 10*(m+1)+k lifecycle event k of mode m
#   (1 will_start, 2 starting [queue], 3 started, 5 stopping [queue], 6 stopped); Mode.start of mode m = handler 900+10*m+j
LIFE_MODES = [("la", True), ("lb", True), ("lc", True), ("ld", False)]      # name, use_wait_queue
LIFE_KINDS = {1: "will_start", 2: "starting", 3: "started", 5: "stopping", 6: "stopped"}
LIFE_OUTER = {1: "c02l_go1", 2: "c02l_go2", 3: "c02l_go3"}


def life_evname(ev):
    if ev < 10:
        return LIFE_OUTER[ev]
    return "mode_%s_%s" % (LIFE_MODES[ev // 10 - 1][0], LIFE_KINDS[ev % 10])


def life_is_queue(ev):
    return ev in (1, 2) or (ev >= 10 and ev % 10 in (2, 5))


def _life_start(self, o_start, run, mode_priority, callback, kwargs):
    """logging wrapper around Mode.start for the life suite (calls the original)"""
    if run.aborted:
        return None
    hid = kwargs.pop("_hid", None)
    m = run.life["idx"][self.name]
    info = run.life["starts"].get(hid, {"queue": False, "src": None})
    psn = kwargs.get("_psn") if info["src"] is None else run.life_psn.get(tuple(info["src"]))
    inst = run.life_inst.get(psn) if info["src"] is None else run.life_g.get(tuple(info["src"]))
    queue = kwargs.get("queue")
    at = len(run.log)
    q = None
    if info["queue"]:
        q = run.num(queue) if queue is not None else None
        run.log.append(["I", psn, hid, q])
        run.log.append(["A", canon_args(kwargs)])
    else:
        run.log.append(["P", psn, hid])
    was = bool(self._starting or self._active)
    spsn = None
    if not was:
        run.life_psn[(m, 1)] = run.alloc()          # post(mode_<m>_will_start)
        spsn = run.alloc()                          # post_queue(mode_<m>_starting)
    mark = len(run.log)
    run.in_mode = self.name
    try:
        o_start(self, mode_priority, callback, **kwargs)
    finally:
        run.in_mode = None
    started = bool(self._starting and not was)
    waits = [o[1] for o in run.log[mark:] if o[0] == "W"]
    gen = None
    if started:
        gen = run.life_gen.get(m, 0)
        run.life_gen[m] = gen + 1
        run.life_psn[(m, 2)] = spsn
        run.life_g[(m, 1)] = run.life_g[(m, 2)] = gen
        run.qposts.append(spsn)
        run.log.append(["Q", spsn])
    run.life_reqs.append({"hid": hid, "mode": m, "inst": inst, "gen": gen, "psn": psn, "busy": was, "started": started, "waits": waits, "q": q,
                          "queue": bool(info["queue"]), "got_queue": queue is not None, "at": at})
    return None


def _boot_life_rig():
    from rig import Rig
    modes = {}
    for name, uwq in LIFE_MODES:
        modes[name] = {"mode": {"start_events": ["c02l_unused_start_" + name], "stop_events": ["c02l_unused_stop_" + name],
                                "priority": 100, "use_wait_queue": uwq, "game_mode": False}}
    _W["lrig"] = Rig({"modes": [n for n, _ in LIFE_MODES]}, modes=modes).start()


def _init_life():
    if _W.get("boot_error"):
        return
    try:
        _patch()
        if _W.get("lrig") is None:
            _boot_life_rig()
    except BaseException as e:
        _W["boot_error"] = "%s: %s" % (type(e).__name__, str(e)[:300])


def gen_life(rng, tier, i):
    n = rng.choice([1, 2, 2, 2, 2, 2, 2, 3, 3])
    chain = rng.sample(range(len(LIFE_MODES)), n)
    if not LIFE_MODES[chain[0]][1] and rng.random() < 0.7:
        chain[0] = rng.choice([m for m in range(3) if m not in chain[1:]])
    hid = [0]
    regs = []

    def handlers(ev, k, prios):
        for _ in range(k):
            hid[0] += 1
            if not life_is_queue(ev):
                body = ["s", []]
            elif rng.random() < 0.2:
                body = ["a", rng.random() < 0.6, rng.random() < 0.2]
            else:
                r = rng.random()
                body = ["s", [["W"]] if r < 0.5 else ([["W"], ["CO"]] if r < 0.65 else [])]
            regs.append([ev, hid[0], rng.choice(prios), body])
    head = chain[0]
    outer = [1]
    regs.append([1, 900 + 10 * head, 100, ["start", head]])
    if rng.random() < 0.4:
        ev = rng.choice([2, 3])                     # a second start event of the head mode: queue or plain
        outer.append(ev)
        regs.append([ev, 900 + 10 * head + 1, 100, ["start", head]])
    for ev in outer:
        handlers(ev, rng.choice([0, 1, 1, 2, 3]), [1, 50, 100, 101, 150])
    links = []
    for prev, m in zip(chain, chain[1:]):
        k = rng.choice([1, 2, 3, 3, 5, 6])
        links.append(k)
        regs.append([10 * (prev + 1) + k, 900 + 10 * m, rng.choice([1, 3, 100]), ["start", m]])
    for m in chain:
        base = 10 * (m + 1)
        handlers(base + 2, rng.choice([0, 0, 1, 1, 2]), [1, 2, 5])
        handlers(base + 5, rng.choice([0, 1, 1, 1, 2]), [1, 2, 5])
        handlers(base + 1, rng.choice([0, 0, 1]), [1, 2, 5])
        handlers(base + 3, 1, [1, 2, 5])            # (mode_<m>_started / _stopped are posted with a callback: never the
        handlers(base + 6, 1, [1, 2, 5])            #  fast path; one plain handler keeps the model on the same path)
    rng.shuffle(regs)
    ops = [["PQ", 1, False]]
    later = outer[1:]
    for _ in range(rng.randint(2, 12)):
        r = rng.random()
        if r < 0.25:
            ops.append(["ST", rng.choice(chain)])
        elif r < 0.33 and later:
            ev = later.pop(0)
            ops.append(["PQ", ev, False] if ev != 3 else ["PP", 3])
        elif r < 0.38:
            ops.append(["PQ", 1, False])
        else:
            ops.append(["XN" if rng.random() < 0.1 else "CN", rng.randrange(4)])
    if rng.random() < 0.8:                          # fair end: stop every mode, release every harness wait (three rounds)
        for _ in range(3):
            order = list(chain)
            rng.shuffle(order)
            for m in order:
                ops += [["ST", m], ["CN", 0], ["CN", 0]]
            ops += [["CN", 0], ["CN", 0]]
    return {"chain": chain, "links": links, "regs": regs, "ops": ops}


def _life_phase(md):
    if md.stopping:
        return 3
    if md.active:
        return 2
    return 1 if md._starting else 0


def run_life(case):
    global CUR
    _init_life()
    if _W.get("boot_error"):
        return dict(_boot_failed(), resolved=[], table=[], life_reqs=[], life_events=[])
    rig = _W["lrig"]
    em = rig.machine.events
    modes = [rig.machine.modes[name] for name, _ in LIFE_MODES]
    run = Run(em, rig.loop, "c02l")
    run.life = {"idx": {name: j for j, (name, _) in enumerate(LIFE_MODES)}, "starts": {}}
    evs = set(r[0] for r in case["regs"]) | set(op[1] for op in case["ops"] if op[0] in ("PQ", "PP"))
    for ev in evs:
        run.evname[ev] = life_evname(ev)
    before = list(em._queue_tasks)
    CUR = run
    reboot = True
    try:
        for ev, hid, prio, body in case["regs"]:
            if body[0] == "start":
                run.life["starts"][hid] = {"queue": life_is_queue(ev), "src": None if ev < 10 else [ev // 10 - 1, ev % 10]}
                run.keys[hid] = em.add_handler(life_evname(ev), modes[body[1]].start, priority=prio, _hid=hid)
            else:
                run.register(ev, hid, prio, body, mode_handler=(False if ev < 10 else (ev // 10 - 1, ev % 10)))
        resolved = []
        nposted = {}
        for op in case["ops"]:
            if run.aborted:
                break
            k = op[0]
            if k in ("PQ", "PP"):
                g = nposted.get(op[1], 0)
                nposted[op[1]] = g + 1
                run.life_inst[run.psn] = g
                run.execute([op], None)
                op = ["PQ", op[1], False, [], g] if k == "PQ" else ["PP", op[1], g]
            elif k == "ST":
                md = modes[op[1]]
                if md.active and not md.stopping:
                    psn = run.alloc()
                    run.life_psn[(op[1], 5)] = psn
                    run.life_g[(op[1], 5)] = run.life_gen.get(op[1], 1) - 1
                    run.qposts.append(psn)
                    run.log.append(["Q", psn])
                    run.life_events.append(["stop", op[1], len(run.log)])
                    md.stop()
            else:
                others = [j for j, it in enumerate(run.outst) if it[0] != "m"]      # a mode's wait is not ours to clear
                if not others:
                    continue
                j = others[op[1] % len(others)]
                if k == "XN" and run.outst[j][0] != "f":
                    continue
                op = [k, j]
                run.execute([op], None)
            resolved.append(op)
            rig.advance(0.125)
        tasks = [t for t in em._queue_tasks if t not in before]
        out = run.observe(tasks)
        table = []
        for md in modes:
            wq = md._mode_start_wait_queue
            table.append([_life_phase(md), None if wq is None else run.qnum.get(id(wq), -1)])
        out.update(qposts=run.qposts, shared=False, posts=run.posts, resolved=resolved, table=table,
                   life_reqs=run.life_reqs, life_events=run.life_events,
                   lives=[run.life_gen.get(j, 0) for j in range(len(LIFE_MODES))])
        # drain quietly (wrappers bypassed, harness handlers inert): release everything, stop every mode
        run.aborted = True
        CUR = None
        for _ in range(5):
            for it in run.outst:
                try:
                    if it[0] == "f":
                        if not it[1].done():
                            it[1].set_result(None)
                    elif it[1].waiter and it[0] == "w":
                        it[1].clear()
                except AssertionError:
                    pass
            run.outst = [it for it in run.outst if it[0] == "m"]
            for md in modes:
                if md.active and not md.stopping:
                    md.stop()
            rig.advance(0.125)
        for key in run.keys.values():
            em.remove_handler_by_key(key)
        rig.advance(0.125)
        left = [t for t in em._queue_tasks if t not in before]
        reboot = bool(left or rig.exception() or any(md.active or md._starting or md.stopping or
                                                     md._mode_start_wait_queue is not None for md in modes))
        if rig.exception():
            out["loop_exception"] = str(rig.exception())[:300]
        return out
    except Exception as e:
        run.aborted = True
        out = run.observe([])
        out.update(qposts=run.qposts, shared=False, posts=run.posts, resolved=[], table=[], life_reqs=run.life_reqs,
                   life_events=run.life_events, loop_exception="%s: %s" % (type(e).__name__, str(e)[:300]))
        return out
    finally:
        CUR = None
        if reboot:
            _drop_rig("lrig")


def c_lop(op):
    k = op[0]
    if k == "PQ":
        return "(LEnv [APostQ %s false (@nil (Z * Z))])" % zlit(op[1] + 100 * op[4])
    if k == "PP":
        return "(LEnv [APostP %s])" % zlit(op[1] + 100 * op[2])
    if k == "ST":
        return "(LStop %s)" % nlit(op[1])
    return "(%s %s)" % ("LRelN" if k == "CN" else "LCancelN", nlit(op[1]))


def coq_life(case, out):
    """The model input is unrolled per instance (see coq/C02/Life.v): the g-th post of outer event e is event e + 100*g,
    the lifecycle events of the g-th life of a mode are 100*g + 10*(m+1) + k; every handler is registered for every
    instance of its event; the script of a Mode.start handler for instance g is what the implementation did at that
    invocation (started life `gen` of its mode, or ignored the request)."""
    if out.get("loop_exception") or out.get("boot_error") or not log_ok(out):
        return None
    if any(t[1] == -1 for t in out["table"]) or any(r["inst"] is None for r in out["life_reqs"]):
        return None
    dec = {}
    for r in out["life_reqs"]:
        if (r["hid"], r["inst"]) in dec:
            return None                       # (never: an instance of an event is dispatched once)
        dec[(r["hid"], r["inst"])] = r["gen"] if r["started"] else None
    ninst = {}
    for op in out["resolved"]:
        if op[0] in ("PQ", "PP"):
            ninst[op[1]] = ninst.get(op[1], 0) + 1
    regs = []
    for r in case["regs"]:
        ev, hid, prio, body = r
        n = ninst.get(ev, 1) if ev < 10 else max(1, out["lives"][ev // 10 - 1])
        for g in range(n):
            if body[0] == "start":
                gen = dec.get((hid, g))
                script = "(@nil action)" if gen is None else \
                    "(life_start_script %s %s %s)" % (blit(LIFE_MODES[body[1]][1]), nlit(body[1]), nlit(gen))
                regs.append("(%s, mkH %s %s [] None None (HSync %s))" % (zlit(ev + 100 * g), zlit(hid), zlit(prio), script))
            else:
                regs.append(c_handler([ev + 100 * g] + r[1:]))
    ops = tlist((c_lop(op) for op in out["resolved"]), "lop")
    table = coqlist("(%s, %s)" % (zlit(p), "(@None nat)" if q is None else "(Some %s)" % nlit(q)) for p, q in out["table"])
    return "(((%s, %s), %s), (%s, %s))" % (coqlist(regs), nlit(len(LIFE_MODES)), ops, c_outcome(out), table)


def oracle_life(case, out):
    """Independent of the model.  Nesting clause of the property: the wait a mode registered on the queue event that
    started it stands for the mode's whole life - no later handler of that event and not its callback run before the
    mode has stopped; every queue event (outer, starting, stopping) completes exactly once; MPF's own code never
    misuses a queue (Double lock / Not locked)."""
    regs = {}
    for ev, hid, prio, body in case["regs"]:
        regs.setdefault(ev, []).append((hid, prio))
    if out.get("boot_error") or out.get("loop_exception"):
        return oracle_log(out, regs, False, check_live=False)
    if out["err"]:
        return [{"sig": "mode-queue-misuse",
                 "what": "Double lock / Not locked raised on a queue object by Mode.start / Mode._stopped (the harness "
                         "handlers of this suite wait and clear at most once): log tail %s" % out["log"][-6:]}]
    fails = oracle_log(out, regs, False, check_live=False)
    log = out["log"]
    for r in out["life_reqs"]:
        name, uwq = LIFE_MODES[r["mode"]]
        if r["busy"] and r["started"]:
            fails.append({"sig": "mode-started-twice", "what": "start request %s started mode %s although it was running" % (r["hid"], name)})
        if not r["busy"] and not r["started"]:
            fails.append({"sig": "start-request-dropped", "what": "start request %s for the idle mode %s was ignored" % (r["hid"], name)})
        if not r["started"] and r["waits"]:
            fails.append({"sig": "ignored-start-holds-event", "what": "ignored start request %s of mode %s locked a queue" % (r["hid"], name)})
        if r["got_queue"] != r["queue"]:
            fails.append({"sig": "mode-start-foreign-queue",
                          "what": "Mode.start of %s (handler %s of a %s event) was called %s a queue object: the queue of "
                                  "another dispatch travelled with a lifecycle event"
                                  % (name, r["hid"], "queue" if r["queue"] else "plain", "with" if r["got_queue"] else "without")})
        elif r["started"] and r["waits"] != ([r["q"]] if (uwq and r["queue"]) else []):
            fails.append({"sig": "mode-wait-queue", "what": "mode %s (use_wait_queue=%s) started by handler %s given queue %s: "
                                                            "waits registered on %s" % (name, uwq, r["hid"], r["q"], r["waits"])})
        if r["started"] and r["waits"] and r["queue"]:
            # the mode holds queue q of the dispatch of post psn from log position `at` until it has stopped
            end = len(log)
            for kind, m, pos in out["life_events"]:
                if kind == "stopped" and m == r["mode"] and pos > r["at"]:
                    end = pos
                    break
            for n in range(r["at"] + 2, end - 1 if end < len(log) else end):
                o = log[n]
                if o[0] == "C" and o[1] == r["q"]:
                    fails.append({"sig": "mode-wait-released-before-stopped",
                                  "what": "mode %s released the wait on queue %s of post %s before it had stopped "
                                          "(mode_%s_stopping not complete)" % (name, r["q"], r["psn"], name)})
                    break
                if o[0] in ("I", "CB") and o[1] == r["psn"]:
                    fails.append({"sig": "outer-continued-before-mode-stopped",
                                  "what": "queue event (post %s) went on (%s) while mode %s, started by its handler %s with "
                                          "use_wait_queue, had not stopped" % (r["psn"], o, name, r["hid"])})
                    break
    if fails:
        return fails
    cbs = [o[1] for o in log if o[0] == "CB"]
    for psn in set(cbs):
        if cbs.count(psn) > 1:
            fails.append({"sig": "callback-twice", "what": "post %s completed %d times" % (psn, cbs.count(psn))})
    if not out["outst"] and all(p == 0 for p, _ in out["table"]):
        for psn in out["qposts"]:
            if cbs.count(psn) != 1:
                fails.append({"sig": "callback-lost", "what": "every wait is released and every mode has stopped: queue event "
                                                              "(post %s) completed %d times (dispatchers pending: %d)"
                                                              % (psn, cbs.count(psn), out["pending"])})
                break
    return fails


def shrink_life(case):
    regs, ops = case["regs"], case["ops"]
    for i in range(1, len(ops)):
        yield dict(case, ops=ops[:i] + ops[i + 1:])
    for i, r in enumerate(regs):
        if r[3][0] != "start" and not (r[0] >= 10 and r[0] % 10 in (3, 6)):
            yield dict(case, regs=regs[:i] + regs[i + 1:])
    for i, r in enumerate(regs):
        if r[3][0] == "start" and r[0] >= 10:
            yield dict(case, regs=regs[:i] + regs[i + 1:])
    for i, r in enumerate(regs):
        if r[3][0] in ("s", "a") and r[3] != ["s", []] and life_is_queue(r[0]):
            yield dict(case, regs=regs[:i] + [r[:3] + [["s", []]]] + regs[i + 1:])


def nontrivial_life(case, out):
    held = any(r["started"] and r["waits"] for r in out.get("life_reqs", []))
    return held and any(e[0] == "stop" for e in out.get("life_events", []))


def describe_life(case):
    return "chain=%d links=%s stopping_handlers=%d" % (
        len(case["chain"]), "".join(str(k) for k in case["links"]),
        min(3, sum(1 for r in case["regs"] if r[0] >= 10 and r[0] % 10 == 5 and r[3][0] != "start")))



# ------------------------------------------------------------------------------------------------
# suite "relock": QueuedEvent.wait / clear from OUTSIDE the handlers on queue objects the handlers kept, at any time
# relative to the wake-ups of the dispatcher task (coq/C02/Relock.v)
def gen_relock(rng, tier, i):
    n = rng.randint(1, 4)
    hs = [rng.random() < 0.65 for _ in range(n)]
    ops = []
    for _ in range(rng.randint(1, 10)):
        r = rng.random()
        q = rng.randrange(n)
        if r < 0.25:
            ops += [["C", q], ["W", q]]          # first job done, second job started - in the same loop slice
        elif r < 0.45:
            ops.append(["C", q])
        elif r < 0.6:
            ops.append(["W", q])
        else:
            ops.append(["L"])
    return {"hs": hs, "ops": ops}


def run_relock(case):
    from mpf.core.events import EventManager
    _init_queue()
    if _W.get("boot_error"):
        return {"boot_error": _W["boot_error"], "log": [], "err": False, "pending": 0, "locked": []}
    rig = _W["rig"]
    _W["n"] += 1
    em = EventManager(rig.machine)
    name = "c02k_%d" % _W["n"]
    qs, log = [], []

    def make(i, w):
        def handler(queue, **kwargs):
            log.append(["inv", i, bool(qs[-1].waiter) if qs else False])
            qs.append(queue)
            if w:
                queue.wait()
                log.append(["wait", i])
        return handler

    def cb(**kwargs):
        log.append(["cb", bool(qs[-1].waiter) if qs else False])
    keys = [em.add_handler(name, make(i, w), priority=100 - i) for i, w in enumerate(case["hs"])]
    err = False
    try:
        em.post_queue(name, cb)
        rig.advance(0.125)
        for op in case["ops"]:
            try:
                if op[0] == "L":
                    rig.advance(0.125)
                elif op[1] < len(qs):
                    if op[0] == "W":
                        qs[op[1]].wait()
                        log.append(["wait", op[1]])
                    else:
                        qs[op[1]].clear()
                        log.append(["clear", op[1]])
            except AssertionError:
                log.append(["err"])
                err = True
                break
        if not err:
            rig.advance(0.125)
    except Exception as e:
        _drop_rig("rig")
        return {"log": log, "err": err, "pending": 0, "locked": [], "loop_exception": "%s: %s" % (type(e).__name__, str(e)[:300])}
    out = {"log": log, "err": err, "pending": len(em._queue_tasks), "locked": [bool(q.waiter) for q in qs]}
    for t in list(em._queue_tasks):
        t.remove_done_callback(em._queue_task_done)
        t.cancel()
        em._queue_tasks.remove(t)
    for k in keys:
        em.remove_handler_by_key(k)
    try:
        rig.advance(0.125)
    except Exception:
        _drop_rig("rig")
    return out


def coq_relock(case, out):
    if out.get("loop_exception") or out.get("boot_error"):
        return None
    ops = tlist(("KLoop" if op[0] == "L" else "(%s %s)" % ("KWait" if op[0] == "W" else "KClear", nlit(op[1]))
                 for op in case["ops"]), "kop")
    log = []
    bad = False
    for o in out["log"]:
        if o[0] == "inv":
            log.append("(KoInv %s)" % nlit(o[1]))
            bad = bad or o[2]
        elif o[0] == "cb":
            log.append("KoCb")
            bad = bad or o[1]
        elif o[0] == "err":
            log.append("KoErr")
        else:
            log.append("(%s %s)" % ("KoWait" if o[0] == "wait" else "KoClear", nlit(o[1])))
    done = any(o[0] == "cb" for o in out["log"])
    return "((%s, %s), (%s, %s, %s, %s))" % (coqlist(blit(w) for w in case["hs"]), ops, tlist(log, "kobs"), blit(bad),
                                            zlit(3 if done else 1), blit(out["err"]))


def oracle_relock(case, out):
    if out.get("boot_error"):
        return [{"sig": "machine-does-not-boot", "what": "MPF does not boot on this tree: " + out["boot_error"]}]
    if out.get("loop_exception"):
        return [{"sig": "loop-exception", "what": "exception in the event loop: " + out["loop_exception"]}]
    fails = []
    for o in out["log"]:
        if (o[0] == "inv" and o[2]) or (o[0] == "cb" and o[1]):
            fails.append({"sig": "relock-wait-overrun",
                          "what": "%s ran while the wait on the previous handler's queue - registered again after a clear, "
                                  "before the dispatcher task woke up - is outstanding"
                                  % ("handler %d" % o[1] if o[0] == "inv" else "the completion callback")})
            break
    ncb = sum(1 for o in out["log"] if o[0] == "cb")
    if ncb > 1:
        fails.append({"sig": "callback-twice", "what": "callback fired %d times" % ncb})
    if not out["err"] and not fails:
        if ncb == 0 and not any(out["locked"]):
            fails.append({"sig": "callback-lost", "what": "no queue is locked, the loop is idle, the callback was not called "
                                                          "(dispatchers pending: %d)" % out["pending"]})
        if ncb == 1 and out["pending"]:
            fails.append({"sig": "callback-lost", "what": "callback called but %d dispatchers pending" % out["pending"]})
        invoked = [o[1] for o in out["log"] if o[0] == "inv"]
        if invoked != list(range(len(invoked))) or (ncb == 1 and len(invoked) != len(case["hs"])):
            fails.append({"sig": "priority-order", "what": "handlers invoked: %s of %d" % (invoked, len(case["hs"]))})
    return fails


def shrink_relock(case):
    ops = case["ops"]
    for i in range(len(ops)):
        yield dict(case, ops=ops[:i] + ops[i + 1:])
    if len(case["hs"]) > 1:
        n = len(case["hs"]) - 1
        yield {"hs": case["hs"][:n], "ops": [op for op in ops if op[0] == "L" or op[1] < n]}


def nontrivial_relock(case, out):
    log = out.get("log", [])
    return any(a[0] == "clear" and b[0] == "wait" and a[1] == b[1] for a, b in zip(log, log[1:]))


def describe_relock(case):
    return "handlers=%d waits=%d" % (len(case["hs"]), sum(case["hs"]))


HDR_QUEUE = "From C02 Require Import Model.\nDefinition run := queue_run.\nDefinition out_eqb := outcome_eqb.\n"
HDR_RELAY = ("From C02 Require Import Model Relay.\nDefinition c02_relay_cfg := %s.\n"
             "Definition run := relay_run.\nDefinition out_eqb := relay_out_eqb.\n" % RELAY_CFG_COQ)
HDR_BALLEND = "From C02 Require Import Model ModeCtl.\nDefinition run := ballend_run.\nDefinition out_eqb := ballend_out_eqb.\n"
HDR_SYNC = "From C02 Require Import Model.\nDefinition run := sync_run.\nDefinition out_eqb := sync_out_eqb.\n"
HDR_RELOCK = "From C02 Require Import Relock.\nDefinition run := relock_run.\nDefinition out_eqb := relock_out_eqb.\n"
HDR_LIFE = "From C02 Require Import Model Life.\nDefinition run := life_run.\nDefinition out_eqb := life_out_eqb.\n"

SUITES = [
    Suite("queue", gen_queue, run_queue, HDR_QUEUE, coq_queue, oracle_queue, shrink_queue, nontrivial_queue,
          {"quick": 1500, "thorough": 40000}, worker_init=_init_queue, shard=250, describe=describe_queue),
    Suite("mode", gen_mode, run_mode, HDR_QUEUE, coq_mode, oracle_mode, shrink_mode, nontrivial_mode,
          {"quick": 400, "thorough": 8000}, worker_init=_init_mode, shard=200, describe=describe_mode),
    Suite("life", gen_life, run_life, HDR_LIFE, coq_life, oracle_life, shrink_life, nontrivial_life,
          {"quick": 500, "thorough": 10000}, worker_init=_init_life, shard=250, describe=describe_life),
    Suite("relock", gen_relock, run_relock, HDR_RELOCK, coq_relock, oracle_relock, shrink_relock, nontrivial_relock,
          {"quick": 400, "thorough": 10000}, worker_init=_init_queue, shard=400, describe=describe_relock),
    Suite("relay", gen_relay, run_relay, HDR_RELAY, coq_relay, oracle_relay, shrink_relay, nontrivial_relay,
          {"quick": 500, "thorough": 10000}, worker_init=_init_relay, shard=250, describe=describe_relay),
    Suite("ballend", gen_ballend, run_ballend, HDR_BALLEND, coq_ballend, oracle_ballend, shrink_ballend, nontrivial_ballend,
          {"quick": 400, "thorough": 8000}, worker_init=_init_ballend, shard=200, describe=describe_ballend),
    Suite("sync", gen_sync, run_sync, HDR_SYNC, coq_sync, oracle_sync, shrink_sync, nontrivial_sync,
          {"quick": 1000, "thorough": 30000}, worker_init=_init_queue, shard=500, describe=describe_sync),
]

LEVEL_TEXT = ("Machine-checked proof (Coq) over an executable model of the event manager's queue-event machinery (asyncio "
              "ready queue, process_event_queue, sequential dispatcher tasks, QueuedEvent heap, coroutine adapter): for all "
              "handler scripts, nestings and environment schedules, a dispatcher never continues while the wait of its "
              "previous handler is outstanding, calls its callback at most once and only after its whole handler snapshot "
              "ran in priority order, and - when no handler hands its queue object on to another queue event - the callback "
              "of every posted queue event has fired EXACTLY once whenever the loop is idle and nothing is outstanding, at "
              "most once and never without a post at any other time (every queue post is in exactly one of event_queue, "
              "callback_queue, a live dispatcher or the log; post numbers are never reused).  Clients of queue "
              "events: for all histories the queue relay player's handler registry and instance dicts stay in step, a "
              "wait_for event / a stopping context releases exactly its own queues exactly once and no blocked queue is "
              "orphaned; a mode's wait on the queue event that started it is released by the composition for exactly one "
              "reason, the completion of that mode's stopping queue event, and every state of the composition (chains of "
              "modes started by each other's lifecycle events) is a reachable state of the event-manager machine; a "
              "dispatcher that wakes up while its queue is locked again invokes nothing and sleeps again - for all "
              "sequences of waits, clears and loop runs it never overruns a lock, never loses a wake-up and calls the "
              "callback exactly once; ModeController._ball_ending holds the ball_ending queue exactly as long as a running game mode "
              "(active or already stopping) has not finished stopping and clears it exactly once.  Relay and boolean "
              "folding incl. handler-registered kwargs and _min_priority blocking are proved against an independent "
              "positional specification.  All models are tied to /repo by running both on the same generated scripts on "
              "every run (real EventManager, Mode, QueueRelayPlayer, QueueEventPlayer, ModeController objects).")
LEVEL_NOTE = ("Trusted: Coq kernel + vm_compute; no axioms.  Models hand-written; the asyncio FIFO scheduling they assume is "
              "validated by the correspondence run.  Four defects of the original tree are refuted on the model "
              "(nested_shared_queue_refuted, removed_handlers_callback_lost_refuted, qep_args_callback_refuted, "
              "relock_lost_wait_refuted) and "
              "repaired by fixes/C02-*.patch; the model describes the fixed code.  queue_callback_once_after_waits is "
              "proved in full for the event-manager machine (LemOnce.v); that a mode's wait is cleared by nothing but "
              "Mode._stopped is proved for the composition's own effects only (other scripts: oracle + correspondence).  "
              "The relay-player and mode-controller models are abstract state machines composed "
              "with / observed next to the event-manager machine, not one monolithic model; the mode-life composition runs the "
              "event-manager machine itself and adds the callbacks' effects after the step that logs the callback.")
TECHNIQUE = "Coq proof (invariants over small-step machines) + differential correspondence (vm_compute) + direct trace oracle"
DESIGN_REF = "DESIGN.md section 3, C02"
