"""Shared harness for C04 / C05 (ball devices): generated topologies, a physical-world simulator that
drives the switches of a real MPF machine on the virtual clock, and an exact program-order recorder.

What is recorded (in exact program order; asyncio is single-threaded, so the order is the real order):
  ["W", obj, attr, old, new]   every assignment to BallDevice.available_balls / counted_balls / _state,
                               Playfield._balls / available_balls / num_balls_requested,
                               BallController.num_balls_known   (class-level __setattr__ wrappers, installed in the
                               worker process only; /repo is never edited)
  ["P", event, {args}]         every balldevice_* / playfield event at the moment it is POSTED
                               (wrappers around the four public EventManager.post* methods of the instance)
  ["H", event, snap]           the same events when they are DISPATCHED (a handler with very high priority);
                               snap = what any other handler of that event can observe
  ["C", device, snap]          eject coil of <device> pulsed at the virtual platform driver
  ["S", kind, ...]             a physical move made by the simulator (switch change)
  ["A", action, ...]           a game-level action issued by the script
  ["T", snap, rest]            after each simulator step (loop quiescent): snapshot + "rest point" flag + truth

A snapshot is {dev: [counted, balls, available, state, incoming]}, pf: [balls, available, requested], known.
"""

TRACK_DEV = {"available_balls": "avail", "counted_balls": "count", "_state": "state"}
TRACK_PF = {"_balls": "balls", "available_balls": "avail", "num_balls_requested": "req"}

_REC = {"cur": None}
_PATCHED = {"done": False}

STATES = ["idle", "waiting_for_ball", "waiting_for_target_ready", "ejecting", "ball_left", "failed_confirm",
          "eject_broken"]


WAIT_ITEMS = ("IB+", "IB-", "IR", "XC", "CW", "ICH", "OW", "LK+", "LK-")     # see coq/C05/Waits.v


def install_hooks():
    """Class-level write hooks (once per worker process)."""
    if _PATCHED["done"]:
        return
    _PATCHED["done"] = True
    from mpf.devices.ball_device.ball_device import BallDevice
    from mpf.devices.playfield import Playfield
    from mpf.core.ball_controller import BallController

    def wrap(cls, table, kind):
        orig = cls.__setattr__

        def hooked(self, name, value):
            r = _REC["cur"]
            if r is not None and name in table:
                try:
                    old = getattr(self, name)
                except AttributeError:
                    old = None
                orig(self, name, value)
                r.write(kind, self, table[name], old, value)
            else:
                orig(self, name, value)
        cls.__setattr__ = hooked

    from mpf.core.events import EventManager

    def wrap_post(meth):
        orig = getattr(EventManager, meth)

        def wrapped(self, event, *a, **kw):
            r = _REC["cur"]
            if r is not None and r.rig is not None and self is r.rig.machine.events and event in r.names:
                r.log.append(["P", event, r.kw(kw)])
                if event.endswith("_ball_missing") and event != "balldevice_ball_missing" and r.pending_lost > 0:
                    r.pending_lost -= 1     # lost_idle_ball has booked one of the balls the idle device lost
            return orig(self, event, *a, **kw)
        setattr(EventManager, meth, wrapped)
    for meth in ("post", "post_boolean", "post_queue", "post_relay"):
        wrap_post(meth)

    # external eject confirmation (confirm_eject_type switch / event) and incoming balls that timed out
    from mpf.devices.ball_device.incoming_balls_handler import IncomingBall

    def wrap_ib(meth, tag):
        orig = getattr(IncomingBall, meth)

        def wrapped(self, *a, **kw):
            r = _REC["cur"]
            if r is not None and r.rig is not None and self._source.machine is r.rig.machine:
                if tag != "X" or not (a[0] if a else kw.get("future")).cancelled():
                    r.log.append([tag, self._source.name, self._target.name])
            return orig(self, *a, **kw)
        setattr(IncomingBall, meth, wrapped)
    wrap_ib("add_external_confirm_switch", "XA")
    wrap_ib("add_external_confirm_event", "XA")
    wrap_ib("_external_confirm", "X")
    orig_lost = BallDevice.lost_incoming_ball

    def lost_incoming_ball(self, source):
        r = _REC["cur"]
        if r is not None and r.rig is not None and self.machine is r.rig.machine:
            oh = self.outgoing_balls_handler
            cf = getattr(oh, "_cancel_future", None)
            # + what lost_incoming_ball finds: state, available_balls, can the current eject be cancelled, queued ejects
            r.log.append(["L", self.name, source.name, self.incoming_balls_handler.get_num_incoming_balls(),
                          self.state, self.available_balls, bool(cf is not None and not cf.done()),
                          oh._eject_queue.qsize() if hasattr(oh, "_eject_queue") else -1])
        return orig_lost(self, source)
    BallDevice.lost_incoming_ball = lost_incoming_ball

    # the waiting states of a device as a target (coq/C05/Waits.v): every mutation of _incoming_balls, the calls that
    # block / wake, and the lock _is_timeouting.  Items: ["IB+", dev, id] ["IB-", dev, id] (list mutation),
    # ["IR", dev, id] (remove_incoming_ball called), ["XC", dev, id] (external confirm), ["CW", dev] (a source starts to wait
    # for a count change), ["ICH", dev] (incoming_balls_changed), ["OW", dev] (wait_for_no_incoming_balls),
    # ["LK+", dev] / ["LK-", dev] (own eject took / released _is_timeouting)
    from mpf.devices.ball_device.incoming_balls_handler import IncomingBallsHandler
    from mpf.devices.ball_device.ball_count_handler import BallCountHandler

    def mine(handler):
        r = _REC["cur"]
        if r is not None and r.rig is not None and handler.machine is r.rig.machine:
            return r
        return None

    class LoggedList(list):
        def __init__(self, handler):
            super().__init__()
            self._h = handler
            self._n = 0

        def append(self, ball):
            ball._verif_id = self._n
            self._n += 1
            r = _REC["cur"]
            if r is not None:
                r.log.append(["IB+", self._h.ball_device.name, ball._verif_id])
            super().append(ball)

        def remove(self, ball):
            r = _REC["cur"]
            if r is not None:
                r.log.append(["IB-", self._h.ball_device.name, getattr(ball, "_verif_id", -1)])
            super().remove(ball)

    orig_ih_init = IncomingBallsHandler.__init__

    def ih_init(self, ball_device):
        orig_ih_init(self, ball_device)
        if _REC["cur"] is not None:
            self._incoming_balls = LoggedList(self)
    IncomingBallsHandler.__init__ = ih_init

    def note(cls, meth, tag, with_ball=False):
        orig = getattr(cls, meth)

        def wrapped(self, *a, **kw):
            r = mine(self)
            if r is not None:
                item = [tag, self.ball_device.name]
                if with_ball:
                    item.append(getattr(a[0] if a else kw.get("incoming_ball"), "_verif_id", -1))
                r.log.append(item)
            return orig(self, *a, **kw)
        setattr(cls, meth, wrapped)
    note(IncomingBallsHandler, "remove_incoming_ball", "IR", True)
    note(IncomingBallsHandler, "wait_for_no_incoming_balls", "OW")
    note(IncomingBallsHandler, "end_eject", "LK-")
    note(BallCountHandler, "wait_for_ball_count_changed", "CW")
    if hasattr(BallCountHandler, "incoming_balls_changed"):
        note(BallCountHandler, "incoming_balls_changed", "ICH")
    orig_start = IncomingBallsHandler.start_eject

    def start_eject(self):
        co = orig_start(self)

        async def locked():
            res = await co
            r = mine(self)
            if r is not None:
                r.log.append(["LK+", self.ball_device.name])
            return res
        return locked()
    IncomingBallsHandler.start_eject = start_eject
    orig_xc = IncomingBall._external_confirm

    def xc(self, future):
        r = _REC["cur"]
        if r is not None and r.rig is not None and self._source.machine is r.rig.machine and not future.cancelled() \
                and not self._target.is_playfield():
            r.log.append(["XC", self._target.name, getattr(self, "_verif_id", -1)])
        return orig_xc(self, future)
    IncomingBall._external_confirm = xc

    # ball search: which device's coil is fired by a search callback (not an eject), and the give-up
    from mpf.devices.ball_device.default_ball_search import DefaultBallSearch
    from mpf.core.ball_search import BallSearch
    orig_bs = DefaultBallSearch.ball_search

    def ball_search(self, phase, iteration):
        r = _REC["cur"]
        if r is not None and r.rig is not None and self.ball_device.machine is r.rig.machine:
            r.searching = self.ball_device.name
            try:
                return orig_bs(self, phase, iteration)
            finally:
                r.searching = None
        return orig_bs(self, phase, iteration)
    DefaultBallSearch.ball_search = ball_search
    orig_give_up = BallSearch.give_up

    def give_up(self):
        r = _REC["cur"]
        if r is None or r.rig is None or self.machine is not r.rig.machine:
            return orig_give_up(self)
        pf, bc_ = self.playfield, self.machine.ball_controller
        r.log.append(["G", pf.balls, pf.available_balls, bc_.num_balls_known, r.truth()])
        try:
            return orig_give_up(self)
        finally:
            for it in reversed(r.log):
                if it[0] == "G":
                    r.written_off += it[3] - bc_.num_balls_known    # balls MPF no longer knows of (still loose)
                    break
            r.log.append(["G2", pf.balls, pf.available_balls, bc_.num_balls_known])
    BallSearch.give_up = give_up

    wrap(BallDevice, TRACK_DEV, "dev")
    wrap(Playfield, TRACK_PF, "pf")
    wrap(BallController, {"num_balls_known": "known"}, "bc")


# ------------------------------------------------------------------------------------------------
def make_config(topo):
    """Machine config (JSON-able) for a generated topology.

    topo = {"trough_n": 2..5, "balls": k <= trough_n, "plunger_k": 1|2 (capacity of the plunger/staging device),
            "lock_k": 0..2, "lock_kind": "switch"|"entrance" (how the lock counts), "lock_to": "playfield"|"plunger"
            (second source into the plunger), "t_*": eject timeouts ms, "att_*": max_eject_attempts,
            "miss_extra": ball_missing_timeout - eject_timeout of the trough, "loose": balls MPF has never seen,
            "game": 0|1 (real game with a ball_save (eject_delay) and a multiball), "save_delay": ms}
    """
    sw = {"s_pf": {"number": "1", "tags": "playfield_active"}}
    coils = {"c_trough": {"number": "1"}, "c_plunger": {"number": "2"}}
    dt = device_table(topo)
    for i, s in enumerate(dt["trough"]["sw"]):
        sw[s] = {"number": str(10 + i)}
    for i, s in enumerate(dt["plunger"]["sw"]):
        sw[s] = {"number": str(30 + i)}
    bd = {
        "trough": {"ball_switches": ", ".join(dt["trough"]["sw"]), "eject_coil": "c_trough",
                   "tags": "trough, home" if "outhole" in dt else "trough, home, drain",
                   "eject_targets": "plunger", "eject_timeouts": "%dms" % topo["t_trough"],
                   "ball_missing_timeouts": "%dms" % (topo["t_trough"] + topo.get("miss_extra", 20000)),
                   "max_eject_attempts": topo.get("att_trough", 0)},
        "plunger": {"ball_switches": ", ".join(dt["plunger"]["sw"]), "eject_coil": "c_plunger",
                    "eject_targets": "playfield",
                    "eject_timeouts": "%dms" % topo["t_plunger"],
                    "max_eject_attempts": topo.get("att_plunger", 0)},
    }
    if topo.get("lock_k", 0):
        coils["c_lock"] = {"number": "3"}
        lk = dt["lock"]
        bd["lock"] = {"eject_coil": "c_lock", "eject_targets": lk["target"],
                      "eject_timeouts": "%dms" % topo["t_lock"], "max_eject_attempts": topo.get("att_lock", 0)}
        if lk["target"] != "playfield":
            bd["lock"]["ball_missing_timeouts"] = "%dms" % (topo["t_lock"] + topo.get("miss_extra", 20000))
        if lk["kind"] == "entrance":
            sw["s_lock_entrance"] = {"number": "20"}
            bd["lock"]["entrance_switch"] = "s_lock_entrance"
            bd["lock"]["ball_capacity"] = lk["cap"]
        else:
            for i, s in enumerate(lk["sw"]):
                sw[s] = {"number": str(20 + i)}
            bd["lock"]["ball_switches"] = ", ".join(lk["sw"])
    if "outhole" in dt:
        coils["c_outhole"] = {"number": "4"}
        sw["s_outhole"] = {"number": "40"}
        bd["outhole"] = {"ball_switches": "s_outhole", "eject_coil": "c_outhole", "tags": "drain",
                         "eject_targets": "trough", "eject_timeouts": "%dms" % topo["t_outhole"],
                         "ball_missing_timeouts": "%dms" % (topo["t_outhole"] + topo.get("miss_extra", 20000)),
                         "max_eject_attempts": 0}
    for d in topo.get("enable_coil", []):
        if d in dt:     # EnableCoilEjector instead of PulseCoilEjector
            coils[dt[d]["coil"]]["allow_enable"] = True
            bd[d]["eject_coil_enable_time"] = "200ms"
    for i, (d, v) in enumerate(dt.items()):
        if v["confirm"] == "switch":
            sw["s_%s_confirm" % d] = {"number": str(50 + i)}
            bd[d]["confirm_eject_type"] = "switch"
            bd[d]["confirm_eject_switch"] = "s_%s_confirm" % d
        elif v["confirm"] == "event":
            bd[d]["confirm_eject_type"] = "event"
            bd[d]["confirm_eject_event"] = "verif_%s_confirmed" % d
    cfg = {
        "switches": sw, "coils": coils, "ball_devices": bd,
        "playfields": {"playfield": {"default_source_device": "plunger", "tags": "default"}},
        "virtual_platform_start_active_switches": ", ".join(dt["trough"]["sw"][:topo["balls"]]),
    }
    if topo.get("search"):
        # ball search on the playfield: after <timeout> without playfield switch activity the idle, empty devices are
        # pulsed (phase 1 only: the other devices carry the tag no-eject-on-ballsearch, phases 2 / 3 have 0 searches),
        # then the search gives up and writes the balls on the playfield off
        se = topo["search"]
        cfg["playfields"]["playfield"].update({
            "enable_ball_search": True, "ball_search_timeout": "%dms" % se["timeout"],
            "ball_search_interval": "150ms", "ball_search_phase_1_searches": se.get("k1", 1),
            "ball_search_phase_2_searches": 0, "ball_search_phase_3_searches": 0,
            "ball_search_wait_after_iteration": "%dms" % se.get("wait", 1000),
            "ball_search_failed_action": "new_ball"})
        for d in bd:
            if d != "trough":
                bd[d]["tags"] = (bd[d].get("tags", "") + ", no-eject-on-ballsearch").lstrip(", ")
    if topo.get("hold") and "lock" in dt:
        # a ball_hold over the lock: it claims the balls that enter (instead of the simulator's claim handler) and its
        # release_one / release_all events are the source of the lock's eject requests (BallHold.release_balls)
        cfg["ball_holds"] = {"bh": {"hold_devices": "lock", "balls_to_hold": dt["lock"]["cap"],
                                    "enable_events": "verif_hold_enable", "disable_events": "verif_hold_disable",
                                    "release_one_events": "verif_release_one",
                                    "release_all_events": "verif_release_all"}}
    if topo.get("game"):
        sw["s_start"] = {"number": "2", "tags": "start"}
        cfg["game"] = {"balls_per_game": 1}
        cfg["machine"] = {"min_balls": 1}
        cfg["ball_saves"] = {"bs": {"enable_events": "ball_started", "active_time": "60s", "balls_to_save": -1,
                                    "eject_delay": "%dms" % topo.get("save_delay", 1000), "auto_launch": True}}
        cfg["multiballs"] = {"mb": {"ball_count": 2, "ball_count_type": "total", "shoot_again": "0",
                                    "start_events": "verif_mb_start"}}
    return cfg


def device_table(topo):
    """name -> dict(sw, cap, kind, target, coil, timeout, att, trough, sources); order fixes the numeric ids"""
    pk = topo.get("plunger_k", 1)
    t = {
        "trough": {"sw": ["s_trough%d" % i for i in range(1, topo["trough_n"] + 1)], "target": "plunger",
                   "coil": "c_trough", "timeout": topo["t_trough"], "att": topo.get("att_trough", 0), "trough": True,
                   "kind": "switch"},
        "plunger": {"sw": ["s_plunger%d" % i for i in range(1, pk + 1)], "target": "playfield", "coil": "c_plunger",
                    "timeout": topo["t_plunger"], "att": topo.get("att_plunger", 0), "trough": False,
                    "kind": "switch"},
    }
    if topo.get("lock_k", 0):
        t["lock"] = {"sw": ["s_lock%d" % i for i in range(1, topo["lock_k"] + 1)],
                     "target": topo.get("lock_to", "playfield"),
                     "coil": "c_lock", "timeout": topo["t_lock"], "att": topo.get("att_lock", 0), "trough": False,
                     "kind": topo.get("lock_kind", "switch")}
    if topo.get("outhole"):
        t["outhole"] = {"sw": ["s_outhole"], "target": "trough", "coil": "c_outhole", "timeout": topo["t_outhole"],
                        "att": 0, "trough": False, "kind": "switch"}
    for name, d in t.items():
        d["cap"] = len(d["sw"])
        # how an eject is confirmed: by the target's count, or by a switch / an event the ball passes on its way
        d["confirm"] = topo.get("confirm", {}).get(name, "target") if d["target"] != "playfield" else "target"
    for d, v in t.items():
        v["sources"] = [s for s, w in t.items() if w["target"] == d]
    return t


DEV_ID = {"trough": 0, "plunger": 1, "lock": 2, "outhole": 3, "playfield": 9}


# ------------------------------------------------------------------------------------------------
class World:
    """Runs one case: real MPF machine + physical simulator + recorder."""

    EVENTS_SUFFIX = ["_ball_eject_attempt", "_ejecting_ball", "_ball_eject_success", "_ball_eject_failed",
                     "_ball_lost", "_ball_missing", "_ball_enter", "_ball_entered", "_ball_count_changed",
                     "_broken"]

    def __init__(self, case):
        self.case = case
        self.topo = case["topo"]
        self.devs = device_table(self.topo)
        self.log = []
        self.loose = self.topo.get("loose", 0)      # balls physically loose on the playfield
        self.transit = []       # [src, dst, leave_time_us] balls physically on their way
        self.occ = {d: [False] * v["cap"] for d, v in self.devs.items()}
        for i in range(self.topo["balls"]):
            self.occ["trough"][i] = True
        self.total = self.topo["balls"] + self.loose
        self.since = {d: [0.0] * v["cap"] for d, v in self.devs.items()}
        self.faults = {d: list(case.get("faults", {}).get(d, [])) for d in self.devs}
        self.claim = list(case.get("claims", []))       # lock claim decisions, consumed per unclaimed ball
        self.last_phys = 0.0
        self.last_phys_dev = {d: 0.0 for d in self.devs}
        self.spont_loss = {d: False for d in self.devs}      # a ball left d although nobody ejected it
        self.idle_since = {d: 0.0 for d in self.devs}
        self.visits = {d: [] for d in self.devs}        # [arrive_us, leave_us or None] of balls from the playfield
        self.error = None
        self.delivered = {}     # target -> balls physically delivered
        self.rig = None
        self.names = set()
        self.pending_phys = 0
        self.sim_error = None
        self.game_events = []
        self.kicked = []        # [src, dst]: pulsed, the ball has not left its seat yet
        # environment handlers of the queue event balldevice_<d>_ball_eject_attempt (a diverter that has to move, a show
        # that has to finish): the k-th attempt of <d> is held for holds[d][k] ms
        self.holds = {d: list(case.get("holds", {}).get(d, [])) for d in self.devs}
        self.fellback = {d: False for d in self.devs}   # the ball of d's current eject attempt has fallen back into d
        self.drain_dev = "outhole" if "outhole" in self.devs else "trough"
        self.cdelay = self.topo.get("cdelay", 80)       # ms from leaving the device to its confirm switch / event
        self.ready_checked = {}
        self.ready_numbers = {}
        self.foreign_landed = {}
        self.pending_lost = 0   # balls an idle device has already taken off its count, not yet booked to the playfield
        self.reg_pending = {}   # source -> time its ball was registered as incoming (ball_left) before it physically left
        self.searching = None   # device whose ball-search callback is running (its coil pulse is not an eject)
        self.written_off = 0    # balls the ball search has given up on (num_balls_known decreased; still loose)

    # -- recording ----------------------------------------------------------------------------
    def write(self, kind, obj, attr, old, new):
        if self.rig is None or getattr(obj, "machine", None) is not self.rig.machine:
            return
        name = "bc" if kind == "bc" else obj.name
        if kind == "dev" and attr == "count" and isinstance(old, int) and isinstance(new, int) and new < old and \
                getattr(obj, "_state", None) == "idle":
            self.pending_lost += old - new
        if kind == "dev" and attr == "state" and name in self.idle_since:
            self.idle_since[name] = self.now() if new == "idle" else None
            if new == "ball_left" and self.devs[name]["target"] in self.devs:
                # the source registers its ball at the target now (entries are matched with arrivals in THIS order)
                mine = [x for x in self.transit if x[0] == name and x[1] != name and len(x) > 5 and x[5] is None]
                if mine:
                    mine[-1][5] = self.now_us()
                else:
                    self.reg_pending[name] = self.now_us()
            if new == "ejecting" and old == "waiting_for_target_ready":
                self.ready_checked[name] = self.now_us()
                tgt = self.devs[name]["target"]
                if tgt in self.devs:     # MPF's own numbers at the moment wait_for_ready_to_receive returned
                    bd = self.rig.machine.ball_devices[tgt]
                    self.ready_numbers[name] = [bd.counted_balls, bd.incoming_balls_handler.get_num_incoming_balls()]
        self.log.append(["W", name, attr, old, new])

    def snap(self):
        m = self.rig.machine
        s = {}
        for d in self.devs:
            bd = m.ball_devices[d]
            s[d] = [bd.counted_balls, bd.balls, bd.available_balls, bd.state,
                    bd.incoming_balls_handler.get_num_incoming_balls(), bd.requested_balls]
        pf = m.playfield
        s["playfield"] = [pf.balls, pf.available_balls, pf.num_balls_requested]
        s["known"] = m.ball_controller.num_balls_known
        return s

    def waits(self):
        """what each device's handlers are blocked on, read off the synchronisation objects (loop quiescent):
        [_has_no_incoming_balls set, len(_incoming_balls), sources waiting for a count change, outgoing handler idle,
         _is_timeouting locked, capacity - handled balls, queued ejects]; None = not observable in this tree"""
        w = {}
        for d in self.devs:
            bd = self.rig.machine.ball_devices[d]
            ih, oh, ch = bd.incoming_balls_handler, bd.outgoing_balls_handler, bd.ball_count_handler
            try:
                w[d] = [1 if ih._has_no_incoming_balls.is_set() else 0, len(ih._incoming_balls),
                        sum(1 for f in ch._ball_count_changed_futures if not f.done()),
                        1 if oh.is_idle else 0, 1 if ih._is_timeouting.locked() else 0,
                        ch.counter.capacity - ch.handled_balls, oh._eject_queue.qsize()]
            except AttributeError:
                w[d] = None
        return w

    def truth(self):
        return {"dev": {d: sum(1 for x in o if x) for d, o in self.occ.items()}, "loose": self.loose,
                "pending_lost": self.pending_lost, "written_off": self.written_off,
                "transit": [list(x[:2]) for x in self.transit], "total": self.total}

    # -- boot ---------------------------------------------------------------------------------
    def boot(self):
        import rig as rigmod
        install_hooks()
        cfg = make_config(self.topo)
        self.rig = rigmod.Rig(cfg)
        _REC["cur"] = self
        self.rig.start()
        m = self.rig.machine
        ev = m.events
        names = set()
        for d in self.devs:
            for suf in self.EVENTS_SUFFIX:
                names.add("balldevice_" + d + suf)
        names |= {"balldevice_captured_from_playfield", "balldevice_balls_available", "balldevice_ball_missing",
                  "playfield_ball_count_change", "balldevice_playfield_ball_enter", "found_new_ball",
                  "sw_playfield_active", "playfield_active", "unexpected_ball_on_playfield"}
        self.names = names
        for n in sorted(names):
            ev.add_handler(n, self._mk_handler(n), priority=1000000)
        if "lock" in self.devs and not self.topo.get("hold"):
            ev.add_handler("balldevice_lock_ball_enter", self._claim_handler, priority=5)
        if "lock" in self.devs and self.topo.get("hold"):
            ev.post("verif_hold_enable")
        for d in self.devs:
            if self.holds.get(d):
                ev.add_handler("balldevice_%s_ball_eject_attempt" % d, self._mk_hold_handler(d), priority=3)
        if self.topo.get("game"):
            for n in ("ball_save_bs_saving_ball", "multiball_mb_started", "game_started", "game_ended",
                      "ball_started", "ball_ended"):
                ev.add_handler(n, self._mk_game_handler(n), priority=1000000)
        for d, v in self.devs.items():
            self._wrap_coil(d, m.coils[v["coil"]])
        self.rig.advance(1.0)
        self.log.append(["T", self.snap(), self.is_rest(), self.truth(), self.now_us(), self.waits()])

    @staticmethod
    def kw(kw):
        out = {}
        for k in ("balls", "retry", "num_attempts", "new_balls", "unclaimed_balls", "change", "mechanical_eject",
                  "new_available_balls", "name"):
            if k in kw:
                out[k] = kw[k]
        for k in ("target", "source", "device"):
            if k in kw and kw[k] is not None:
                out[k] = getattr(kw[k], "name", str(kw[k]))
        return out

    def _mk_handler(self, name):
        world = self

        def handler(**kwargs):
            world.log.append(["H", name, world.snap(), world.truth()])
            if name.endswith("_ball_eject_success"):
                world.on_eject_success(name[len("balldevice_"):-len("_ball_eject_success")])
        return handler

    def _mk_game_handler(self, name):
        world = self

        def handler(**kwargs):
            g = world.rig.machine.game
            world.game_events.append([name, int(kwargs.get("balls", 0) or 0), world.now_us(),
                                      g.balls_in_play if g else None])
        return handler

    def _mk_hold_handler(self, d):
        world = self

        def handler(queue, **kwargs):
            ms = world.holds[d].pop(0) if world.holds[d] else 0
            if ms > 0:
                world.log.append(["A", "hold", d, ms])
                queue.wait()
                world.at(ms, queue.clear)
        return handler

    def _claim_handler(self, unclaimed_balls, **kwargs):
        if unclaimed_balls and self.claim and self.claim.pop(0):
            self.log.append(["A", "claim", "lock"])
            return {"unclaimed_balls": unclaimed_balls - 1}
        return {"unclaimed_balls": unclaimed_balls}

    def _wrap_coil(self, d, coil):
        hw = coil.hw_driver
        orig = hw.pulse
        world = self

        def pulse(*a, **kw):
            world.on_pulse(d)
            return orig(*a, **kw)
        hw.pulse = pulse
        orig_enable = hw.enable

        def enable(*a, **kw):       # EnableCoilEjector: the ball is pushed out while the coil is on
            world.on_pulse(d)
            return orig_enable(*a, **kw)
        hw.enable = enable

    # -- physical world -----------------------------------------------------------------------
    def now(self):
        return self.rig.machine.clock.get_time()

    def now_us(self):
        return int(round(self.now() * 1e6))

    def at(self, delay_ms, fn, *args):
        """schedule a physical move on MPF's own (virtual-time) loop: it runs at exactly that instant"""
        self.pending_phys += 1
        self.rig.machine.clock.loop.call_later(delay_ms / 1000.0 + 0.000137, self._run_phys, fn, args)

    def _run_phys(self, fn, args):
        self.pending_phys -= 1
        try:
            fn(*args)
        except Exception as e:      # a simulator bug must not be mistaken for MPF behaviour
            self.sim_error = "%s: %s" % (type(e).__name__, e)

    def sw(self, name, state):
        self.last_phys = max(self.last_phys, self.now())
        self.rig.machine.switch_controller.process_switch(name, state=state, logical=True)

    def touched(self, d, extra=0.0):
        if d in self.last_phys_dev:
            self.last_phys_dev[d] = max(self.last_phys_dev[d], self.now() + extra)
        self.last_phys = max(self.last_phys, self.now() + extra)

    def count(self, d):
        return sum(1 for x in self.occ[d] if x)

    def seat_off(self, d, idx):
        """a ball leaves seat idx of d"""
        self.occ[d][idx] = False
        self.touched(d)
        if self.devs[d]["kind"] == "switch":
            self.sw(self.devs[d]["sw"][idx], 0)

    def seat_on(self, d, idx):
        self.occ[d][idx] = True
        self.since[d][idx] = self.now()
        if self.devs[d]["kind"] == "switch":
            self.touched(d)
            self.sw(self.devs[d]["sw"][idx], 1)
        else:
            self.entrance_hit(d)

    def entrance_hit(self, d):
        """a ball rolls over the entrance switch of an entrance-counted device"""
        self.touched(d, 2.2)        # settle_time_ms (2 s) before the count is stable again
        self.sw("s_%s_entrance" % d, 1)
        self.at(60, self.sw, "s_%s_entrance" % d, 0)

    def oldest(self, d):
        return min((self.since[d][i], i) for i, x in enumerate(self.occ[d]) if x)[1]

    def on_eject_success(self, d):
        """MPF has confirmed d's eject.  If the ejected ball has in fact fallen back into d (the confirmation came from
        another ball's activity), the recount after the eject finds one ball more and matches it with the next expected
        ball of d: that ball's entry is consumed although it is physically still on its way."""
        if d in self.fellback and self.fellback[d]:
            self.fellback[d] = False
            for y in self.transit:
                if y[1] == d and y[0] not in ("playfield", d) and not y[4]:
                    y[4] = "fb"
                    break

    def on_pulse(self, d):
        if _REC["cur"] is not self:
            return      # the run is over (the machine is shutting down; a ball search may still start)
        if self.searching == d:
            # ball search, phase 1: MPF fires the coil of a device it believes idle and empty to shake a ball loose.
            # (a ball that landed in it less than a count delay ago stays where it is)
            self.log.append(["CS", d, self.snap(), self.rig.machine.ball_devices[d].state, self.count(d)])
            return
        self.fellback[d] = False
        v = self.devs[d]
        tgt = v["target"]
        room = None
        info = {"target": tgt, "has_ball": self.count(d) > 0, "t": self.now_us(),
                "state": self.rig.machine.ball_devices[d].state,
                "transit": [list(x[:2]) for x in self.transit],
                "dev": {e: self.count(e) for e in self.devs}, "pending_lost": self.pending_lost}
        if tgt != "playfield":
            inbound = [x for x in self.transit if x[1] == tgt and x[0] != "playfield"]
            kicked = [x for x in self.kicked if x[1] == tgt]
            room = self.devs[tgt]["cap"] - self.count(tgt) - len(inbound) - len(kicked)
            # balls of OTHER sources that are on their way (or kicked) but which MPF has not yet registered as incoming
            # at the target (a source registers its ball only when it has left)
            checked = self.ready_checked.get(d, 0)      # when <d> passed wait_for_ready_to_receive
            info["unregistered_other"] = \
                len([x for x in inbound if x[0] not in (d, "playfield", tgt) and x[2] > checked]) + \
                len([x for x in kicked if x[0] != d])
            own = [x for x in inbound if x[0] == d]
            info["room_without_own"] = room + len(own)
            for x in inbound:
                # has MPF given up on this ball?  (a) a foreign ball sat in its source (debounced) while this ball's
                # eject was past its timeout: taken for the ball falling back; (b) ball_missing_timeout is over
                vo = self.devs[x[0]]
                miss = vo["timeout"] + self.topo.get("miss_extra", 20000)
                fc_start = x[2] + vo["timeout"] * 1000
                foreign = any((lv is None or lv + 500000 >= fc_start) and ar + 500000 <= self.now_us() and
                              ar >= x[2] - 600000 for ar, lv in self.visits[x[0]])
                patience = (vo["timeout"] + miss - 300) if vo["confirm"] == "target" else (self.cdelay + miss - 50)
                if foreign or self.now_us() - x[2] >= patience * 1000:
                    x[3] = True
            if own:
                info["own_given_up"] = all(x[3] or x[4] for x in own)     # given up, or taken for arrived
                # how many of the own balls on their way MPF no longer expects (a target with several places may have a
                # properly registered ball of this source on its way as well)
                info["own_given_up_n"] = sum(1 for x in own if x[3] or x[4])
            # balls of OTHER sources which MPF has given up on (their entry is off the target's list) but which are
            # physically still on their way
            info["others_given_up"] = len([x for x in inbound if x[0] not in (d, tgt) and (x[3] or x[4])])
            info["at_check"] = self.ready_numbers.get(d)
            info["superseded_pf"] = any(x[4] == "pf" for x in inbound)
            info["superseded_fb"] = len([x for x in inbound if x[4] == "fb"])
        info["room"] = room
        self.log.append(["C", d, self.snap(), info])
        if self.count(d) == 0:
            return
        f = self.faults[d].pop(0) if self.faults[d] else ["ok", 50, 400, 300]
        if v["kind"] == "entrance" and f[0] in ("stuck", "fallback", "double"):
            # an entrance-counted device cannot notice any of these (its count is entrances minus commanded ejects: a
            # second ball kicked out by the same pulse leaves it one too high for ever, by design); not generated
            f = ["ok", 50, 400, 300] if f[0] != "double" else ["ok"] + list(f[1:])
        kind = f[0]
        if kind == "stuck":
            self.log.append(["S", "stuck", d, d, self.now_us()])
            return
        if kind != "fallback":
            self.kicked.append([d, tgt])
        self.at(f[1], self.ball_leaves, d, tgt, f)
        if kind == "double" and self.count(d) >= 2 and not v["trough"]:
            self.at(f[1] + 15, self.ball_leaves, d, tgt, ["ok", 0, f[2], -1])

    def ball_leaves(self, d, tgt, f):
        if f[0] != "fallback" and [d, tgt] in self.kicked and f[1] != 0:
            self.kicked.remove([d, tgt])
        if self.count(d) == 0:
            return
        # the ball that has been sitting in the device for the longest time is the one at the exit
        idx = self.oldest(d)
        kind = f[0]
        dst = d if kind == "fallback" else tgt
        self.log.append(["S", "leave", d, dst, self.now_us()])
        if dst == "playfield":
            self.loose += 1
            self.delivered["playfield"] = self.delivered.get("playfield", 0) + 1
            self.seat_off(d, idx)
            if len(f) > 3 and f[3] is not None and f[3] >= 0:
                self.at(f[3], self.pf_hit)
            return
        tid = self.now_us()
        fl = self.foreign_landed.pop(dst, None)
        self.transit.append([d, dst, tid, False, fl[1] if fl and dst != d and tid - fl[0] <= 500000 else False,
                             self.reg_pending.pop(d, None)])
        self.seat_off(d, idx)
        if kind == "astray":
            # the ball leaves (and passes d's confirm switch / event) but never reaches the target: it ends on the playfield
            self.at(f[2], self.ball_strays, d, dst, tid)
        else:
            self.at(f[2], self.ball_arrives, d, dst, None, tid)
        if dst != d and self.devs[d]["confirm"] != "target":
            self.at(min(self.cdelay, max(10, f[2] - 40)), self.confirm_pass, d)

    def confirm_pass(self, d):
        """the ball <d> has ejected passes d's confirm switch (or whatever posts its confirm event)"""
        self.log.append(["S", "confirm", d, d, self.now_us()])
        if self.devs[d]["confirm"] == "switch":
            self.sw("s_%s_confirm" % d, 1)
            self.sw("s_%s_confirm" % d, 0)
        else:
            self.rig.machine.events.post("verif_%s_confirmed" % d)

    def ball_strays(self, src, dst, tid):
        for x in self.transit:
            if x[0] == src and x[1] == dst and x[2] == tid:
                self.transit.remove(x)
                break
        self.loose += 1
        self.touched(src)
        self.log.append(["S", "astray", src, "playfield", self.now_us()])

    def ball_arrives(self, src, dst, dwell=None, tid=None):
        for x in self.transit:
            if x[0] == src and x[1] == dst and (tid is None or x[2] == tid):
                self.transit.remove(x)
                if (x[3] or x[4] or src == "playfield") and src != dst and dst in self.devs and \
                        self.devs[dst]["kind"] == "switch":
                    # MPF had given up on this ball, or has already taken another ball for it (the chain continues), or it
                    # rolls in from the playfield, unseen; now that it arrives it is
                    # matched with the next expected ball of the target: that ball's entry is consumed although it is
                    # physically still on its way
                    flag = "pf" if src == "playfield" else True
                    for y in self.transit:
                        if y[1] == dst and y[0] not in ("playfield", dst) and not y[4]:
                            y[4] = flag
                            break
                    else:
                        # nothing on its way yet: MPF matches the ball only when it is counted (entrance_count_delay,
                        # 500 ms, after it landed); a ball registered as incoming until then has its entry consumed
                        self.foreign_landed[dst] = [self.now_us(), flag]
                elif src not in ("playfield", dst) and dst in self.devs and self.devs[dst]["kind"] == "switch":
                    # two sources of one target: arrivals are matched with the expected balls in the order in which they
                    # were REGISTERED, not by source.  If a ball of another source was registered earlier and is still on
                    # its way, this arrival consumes ITS entry: MPF takes that ball for arrived (its source's eject is
                    # confirmed) while this ball's own entry stays on the list
                    mine = x[5] if len(x) > 5 else None
                    cands = [y for y in self.transit if y[1] == dst and y[0] not in ("playfield", dst, src) and
                             not y[4] and len(y) > 5 and y[5] is not None and (mine is None or y[5] < mine)]
                    if cands:
                        min(cands, key=lambda y: y[5])[4] = "xs"
                break
        free = [i for i, x in enumerate(self.occ[dst]) if not x]
        if not free:
            # physically no room: the ball bounces back to the playfield (over the entrance switch, if there is one)
            self.loose += 1
            self.log.append(["S", "bounce", src, dst, self.now_us()])
            if self.devs[dst]["kind"] == "entrance":
                self.entrance_hit(dst)
            return
        self.log.append(["S", "arrive", src, dst, self.now_us()])
        if src == dst:
            self.fellback[dst] = True
        if src != dst:
            self.delivered[dst] = self.delivered.get(dst, 0) + 1
        self.seat_on(dst, free[0])
        if src != dst:
            # a ball that is foreign to dst's own eject (from the playfield or from another device) now sits in dst
            self.visits[dst].append([self.now_us(), None])
        if src == "playfield":
            if dwell is not None:
                self.at(dwell, self.visit_ends, dst, free[0], self.now_us())

    def visit_ends(self, d, idx, arrived_us):
        """the ball that dropped into <d> dwell ms ago bounces out again"""
        if not self.occ[d][idx] or int(round(self.since[d][idx] * 1e6)) != arrived_us:
            return      # it has been ejected meanwhile
        for v in self.visits[d]:
            if v[0] == arrived_us:
                v[1] = self.now_us()
        self.loose += 1
        self.log.append(["S", "leak", d, "playfield", self.now_us()])
        self.spont_loss[d] = True
        self.seat_off(d, idx)

    def pf_hit(self):
        if self.loose <= 0:
            return
        self.log.append(["S", "pfhit", "playfield", "playfield", self.now_us()])
        self.sw("s_pf", 1)
        self.sw("s_pf", 0)

    def loose_to(self, dst, transit_ms, dwell=None):
        if self.loose <= 0 or dst not in self.devs:
            return
        inbound = sum(1 for x in self.transit if x[1] == dst)
        if self.count(dst) + inbound >= self.devs[dst]["cap"] and self.devs[dst]["kind"] != "entrance":
            return      # physically impossible: no room (an entrance-counted device: the ball bounces off)
        self.loose -= 1
        tid = self.now_us()
        self.transit.append(["playfield", dst, tid, False, False])
        self.log.append(["S", "leave", "playfield", dst, self.now_us()])
        self.at(transit_ms, self.ball_arrives, "playfield", dst, dwell, tid)

    def leak(self, d, n=1):
        """n balls sitting in idle <d> jump out onto the playfield although nobody ejected them"""
        if d not in self.devs or self.count(d) == 0 or self.devs[d]["kind"] != "switch":
            return
        if self.rig.machine.ball_devices[d].state != "idle":
            return      # only the idle case: otherwise it is physically the same as a (successful) eject
        for _ in range(min(n, self.count(d))):
            idx = self.oldest(d)
            self.loose += 1
            self.log.append(["S", "leak", d, "playfield", self.now_us()])
            self.spont_loss[d] = True
            self.seat_off(d, idx)

    # -- script -------------------------------------------------------------------------------
    def do_action(self, a):
        m = self.rig.machine
        k = a[0]
        if k == "add_ball":
            self.log.append(["A", "add_ball"])
            m.playfield.add_ball()
        elif k == "request":
            if a[1] in self.devs:
                self.log.append(["A", "request", a[1]])
                m.ball_devices[a[1]].request_ball()
        elif k == "eject":
            if a[1] in self.devs:
                self.log.append(["A", "eject", a[1]])
                m.ball_devices[a[1]].eject()
        elif k == "eject_all":
            if a[1] in self.devs:
                self.log.append(["A", "eject_all", a[1]])
                m.ball_devices[a[1]].eject_all()
        elif k == "collect":
            self.log.append(["A", "collect"])
            m.ball_controller.collect_balls()
        elif k == "drain":
            self.loose_to(self.drain_dev, a[1])
        elif k == "visit":          # a ball drops into the trough and bounces out again after a[2] ms
            self.loose_to(self.drain_dev, a[1], a[2])
        elif k == "lockshot":
            self.loose_to("lock", a[1])
        elif k == "shot":           # a loose ball rolls into device a[1] (e.g. back into the plunger lane)
            self.loose_to(a[1], a[2])
        elif k == "pfhit":
            self.pf_hit()
        elif k == "lockleak":
            self.leak("lock", a[1] if len(a) > 1 else 1)
        elif k in ("release_one", "release_all"):
            self.log.append(["A", k])
            m.events.post("verif_" + k)
        elif k == "start_game":
            self.log.append(["A", "start_game"])
            self.sw("s_start", 1)
            self.sw("s_start", 0)
        elif k == "multiball":
            self.log.append(["A", "multiball"])
            if m.game:
                m.events.post("verif_mb_start")
        elif k == "wait":
            pass
        else:
            raise ValueError(k)

    def is_rest(self):
        m = self.rig.machine
        if self.heap_has_physical() or self.transit:
            return False
        now = self.now()
        if now - self.last_phys < 1.2:
            return False
        for d in self.devs:
            bd = m.ball_devices[d]
            if bd.state != "idle" or bd.incoming_balls_handler.get_num_incoming_balls():
                return False
            if not bd.outgoing_balls_handler.is_idle:
                return False
            if self.spont_loss[d]:
                # MPF waits idle_missing_ball_timeout (5 s) of idle quiet before it books a ball as lost
                since = self.idle_since[d]
                if since is None or now - max(since, self.last_phys_dev[d]) < 5.8:
                    return False
        return True

    def heap_has_physical(self):
        return self.pending_phys > 0

    def step_to(self, t):
        """advance virtual time to t in small steps, logging a snapshot after each"""
        while self.now() < t - 1e-9:
            dt = min(0.25, t - self.now())
            self.rig.advance(dt)
            self.tick()

    def tick(self):
        item = ["T", self.snap(), self.is_rest(), self.truth(), self.now_us(), self.waits()]
        if self.log and self.log[-1][0] == "T" and self.log[-1][2] == item[2]:
            self.log[-1] = item         # nothing happened since the last tick
        else:
            self.log.append(item)

    def run(self):
        try:
            self.boot()
            try:
                for a in self.case["script"]:
                    self.step_to(self.now() + a[0] / 1000.0)
                    self.do_action(a[1:])
                    self.rig.advance(0)
                    self.tick()
                # let the world come to rest
                end = self.now() + self.case.get("settle_s", 120)
                quiet = 0
                while self.now() < end:
                    self.step_to(self.now() + 1.0)
                    if self.is_rest() and not self.game_busy():
                        quiet += 1
                        if quiet >= self.case.get("quiet_s", 3):
                            break
                    else:
                        quiet = 0
                self.final_rest = self.is_rest()
                g = self.rig.machine.game
                self.final = {"snap": self.snap(), "truth": self.truth(), "spont_loss": dict(self.spont_loss),
                              "waits": self.waits(), "t": self.now_us(), "last_phys": int(self.last_phys * 1e6),
                              "idle": {d: self.rig.machine.ball_devices[d].outgoing_balls_handler.is_idle
                                       for d in self.devs},
                              "game": None if not self.topo.get("game") else
                              {"running": g is not None, "balls_in_play": g.balls_in_play if g else 0,
                               "events": self.game_events}}
            except Exception as e:      # MPF itself raised (the test loop stops on the first exception)
                self.error = "%s: %s" % (type(e).__name__, str(e)[:300])
        finally:
            _REC["cur"] = None
            if self.rig is not None:
                try:
                    self.rig._exception = None
                except Exception:
                    pass
                self.rig.stop()
        return {"log": self.log, "error": self.error, "sim_error": self.sim_error,
                "final_rest": getattr(self, "final_rest", False), "final": getattr(self, "final", None),
                "delivered": self.delivered}

    def game_busy(self):
        """a pending ball save (eject_delay) is not visible in any device: wait for it"""
        if not self.topo.get("game"):
            return False
        return any(self.now_us() - e[2] < (self.topo.get("save_delay", 1000) + 1500) * 1000
                   for e in self.game_events if e[0] == "ball_save_bs_saving_ball")


def run_world(case):
    return World(case).run()


# ------------------------------------------------------------------------------------------------
# generator
def gen_fault(rng, timeout_ms, to_pf, profile, miss_extra=20000):
    r = rng.random()
    leave = rng.choice([20, 50, 80, 120])
    if profile == "calm":
        r = 1.0 if r > 0.08 else r
    if r < 0.10:
        return ["stuck"]
    if r < 0.18:
        return ["fallback", leave, rng.choice([150, 400, 900, 1600])]
    if to_pf:
        # playfield target: the confirm is a playfield switch hit after pf ms, or none (-1: confirm by timeout)
        pf = rng.choice([-1, 100, 300, 700, 1500, timeout_ms - 50, timeout_ms + 30, timeout_ms + 600])
        return ["ok", leave, 0, pf]
    if r < 0.26:
        transit = timeout_ms + rng.choice([-200, 40, 300, 1500, 4000, timeout_ms + miss_extra + 700])
        return ["ok", leave, max(100, transit - leave), -1]
    if r < 0.32:
        # very late: 0.5 .. 1.5 x ball_missing_timeout after it left
        miss = timeout_ms + miss_extra
        return ["ok", leave, int(miss * rng.choice([0.5, 0.8, 1.02, 1.2, 1.5])) // 10 * 10 + 37, -1]
    return ["ok", leave, rng.choice([150, 300, 600, 1000, 1400]), -1]


C05_TEMPLATES = ["lost_confirmed", "hold_release"]      # generated by C05 only (C04's ledger has no label for a ball that goes astray)
C04_TEMPLATES = ["mid_eject_fill", "search_give_up", "late_landing"]       # generated by C04 only (fourth pass)
TEMPLATES = ["two_feeders", "entrance_overfill", "flicker_late", "multi_leak", "double_kick", "cap2_mid_eject",
             "held_attempt", "starved_request", "late_confirmed"]


def _base_topo(rng, **kw):
    n = kw.pop("trough_n", rng.choice([3, 4, 5]))
    t = {"trough_n": n, "balls": n, "plunger_k": 1, "lock_k": 0, "lock_kind": "switch", "lock_to": "playfield",
         "t_trough": rng.choice([3000, 5000]), "t_plunger": rng.choice([2000, 3000, 6000]),
         "t_lock": rng.choice([2000, 3000, 6000]), "att_trough": 0, "att_plunger": 0, "att_lock": 0,
         "miss_extra": 20000, "loose": 0, "outhole": 0, "t_outhole": rng.choice([2000, 3000]), "confirm": {},
         "cdelay": rng.choice([60, 80, 100])}
    t.update(kw)
    return t


def _tail(rng, topo, n=None):
    acts = []
    names = ["add_ball", "drain", "pfhit", "wait"] + (["lockshot", "eject"] if topo["lock_k"] else [])
    for _ in range(rng.choice([0, 1, 2, 3]) if n is None else n):
        a = rng.choice(names)
        dt = rng.choice([300, 1500, 4000, 9000])
        if a in ("drain", "lockshot"):
            acts.append([dt, a, rng.choice([200, 500, 900])])
        elif a == "eject":
            acts.append([dt, a, "lock"])
        else:
            acts.append([dt, a])
    return acts


def gen_template(rng, profile):
    """schedules that the uniform generator reaches too rarely; every number is still drawn from rng"""
    okpf = lambda: ["ok", rng.choice([20, 50, 80]), 0, rng.choice([100, 300, 700])]     # noqa
    okdev = lambda: ["ok", rng.choice([20, 50, 80]), rng.choice([300, 600, 1000, 1400]), -1]   # noqa
    if profile == "two_feeders":
        # lock -> plunger <- trough: a lock release and a ball request overlap, both want the one-slot plunger
        topo = _base_topo(rng, lock_k=rng.choice([1, 2]), lock_to="plunger")
        gap = rng.choice([0, 30, 150, 400, 800])
        pair = [["eject", "lock"], ["add_ball"]]
        rng.shuffle(pair)
        script = [[500, "add_ball"], [rng.choice([4000, 5000]), "lockshot", rng.choice([300, 500, 900])],
                  [rng.choice([3000, 5000]) + 0] + pair[0], [gap] + pair[1]] + _tail(rng, topo)
        faults = {"trough": [okdev() for _ in range(4)], "plunger": [okpf() for _ in range(6)],
                  "lock": [okdev() for _ in range(4)]}
        claims = [1, 1, 1, 1]
    elif profile == "entrance_overfill":
        # entrance-counted lock filled to capacity, then one more ball rolls over its entrance switch
        k = rng.choice([1, 2])
        topo = _base_topo(rng, trough_n=rng.choice([k + 1, k + 2, 5]), lock_k=k, lock_kind="entrance")
        script = []
        for j in range(k + 1):
            script.append([500 if j == 0 else rng.choice([3000, 3500]), "add_ball"])
        for j in range(k + 1):
            script.append([rng.choice([2500, 3000, 4000]), "lockshot", rng.choice([400, 700, 900])])
        script += _tail(rng, topo)
        faults = {"trough": [okdev() for _ in range(6)], "plunger": [okpf() for _ in range(8)],
                  "lock": [okpf() for _ in range(4)]}
        claims = [1] * 6
    elif profile == "flicker_late":
        # a ball on the playfield drops into the trough for < 1 s and bounces out again while the trough's own
        # ball is still (late) on its way to the plunger
        n = rng.choice([3, 4, 5])
        topo = _base_topo(rng, trough_n=n, balls=n - 1)
        late = topo["t_trough"] + rng.choice([800, 1500, 2500])
        script = [[500, "add_ball"], [rng.choice([3500, 4500]), "add_ball"],
                  [rng.choice([250, 400, 600]), "visit", 150, rng.choice([700, 850, 1000])]] + _tail(rng, topo)
        faults = {"trough": [okdev(), ["ok", 50, late, -1]] + [okdev() for _ in range(4)],
                  "plunger": [okpf() for _ in range(8)], "lock": []}
        claims = []
    elif profile in ("multi_leak", "double_kick"):
        # two balls locked; then both jump out of the idle lock at once / one pulse kicks both out
        topo = _base_topo(rng, lock_k=2)
        script = [[500, "add_ball"], [rng.choice([3000, 3500]), "add_ball"],
                  [rng.choice([3500, 4500]), "lockshot", rng.choice([300, 600])],
                  [rng.choice([1500, 2500]), "lockshot", rng.choice([300, 600])]]
        if profile == "multi_leak":
            script.append([rng.choice([3000, 5000]), "lockleak", 2])
            lockf = [okpf() for _ in range(4)]
        else:
            script.append([rng.choice([3000, 5000]), rng.choice(["eject_all", "eject_all", "collect"])] +
                          (["lock"] if script is None else []))
            if script[-1][1] == "eject_all":
                script[-1] = script[-1][:2] + ["lock"]
            lockf = [["double", rng.choice([20, 50]), 0, rng.choice([100, 300])]] + [okpf() for _ in range(4)]
        script += _tail(rng, topo)
        faults = {"trough": [okdev() for _ in range(6)], "plunger": [okpf() for _ in range(8)], "lock": lockf}
        claims = [1, 1, 1, 1]
    elif profile == "cap2_mid_eject":
        # a two-ball staging device: the trough gets ready to feed it exactly while it ejects to the playfield
        topo = _base_topo(rng, plunger_k=2, lock_k=rng.choice([0, 0, 1]))
        script = [[500, "add_ball"], [rng.choice([0, 100, 300, 700]), "add_ball"]]
        if rng.random() < 0.5:
            script.append([rng.choice([0, 200, 1500]), "add_ball"])
        script += _tail(rng, topo)
        faults = {"trough": [okdev() for _ in range(6)],
                  "plunger": [["ok", rng.choice([50, 120]), 0, rng.choice([300, 700, 1500, -1])] for _ in range(8)],
                  "lock": [okpf() for _ in range(4)]}
        claims = [1, 0, 1, 0]
    elif profile == "held_attempt":
        # a handler of the queue event balldevice_<d>_ball_eject_attempt holds the eject back (diverter moving, show
        # running); while it is held a ball from the playfield rolls back into the plunger lane, or the other source
        # delivers: the readiness check must come AFTER the hold
        two = rng.random() < 0.35
        topo = _base_topo(rng, plunger_k=rng.choice([1, 1, 2]), lock_k=rng.choice([1, 2]) if two else 0,
                          lock_to="plunger" if two else "playfield")
        hold = rng.choice([1500, 2500, 4000, 6000])
        hold2 = rng.choice([0, 0, 1000, 3000])
        script = [[500, "add_ball"]]
        if two:
            script += [[rng.choice([4000, 5000]), "lockshot", rng.choice([300, 500])],
                       [rng.choice([3000, 4000]), "add_ball"],
                       [rng.choice([100, 300, max(100, hold - 900), max(100, hold - 300)]), "eject", "lock"]]
            holds = {"trough": [0, hold], "plunger": [0, hold2], "lock": [rng.choice([0, 0, 800])]}
        else:
            for _ in range(topo["plunger_k"] - 1):
                script.append([rng.choice([3000, 4000]), "add_ball"])
            script += [[rng.choice([4000, 5000]), "add_ball"],
                       [rng.choice([100, 300, max(100, hold - 1200), max(100, hold - 700), max(100, hold - 200)]), "shot",
                        "plunger", rng.choice([150, 300, 500])]]
            holds = {"trough": [0] * topo["plunger_k"] + [hold], "plunger": [0] * topo["plunger_k"] + [hold2, hold2]}
        script += _tail(rng, topo)
        faults = {"trough": [okdev() for _ in range(6)], "plunger": [okpf() for _ in range(8)],
                  "lock": [okdev() if two else okpf() for _ in range(4)]}
        claims = [1, 1, 1, 1]
        return {"topo": topo, "script": script, "faults": faults, "claims": claims, "profile": profile, "holds": holds}
    elif profile == "late_confirmed":
        # outhole -> trough -> plunger: the drained ball passes the outhole's confirm switch / event and then dawdles
        # beyond ball_missing_timeout; the timeout expires while the trough itself is mid-eject (it holds the lock the
        # timeout handler needs) and the ball drops into the trough before that eject is over
        n = rng.choice([2, 3, 4])
        kind = rng.choice(["switch", "event"])
        topo = _base_topo(rng, trough_n=n, balls=n, outhole=1, miss_extra=rng.choice([1500, 3000]), t_trough=5000,
                          confirm={"outhole": kind}, plunger_k=rng.choice([1, 1, 2]))
        miss_o = topo["t_outhole"] + topo["miss_extra"]
        tr = rng.choice([200, 500])
        back = rng.choice([300, 800, 1500, 2500])
        over = rng.choice([100, 400, 900])
        t_transit = min(4700, back + over + rng.choice([400, 900, 1600]))
        script = [[500, "add_ball"], [rng.choice([4000, 5000]), "drain", tr],
                  [max(100, tr + 570 + topo["cdelay"] + miss_o - back), "add_ball"]] + _tail(rng, topo)
        faults = {"trough": [okdev(), ["ok", 50, t_transit, -1]] + [okdev() for _ in range(4)],
                  "plunger": [okpf() for _ in range(8)], "lock": [],
                  "outhole": [["ok", 50, topo["cdelay"] + miss_o + over, -1]] + [okdev() for _ in range(4)]}
        claims = []
    elif profile == "lost_confirmed":
        # trough (confirm_eject_type switch / event) -> plunger / staging device (1-3 places) -> playfield: a ball leaves
        # the trough, passes its confirm switch and never reaches the plunger (it ends on the playfield).  The trough's
        # eject is over (confirmed); the plunger's incoming-ball entry times out after ball_missing_timeout.  Before /
        # after that the plunger is asked to eject a ball it holds, or the trough to send the next one into the slot.
        kind = rng.choice(["switch", "event"])
        pk = rng.choice([1, 2, 2, 2, 3])
        n = rng.choice([3, 4, 5])
        topo = _base_topo(rng, trough_n=n, balls=n, plunger_k=pk, miss_extra=rng.choice([1500, 3000]),
                          confirm={"trough": kind})
        miss = topo["t_trough"] + topo["miss_extra"]
        script = []
        held = rng.choice(list(range(pk)) + [max(0, pk - 2)] * 2 + [pk - 1])     # balls parked in the plunger first
        for j in range(held):
            script.append([500 if j == 0 else rng.choice([2500, 3500]), "request", "plunger"])
        # the ball that goes astray, wanted by the plunger itself or by the playfield
        after = rng.random() < 0.5 and pk >= 2 and held >= 1
        # (after: nothing replaces the lost ball - the trough is empty - and the plunger, holding a ball and not full, is
        #  asked to eject to the playfield once the entry has timed out)
        want = rng.choice(["request", "request", "add_ball"]) if not after else "request"
        if after:
            topo["trough_n"] = max(2, held + 1)
            topo["balls"] = held + 1
        script.append([rng.choice([2500, 3500]) if script else 500, want])
        if script[-1][1] == "request":
            script[-1].append("plunger")
        stray_pos = held
        # what happens around the timeout of the incoming ball
        for j in range(rng.choice([1, 1, 2])):
            gap = rng.choice([300, 1200, miss - 800, miss + 600, miss + 2500])
            a = rng.choice(["add_ball", "add_ball", "request"])
            if after and j == 0:
                gap, a = rng.choice([miss + 600, miss + 2500, miss + 2500]), "add_ball"
            script.append([max(100, gap), a] + (["plunger"] if a == "request" else []))
        script += _tail(rng, topo, rng.choice([0, 0, 1]))
        tf = [okdev() for _ in range(8)]
        if rng.random() < 0.7:
            tf[stray_pos] = ["astray", rng.choice([20, 50, 80]), rng.choice([400, 900, 2000]), -1]
        else:
            # the timeout / the path cancellation (cancel_path_if_target_is) races the arrival: the ball does arrive, just
            # before or just after ball_missing_timeout has expired at the plunger
            tf[stray_pos] = ["ok", 50, topo["cdelay"] + miss + rng.choice([-400, -120, 130, 400, 1200]), -1]
        if rng.random() < 0.25:
            tf[stray_pos + 1] = ["astray", 50, rng.choice([400, 900]), -1]
        faults = {"trough": tf, "plunger": [okpf() for _ in range(10)], "lock": []}
        claims = []
    elif profile == "hold_release":
        # a ball_hold keeps the balls shot into the lock; its release_one / release_all events request the ejects
        # (BallHold.release_balls -> BallDevice.eject(balls=k): k chains, k ejects queued at the lock), with runs of failed
        # ejects, a second release while the first eject is still going on, and a ball that jumps out before the release
        k = rng.choice([1, 2, 2])
        topo = _base_topo(rng, lock_k=k, hold=1, att_lock=rng.choice([0, 2, 3]), trough_n=rng.choice([3, 4]))
        script = []
        for j in range(k):
            script += [[500 if j == 0 else 3500, "add_ball"], [rng.choice([4000, 5000]), "lockshot", rng.choice([300, 500])]]
        if rng.random() < 0.2:
            script.append([rng.choice([3000, 7000]), "lockleak", 1])
        script.append([rng.choice([3000, 5000]), rng.choice(["release_all", "release_all", "release_one"])])
        for _ in range(rng.choice([0, 1, 2])):
            script.append([rng.choice([100, 700, 2500, 6000]), rng.choice(["release_one", "release_all", "lockshot", "eject"])])
            if script[-1][1] == "lockshot":
                script[-1].append(rng.choice([300, 500]))
            elif script[-1][1] == "eject":
                script[-1].append("lock")
        lockf = []
        for _ in range(8):
            r = rng.random()
            lockf.append(["stuck"] if r < 0.3 else ["fallback", 50, rng.choice([300, 900])] if r < 0.45 else okpf())
        faults = {"trough": [okdev() for _ in range(6)], "plunger": [okpf() for _ in range(8)], "lock": lockf}
        claims = []
    elif profile == "starved_request":
        # two requests queued at once, the one of the device that comes FIRST in the handler order of
        # balldevice_balls_available (the trough: it has no source devices) can never be served; then a ball that can
        # serve the other one drains into the trough
        n = rng.choice([2, 3, 4])
        topo = _base_topo(rng, trough_n=n, balls=n)
        script = []
        for j in range(n):
            script.append([500 if j == 0 else rng.choice([3500, 4500]), "add_ball"])
        pair = [["request", "trough"], [rng.choice(["add_ball", "request_plunger"])]]
        if pair[1] == ["request_plunger"]:
            pair[1] = ["request", "plunger"]
        rng.shuffle(pair)
        script += [[rng.choice([4000, 5000])] + pair[0], [rng.choice([0, 200, 1500])] + pair[1],
                   [rng.choice([500, 1500, 3000]), "drain", rng.choice([200, 500])]]
        if rng.random() < 0.5:
            script.append([rng.choice([300, 4000, 8000]), "drain", rng.choice([200, 500])])
        faults = {"trough": [okdev() for _ in range(8)], "plunger": [okpf() for _ in range(10)], "lock": []}
        claims = []
    elif profile == "mid_eject_fill":
        # a staging device with 2-3 places that holds fewer balls than places is in the middle of an eject to the
        # playfield when the trough wants to feed it (third clause of BallCountHandler.wait_for_ready_to_receive: wait
        # until the target's eject is over).  During that wait the target fills up: its ejected ball falls back and / or
        # balls from the playfield roll into it.  When the eject is over the source must look again.
        pk = rng.choice([2, 2, 2, 3])
        fb = rng.random() < 0.6                     # the ball of the eject in question falls back
        fill = pk - 1 if fb else pk                 # balls that roll in from the playfield during the wait
        if rng.random() < 0.2:
            fill = max(1, fill - 1)                 # (not quite full: the source may fire)
        topo = _base_topo(rng, plunger_k=pk, t_plunger=rng.choice([3000, 6000]), trough_n=5)
        script = []
        for j in range(fill):                       # balls that go to the playfield first
            script.append([500 if j == 0 else rng.choice([3500, 4500]), "add_ball"])
        tb = rng.choice([300, 600, 1000])
        script.append([rng.choice([4000, 5000]) if script else 500, "add_ball"])        # ball B: the eject in question
        gap = 50 + tb + 550 + rng.choice([150, 400, 800])
        script.append([gap, "add_ball"])            # ball C: the trough wants to feed the device while B is ejected
        off = rng.choice([150, 500, 900])
        for j in range(fill):
            script.append([off if j == 0 else rng.choice([100, 300, 600]), "shot", "plunger", rng.choice([150, 300, 500])])
        script += _tail(rng, topo)
        leave = rng.choice([50, 120])
        if fb:
            fB = ["fallback", leave, rng.choice([400, 900, 1600])]
        else:
            fB = ["ok", leave, 0, rng.choice([-1, -1, topo["t_plunger"] - 300])]    # confirmed late / by the timeout
        faults = {"trough": [okdev() for _ in range(fill)] + [["ok", 50, tb, -1]] + [okdev() for _ in range(6)],
                  "plunger": [okpf() for _ in range(fill)] + [fB] + [okpf() for _ in range(8)], "lock": []}
        claims = []
    elif profile == "late_landing":
        # the ball lands in the target that waits for it less than entrance_count_delay (500 ms) before the eject timeout
        # of its source expires: the source's late-confirm handling (which asks the target for a valid count) and the
        # target's own wait_for_ball race for the same arrival -- it must be booked once
        topo = _base_topo(rng, plunger_k=rng.choice([1, 1, 2]), outhole=rng.choice([0, 0, 1]))
        script = [[500, "add_ball"]]
        if rng.random() < 0.5:
            script.append([rng.choice([300, 2500, 6000]), "add_ball"])
        script += _tail(rng, topo)
        tf = [okdev() for _ in range(6)]
        for j in range(rng.choice([1, 2])):
            tf[j] = ["ok", rng.choice([20, 50, 80]), topo["t_trough"] - rng.choice([60, 120, 200, 300, 400, 450]), -1]
        faults = {"trough": tf, "plunger": [okpf() for _ in range(8)], "lock": [],
                  "outhole": [okdev() for _ in range(4)]}
        claims = []
    elif profile == "search_give_up":
        # ball search: a ball sits on the playfield without touching a switch until the search times out and gives up,
        # while another ball is promised to the playfield but not loose yet (its eject is under way / held back by a
        # handler of the eject_attempt queue event / stuck): exactly the balls that are loose are written off
        n = rng.choice([2, 3, 4, 5])
        topo = _base_topo(rng, trough_n=n, balls=n, plunger_k=rng.choice([1, 1, 2]))
        to = rng.choice([4000, 6000, 8000])
        topo["search"] = {"timeout": to, "k1": rng.choice([1, 2]), "wait": rng.choice([1000, 2000])}
        ft, fp = okdev(), okpf()
        t_conf = 30 + ft[1] + ft[2] + 530 + fp[1] + fp[3]      # ms after the first add_ball: its ball is on the playfield
        mode = rng.choice(["timing", "timing", "held", "stuck"])
        holds = {}
        tf = [ft] + [okdev() for _ in range(6)]
        if mode == "timing":
            # the second ball is requested shortly before (or just after) the search gives up
            delta = rng.choice([-600, 250, 600, 1000, 1500, 2500])
            script = [[500, "add_ball"], [max(200, t_conf + to - delta), "add_ball"]]
        elif mode == "held":
            hold = rng.choice([4000, 6000])
            script = [[500, "add_ball"], [t_conf + rng.choice([500, 1500, to - 2500]), "add_ball"]]
            holds = {"plunger": [0, hold], "trough": [0, rng.choice([0, 0, 3000])]}
        else:
            script = [[500, "add_ball"], [t_conf + rng.choice([500, 1500, to - 2500]), "add_ball"]]
            tf = [ft, ["stuck"], ["stuck"] if rng.random() < 0.5 else okdev()] + [okdev() for _ in range(5)]
        if rng.random() < 0.4:
            script.append([rng.choice([300, 2000, to + 500]), rng.choice(["add_ball", "drain", "pfhit"])])
            if script[-1][1] == "drain":
                script[-1].append(rng.choice([200, 500]))
        script += _tail(rng, topo, rng.choice([0, 1, 2]))
        faults = {"trough": tf, "plunger": [fp] + [okpf() if rng.random() < 0.7 else
                                                    ["ok", 50, 0, -1] for _ in range(8)], "lock": []}
        return {"topo": topo, "script": script, "faults": faults, "claims": [], "profile": profile, "holds": holds}
    elif profile == "save_twice":
        # real game: ball save with eject_delay, two balls in play (multiball), two drains close to each other
        topo = _base_topo(rng, game=1, save_delay=rng.choice([800, 1500, 2500]))
        d = topo["save_delay"]
        script = [[500, "start_game"], [rng.choice([3500, 4500]), "multiball"],
                  [rng.choice([4500, 6000]), "drain", rng.choice([200, 400])],
                  [rng.choice([100, 300, 600, max(100, d - 200), d + 600]), "drain", rng.choice([200, 400])]]
        for _ in range(rng.choice([0, 0, 1, 2])):
            script.append([rng.choice([4000, 7000]), rng.choice(["drain", "pfhit"]), 300])
        faults = {"trough": [okdev() if rng.random() < 0.85 else ["stuck"] for _ in range(10)],
                  "plunger": [okpf() if rng.random() < 0.85 else ["stuck"] for _ in range(10)], "lock": []}
        claims = []
    else:
        raise ValueError(profile)
    return {"topo": topo, "script": script, "faults": faults, "claims": claims, "profile": profile}


def gen_case(rng, tier, i, profile=None):
    if profile is None and rng.random() < 0.36:
        profile = rng.choice(TEMPLATES)
    if profile in TEMPLATES or profile == "save_twice" or profile in C05_TEMPLATES or profile in C04_TEMPLATES:
        return gen_template(rng, profile)
    profile = profile or rng.choice(["calm", "calm", "faulty", "faulty", "busy"])
    n = rng.choice([2, 3, 3, 4, 5])
    topo = {"trough_n": n, "balls": rng.choice([n, n, n, max(1, n - 1)]), "lock_k": rng.choice([0, 0, 1, 2, 2]),
            "plunger_k": rng.choice([1, 1, 1, 2]), "lock_kind": rng.choice(["switch", "switch", "switch", "entrance"]),
            "lock_to": rng.choice(["playfield", "playfield", "playfield", "plunger"]),
            "t_trough": rng.choice([2000, 3000, 5000]), "t_plunger": rng.choice([2000, 3000, 6000]),
            "t_lock": rng.choice([2000, 3000, 6000]),
            "att_trough": rng.choice([0, 0, 0, 2, 3]), "att_plunger": rng.choice([0, 0, 0, 2, 4]),
            "att_lock": rng.choice([0, 0, 2]),
            "miss_extra": rng.choice([20000, 20000, 1500, 3000]),
            "loose": 1 if rng.random() < 0.08 else 0,
            "outhole": 1 if rng.random() < 0.25 else 0, "t_outhole": rng.choice([2000, 3000]),
            "cdelay": rng.choice([60, 80, 100]), "confirm": {}}
    for d in ("trough", "outhole", "lock"):
        if rng.random() < 0.3:
            topo["confirm"][d] = rng.choice(["switch", "event"])
    if topo["lock_k"] and topo["lock_to"] == "plunger":
        # two sources of one target: no external confirms there.  After the known two-source race an arriving ball is
        # matched with the other source's entry; the confirmed entry left over times out at the idle target and
        # lost_incoming_ball ends in "Failed to restore the path" (playfield.available_balls +1 without a -1 anywhere:
        # the AVAILABLE balls then sum to known + 1, the counts stay right).  See NOTES.md, round 3.
        topo["confirm"].pop("trough", None)
        topo["confirm"].pop("lock", None)
    topo["enable_coil"] = [d for d in ("plunger", "lock", "outhole") if rng.random() < 0.15]
    if topo["loose"] and topo["balls"] == n:
        topo["balls"] = n - 1
    acts = []
    w = [("add_ball", 32), ("drain", 24), ("pfhit", 5), ("request", 5), ("collect", 3), ("wait", 6), ("visit", 3),
         ("shot", 4)]
    if topo["lock_k"]:
        w += [("lockshot", 16), ("eject", 7), ("eject_all", 3), ("lockleak", 4)]
    names = [a for a, _ in w]
    weights = [x for _, x in w]
    for _ in range(rng.choice([2, 3, 4, 6, 8, 12] if profile != "busy" else [8, 12, 16])):
        a = rng.choices(names, weights)[0]
        if profile == "busy":
            dt = rng.choice([0, 0, 30, 120, 400, 900, 2000])
        else:
            dt = rng.choice([0, 100, 600, 1500, 4000, 9000, 15000])
        if a in ("drain", "lockshot"):
            acts.append([dt, a, rng.choice([200, 500, 900, 1500])])
        elif a == "visit":
            acts.append([dt, a, rng.choice([200, 500]), rng.choice([300, 800, 1500])])
        elif a == "lockleak":
            acts.append([dt, a, rng.choice([1, 1, 2])])
        elif a == "request":
            acts.append([dt, a, rng.choice(["plunger", "plunger", "plunger", "trough"])])
        elif a == "shot":
            acts.append([dt, a, "plunger", rng.choice([150, 300, 500])])
        elif a in ("eject", "eject_all"):
            acts.append([dt, a, "lock"])
        else:
            acts.append([dt, a])
    faults = {}
    for d, key in (("trough", "t_trough"), ("plunger", "t_plunger"), ("lock", "t_lock"), ("outhole", "t_outhole")):
        to_pf = d == "plunger" or (d == "lock" and topo["lock_to"] == "playfield")
        faults[d] = [gen_fault(rng, topo[key], to_pf, profile, topo["miss_extra"])
                     for _ in range(rng.choice([4, 8, 16]))]
        if d != "trough" and rng.random() < 0.15:
            faults[d].insert(rng.randrange(3), ["double", 50, 300, rng.choice([100, 300, -1])])
    claims = [1 if rng.random() < 0.6 else 0 for _ in range(8)]
    holds = {}
    if rng.random() < 0.3:
        for d in ("trough", "plunger", "lock", "outhole"):
            holds[d] = [rng.choice([0, 0, 0, 700, 1500, 3000, 6000]) for _ in range(6)]
    return {"topo": topo, "script": acts, "faults": faults, "claims": claims, "profile": profile, "holds": holds}


def shrink_case(case):
    sc = case["script"]
    for i in range(len(sc)):
        yield dict(case, script=sc[:i] + sc[i + 1:])
    for d, fl in case["faults"].items():
        for i in range(len(fl)):
            if fl[i][0] != "ok" or fl[i][1:] != [50, 300, 300]:
                f2 = dict(case["faults"])
                f2[d] = fl[:i] + [["ok", 50, 300, 300]] + fl[i + 1:]
                yield dict(case, faults=f2)
    for i in range(len(sc)):
        if sc[i][0] not in (0, 1000):
            yield dict(case, script=sc[:i] + [[1000] + sc[i][1:]] + sc[i + 1:])
    if any(x for v in case.get("holds", {}).values() for x in v):
        yield dict(case, holds={})
    t = case["topo"]
    if t.get("outhole") and not t.get("confirm", {}).get("outhole"):
        yield dict(case, topo=dict(t, outhole=0))
    if t.get("lock_k", 0) and not any(a[1] in ("lockshot", "eject", "eject_all") for a in sc):
        yield dict(case, topo=dict(t, lock_k=0))
    if t["trough_n"] > 2 and t["balls"] < t["trough_n"]:
        yield dict(case, topo=dict(t, trough_n=t["trough_n"] - 1))


# ------------------------------------------------------------------------------------------------
# raw log -> semantic labels (see coq/C04/Model.v for the meaning of each label)
def _is(it, kind, *rest):
    if it is None or it[0] != kind:
        return False
    for a, b in zip(it[1:], rest):
        if b is not None and a != b:
            return False
    return True


def parse_log(log, devs):
    """Returns list of labels (tuples).  Unknown raw items become ("Stray", text)."""
    # drop the boot part (everything before the first tick), no-op writes, actions
    start = next(i for i, it in enumerate(log) if it[0] == "T")
    raw = []
    for it in log[start:]:
        if it[0] == "W" and it[3] == it[4]:
            continue
        if it[0] == "A" or it[0] in WAIT_ITEMS or it[0] == "G2":
            continue
        if it[0] == "P" and it[1] in ("sw_playfield_active", "playfield_active", "unexpected_ball_on_playfield",
                                      "balldevice_ball_missing"):
            continue
        raw.append(it)
    out = []
    out_batch = []
    i = 0
    n = len(raw)

    def at(k):
        return raw[k] if k < n else None

    def w(k, obj, attr, delta):
        it = at(k)
        return (it is not None and it[0] == "W" and (obj is None or it[1] == obj) and it[2] == attr and
                isinstance(it[3], int) and isinstance(it[4], int) and (delta is None or it[4] - it[3] == delta))

    def p(k, ev):
        it = at(k)
        return it is not None and it[0] == "P" and it[1] == ev

    def pf_added(k):
        return (w(k, "playfield", "balls", 1) and p(k + 1, "balldevice_playfield_ball_enter") and
                p(k + 2, "playfield_ball_count_change"))

    while i < n:
        it = raw[i]
        k = it[0]
        if k == "T":
            out.append(("Snap", it[1], "T", it[2], it[3]))
            out_batch[:] = []
            i += 1
        elif k == "H":
            out.append(("Snap", it[2], "H", False, None))
            i += 1
        elif k == "C":
            out.append(("Pulse", it[1]))
            i += 1
        elif k == "CS":
            out.append(("SearchPulse", it[1]))
            i += 1
        elif k == "G":
            # BallSearch.give_up: num_balls_known -= n; playfield.balls = 0 (+ playfield_ball_count_change);
            # playfield.available_balls -= n   (no-op writes are not in the log)
            j = i + 1
            dk = db = da = None
            while True:         # (in whatever order the three assignments are made)
                if dk is None and w(j, "bc", "known", None) and raw[j][4] < raw[j][3]:
                    dk = raw[j][3] - raw[j][4]
                    j += 1
                elif db is None and w(j, "playfield", "balls", None) and raw[j][4] < raw[j][3] and \
                        p(j + 1, "playfield_ball_count_change"):
                    db = raw[j][3] - raw[j][4]
                    j += 2
                elif da is None and w(j, "playfield", "avail", None) and raw[j][4] < raw[j][3]:
                    da = raw[j][3] - raw[j][4]
                    j += 1
                else:
                    break
            dk, db, da = dk or 0, db or 0, da or 0
            out.append(("GiveUp", dk, db, da))
            i = j
        elif k == "XA":
            out.append(("ExtWait", it[1]))
            i += 1
        elif k == "X":
            out.append(("Confirmed", it[1], it[2]))
            i += 1
        elif k == "L":
            # IncomingBallsHandler._run takes ALL timed-out balls off the list before it reports the first one:
            # the reports of one batch see the same list length
            if not (out_batch and out_batch[0] == (it[1], it[3])):
                j = i
                while j < n and raw[j][0] != "T":
                    if raw[j][0] == "L" and raw[j][1] == it[1] and raw[j][3] == it[3]:
                        out.append(("IncTimeout", it[1], raw[j][2]))
                    j += 1
                out_batch[:] = [(it[1], it[3])]
            out.append(("IncLost", it[1], it[2]))
            i += 1
        elif k == "S":
            out.append(("S",) + tuple(it[1:4]))
            i += 1
        elif k == "W":
            obj, attr = it[1], it[2]
            if attr == "count" and obj in devs:
                if p(i + 1, "balldevice_%s_ball_count_changed" % obj) and raw[i + 1][2].get("balls") == it[4]:
                    out.append(("Count", obj, it[4]))
                    i += 2
                else:
                    out.append(("Stray", "count write without event: %r" % (it,)))
                    i += 1
            elif attr == "state" and obj in devs:
                out.append(("State", obj, it[4]))
                i += 1
            elif attr == "avail" and obj in devs and w(i, obj, "avail", -1):
                nx = at(i + 1)
                if nx is not None and nx[0] == "W" and nx[2] == "avail" and nx[1] != obj and w(i + 1, None, "avail", 1) \
                        and p(i + 2, "balldevice_balls_available"):
                    out.append(("Chain", obj, nx[1]))
                    i += 3
                elif w(i + 1, "playfield", "avail", 1) and pf_added(i + 2):
                    out.append(("Lost", obj))
                    i += 5
                else:
                    out.append(("AvailDec", obj))
                    i += 1
            elif attr == "avail" and obj in devs and w(i, obj, "avail", 1):
                out.append(("Added", obj))
                i += 1
            elif obj == "playfield" and w(i, obj, "balls", -1) and p(i + 1, "playfield_ball_count_change") and \
                    w(i + 2, "playfield", "avail", -1):
                out.append(("PfRemoved",))
                i += 3
            elif obj == "playfield" and pf_added(i):
                out.append(("PfAdded",))
                i += 3
            elif obj == "playfield" and w(i, obj, "avail", 1) and pf_added(i + 1):
                out.append(("MissingToPf",))
                i += 4
            elif obj == "playfield" and w(i, obj, "avail", -1) and w(i + 1, obj, "avail", 1) and pf_added(i + 2):
                out.append(("CancelMissing",))
                i += 5
            elif obj == "bc" and w(i, "bc", "known", 1) and pf_added(i + 1) and w(i + 4, "playfield", "avail", 1) and \
                    p(i + 5, "found_new_ball"):
                out.append(("FoundNew",))
                i += 6
            elif obj == "playfield" and attr == "req" and (w(i, obj, "req", 1) or w(i, obj, "req", -1)):
                out.append(("PfReq", it[4] - it[3]))
                i += 1
            else:
                out.append(("Stray", "unexplained write %r" % (it,)))
                i += 1
        elif k == "P":
            ev, a = it[1], it[2]
            m = None
            for d in devs:
                pre = "balldevice_%s_" % d
                if ev.startswith(pre):
                    m = (d, ev[len(pre):])
            if ev == "balldevice_balls_available":
                pass
            elif ev == "balldevice_captured_from_playfield":
                out.append(("Captured",))
            elif m is None:
                out.append(("Stray", "unexpected event %s" % ev))
            else:
                d, suf = m
                if suf == "ball_enter":
                    out.append(("Enter", d, int(a.get("unclaimed_balls", 0)), int(a.get("new_available_balls", 0))))
                elif suf == "ball_entered":
                    out.append(("Entered", d, int(a.get("new_balls", 0))))
                elif suf == "ball_eject_attempt":
                    out.append(("Attempt", d, a.get("target"), int(a.get("num_attempts", 0))))
                elif suf == "ejecting_ball":
                    out.append(("Ejecting", d, a.get("target"), int(a.get("num_attempts", 0))))
                elif suf == "ball_eject_success":
                    out.append(("Success", d, a.get("target")))
                elif suf == "ball_eject_failed":
                    out.append(("Failed", d, a.get("target"), 1 if a.get("retry") else 0,
                                int(a.get("num_attempts", 0))))
                elif suf == "ball_missing":
                    out.append(("MissingEv", d))
                elif suf == "broken":
                    out.append(("Broken", d))
                else:
                    out.append(("Stray", "unexpected event %s" % ev))
            i += 1
        else:
            out.append(("Stray", "raw %r" % (it,)))
            i += 1
    return out


# ------------------------------------------------------------------------------------------------
# direct oracle for C04 (independent of the model): the property's own predicate on the recorded run
def room_after_others(info):
    return info["room"] + info.get("unregistered_other", 0)


def starved_requests(case, out):
    """the world is quiet: no device may sit on a queued ball request while an idle device directly upstream has an
    available ball (balldevice_balls_available must reach every device with a queued request)"""
    fin = out.get("final")
    if not fin or out.get("error") or out.get("sim_error") or fin["truth"]["transit"]:
        return []
    devs = device_table(case["topo"])
    snap, truth = fin["snap"], fin["truth"]
    fails = []
    for d, v in devs.items():
        if snap[d][5] <= 0 or snap[d][3] not in ("idle", "waiting_for_ball"):
            continue
        for s_ in v["sources"]:
            if snap[s_][2] > 0 and truth["dev"][s_] > 0 and snap[s_][3] == "idle" and fin["idle"][s_]:
                fails.append({"sig": "servable-request-queued", "what": "%s has %d queued requests while the idle "
                              "%s has %d available balls" % (d, snap[d][5], s_, snap[s_][2])})
                break
    return fails[:1]


def oracle_c04(case, out):
    fails = []
    devs = device_table(case["topo"])
    if out.get("sim_error"):
        return [{"sig": "simulator-bug", "what": out["sim_error"]}]
    if out.get("error"):
        fails.append({"sig": "mpf-exception", "what": "MPF raised while the balls moved: %s" % out["error"]})
    seen = set()

    def add(sig, what):
        if sig not in seen:
            seen.add(sig)
            fails.append({"sig": sig, "what": what})

    started = False
    last_tick = None
    if not out.get("error") and out.get("final") and not out["final"]["truth"]["transit"]:
        last_tick = next((x for x in reversed(out["log"]) if x[0] == "T"), None)
    give_up = None
    unrestorable = 0    # lost_incoming_ball calls that found neither an eject to cancel nor an available ball
    total = case["topo"]["balls"] + case["topo"].get("loose", 0)
    for it in out["log"]:
        k = it[0]
        if k == "T":
            started = True
        if not started:
            continue
        snap = it[1] if k == "T" else it[2] if k in ("H", "C") else None
        if snap is not None:
            where = "at t=%.3fs" % (it[4] / 1e6) if k == "T" else "when %s is dispatched" % it[1] if k == "H" \
                else "when coil of %s is pulsed" % it[1]
            for d, v in devs.items():
                counted, balls = snap[d][0], snap[d][1]
                if balls < 0:
                    if counted >= 0 and balls == counted - 1 and snap[d][3] in ("ball_left", "failed_confirm"):
                        add("balls-negative-after-confirm",
                            "device.balls == %d for %s (%s; counted_balls already decremented, state still %s)" %
                            (balls, d, where, snap[d][3]))
                    else:
                        add("count-negative", "device.balls == %d for %s %s" % (balls, d, where))
                if counted < 0:
                    add("count-negative", "counted_balls == %d for %s %s" % (counted, d, where))
                mid_eject = snap[d][3] in ("ball_left", "failed_confirm")
                if balls > v["cap"] or counted > v["cap"] + (1 if mid_eject else 0):
                    add("count-above-capacity", "%s: balls=%d counted=%d capacity=%d %s" %
                        (d, balls, counted, v["cap"], where))
            if snap["playfield"][0] < 0:
                unknown = total - snap["known"]
                tdev = it[3]["dev"] if k in ("T", "H") else it[3].get("dev")
                flights = it[3]["transit"]
                # MPF still believes a ball on its way to a device which has physically bounced off onto the playfield
                # (each such ball makes playfield.balls one too low until ball_missing_timeout books it back)
                phantom = 0 if tdev is None else sum(
                    1 for d in devs if snap[d][3] in ("ball_left", "failed_confirm") and
                    devs[d]["target"] != "playfield" and not any(x[0] == d for x in flights))
                behind = tdev is not None and any(
                    snap[d][0] - (1 if snap[d][3] in ("ball_left", "failed_confirm") else 0) > tdev[d] for d in devs)
                # ... or still expects a ball at a device that is not on its way any more (it arrived and was taken
                # for the device's own ball falling back: 'Assuming a ball returned'); booked back by the timeout
                ghost = 0 if tdev is None else sum(
                    max(0, snap[d][4] - sum(1 for x in flights if x[1] == d)) for d in devs)
                # every cause accounts for one ball that is physically on the playfield before MPF has booked it
                behind_n = 0 if tdev is None else sum(
                    max(0, snap[d][0] - (1 if snap[d][3] in ("ball_left", "failed_confirm") else 0) - tdev[d])
                    for d in devs)
                # (between _set_ball_count and the lost_idle_ball bookings the device count is right already)
                allow = max(phantom, ghost) + max(0, snap["playfield"][2]) + max(0, unknown) + behind_n + \
                    it[3].get("pending_lost", 0)
                if allow > 0 and snap["playfield"][0] >= -allow:
                    # a capture from the playfield is booked before the eject confirmation (or the new-ball
                    # detection) that the very same capture triggers
                    add("playfield-balls-negative-transient",
                        "playfield.balls == %d %s (a ball was captured before the pending eject to the playfield "
                        "was confirmed / before it was known to exist / before its loss from an idle device or from "
                        "an eject it bounced out of was booked)" % (snap["playfield"][0], where))
                else:
                    add("playfield-balls-negative", "playfield.balls == %d %s" % (snap["playfield"][0], where))
        if k == "L" and len(it) >= 6 and it[4] == "idle" and it[5] <= 0:
            unrestorable += 1
        if k == "G":
            give_up = it
        if k == "G2" and give_up is not None:
            # the ball search gave up: exactly the balls MPF believed loose on the playfield are written off
            b0, a0, k0 = give_up[1:4]
            if k0 - it[3] != b0 or it[1] != 0:
                add("give-up-write-off-wrong", "ball search gave up with playfield.balls=%d, available_balls=%d: "
                    "num_balls_known %d -> %d, playfield.balls -> %d (exactly the %d loose balls must be written off)" %
                    (b0, a0, k0, it[3], it[1], b0))
            elif a0 - it[2] != b0:
                add("give-up-drops-promised-balls", "ball search gave up with playfield.balls=%d, available_balls=%d "
                    "(%d ball(s) promised to the playfield, not loose yet): available_balls -> %d instead of %d" %
                    (b0, a0, a0 - b0, it[2], a0 - b0))
            give_up = None
        if k == "T" and (it[2] or it is last_tick):
            # available balls: at a rest point, and at the end of the run (the world has been quiet for the whole settle
            # time; a device may still wait for a ball for ever), every -1 has had its +1: they sum to num_balls_known
            snap = it[1]
            excess = sum(snap[d][2] for d in devs) + snap["playfield"][1] - snap["known"]
            if excess != 0 and excess == unrestorable:
                # known: "Failed to restore the path": the lost ball is booked to playfield.available_balls, nothing is
                # taken away (the ball counts are right)
                add("available-balls-excess-after-unrestorable-incoming-loss",
                    "t=%.3fs: the available balls sum to %d but num_balls_known=%d: lost_incoming_ball was "
                    "called %d time(s) at an idle device without an available ball" %
                    (it[4] / 1e6, excess + snap["known"], snap["known"], unrestorable))
            elif excess != 0:
                add("available-sum", "t=%.3fs: the available balls sum to %d but num_balls_known=%d" %
                    (it[4] / 1e6, excess + snap["known"], snap["known"]))
        if k == "T" and it[2]:
            snap, truth = it[1], it[3]
            for d in devs:
                if snap[d][0] != truth["dev"][d] or snap[d][1] != truth["dev"][d]:
                    add("rest-device-count", "at rest (t=%.3fs) %s counts %d (balls %d) but physically holds %d" %
                        (it[4] / 1e6, d, snap[d][0], snap[d][1], truth["dev"][d]))
            unknown = truth["total"] - snap["known"]
            if unknown < 0 or unknown > case["topo"].get("loose", 0) + truth.get("written_off", 0):
                add("rest-known", "at rest (t=%.3fs) num_balls_known=%d but %d balls exist" %
                    (it[4] / 1e6, snap["known"], truth["total"]))
            elif snap["playfield"][0] + unknown != truth["loose"]:
                add("rest-playfield-count", "at rest (t=%.3fs) playfield.balls=%d but %d balls are loose "
                    "(%d of them never seen by MPF)" % (it[4] / 1e6, snap["playfield"][0], truth["loose"], unknown))
            if sum(snap[d][1] for d in devs) + snap["playfield"][0] != snap["known"]:
                add("rest-sum", "at rest (t=%.3fs) counts sum to %d but num_balls_known=%d" %
                    (it[4] / 1e6, sum(snap[d][1] for d in devs) + snap["playfield"][0], snap["known"]))
        if k == "C":
            info = it[3]
            if info["room"] is not None and info["room"] <= 0 and info.get("superseded_pf") and \
                    devs[info["target"]]["cap"] - snap[info["target"]][0] - snap[info["target"]][4] > 0:
                # a ball from the playfield dropped into the target and was taken for the expected ball (nothing can tell
                # them apart): the expected ball is confirmed while it is still on its way, the next one is fired
                add("pulse-after-playfield-ball-taken-for-expected-ball",
                    "coil of %s pulsed towards %s while an earlier ball is still on its way there: a ball that rolled in "
                    "from the playfield was matched with it, so MPF counts it as arrived" % (it[1], info["target"]))
            elif info["room"] is not None and info["room"] <= 0 and info.get("superseded_fb") and \
                    info["room"] + info["superseded_fb"] > 0 and \
                    devs[info["target"]]["cap"] - snap[info["target"]][0] - snap[info["target"]][4] > 0:
                # the target's own ejected ball fell back into it although its eject was confirmed (by another ball's
                # activity); after the eject it was counted as a new arrival and matched with an expected ball that is
                # physically still on its way
                add("pulse-while-confirmed-ball-falls-back",
                    "coil of %s pulsed towards %s: the ball %s ejected has fallen back into it although its eject was "
                    "confirmed by another ball's activity, and was taken for an expected ball that is still on its way, "
                    "so MPF counts one place too many" % (it[1], info["target"], info["target"]))
            elif info["room"] is not None and info["room"] <= 0:
                t = info["target"]
                # (a source that pulses in ball_left -- entrance counter -- has already registered its own ball)
                own_reg = 1 if info["state"] == "ball_left" else 0
                believed = devs[t]["cap"] - snap[t][0] - (snap[t][4] - own_reg)
                if info.get("at_check"):
                    # what MPF saw when the source passed wait_for_ready_to_receive (the coil fires a few ms later: count
                    # settle, PSU arbitration; another source may have registered its ball meanwhile)
                    believed = devs[t]["cap"] - info["at_check"][0] - info["at_check"][1]
                own = any(x[:2] == [it[1], t] for x in info.get("transit", []))
                n_own = info.get("own_given_up_n", 0)      # own balls in transit that MPF has given up on
                gave_up = n_own > 0
                oth = info.get("others_given_up", 0)
                unreg = info.get("unregistered_other", 0)
                if believed > 0 and own and gave_up and info["room"] + n_own > 0:
                    # MPF has given up on an earlier ball of this very eject (took a foreign ball that sat in the source
                    # during failed_confirm for the returned one, or booked it as lost after ball_missing_timeout)
                    # which is physically still on its way
                    add("pulse-while-own-late-ball-in-transit",
                        "coil of %s pulsed towards %s although a ball it ejected earlier is still on its way there "
                        "and fills the last free place (MPF believes it returned or is lost)" % (it[1], t))
                elif believed > 0 and snap[t][3] not in ("ball_left", "failed_confirm") and \
                        info["room"] + sum(1 for x in info.get("transit", []) if x == [t, t]) > 0:
                    # the target's own ejected ball is falling back although its eject has already been confirmed
                    # (by the activity of another ball); MPF counts the target as empty
                    add("pulse-while-confirmed-ball-falls-back",
                        "coil of %s pulsed towards %s while the ball %s ejected is falling back into it; its eject "
                        "had been confirmed by another ball's activity, so MPF counts %s as empty" % (it[1], t, t, t))
                elif believed > 0 and oth > 0 and info["room"] + n_own + oth + unreg > 0:
                    # the same give-up as above, but the late ball belongs to ANOTHER source of the target: its entry
                    # was taken off the target's list, the source that was waiting for room fires into its place
                    add("pulse-while-other-sources-late-ball-in-transit",
                        "coil of %s pulsed towards %s whose last free place is taken by a ball another source ejected "
                        "earlier and that is still on its way (MPF believes it returned to its source or is lost and "
                        "no longer expects it at %s)" % (it[1], t, t))
                elif believed > 0 and room_after_others(info) > 0:
                    # two sources share the target: both passed wait_for_ready_to_receive before either ball was
                    # registered as incoming ("TODO: block one spot in target device to prevent double eject")
                    add("pulse-race-two-sources",
                        "coil of %s pulsed towards %s whose last free place is taken by a ball another source has just "
                        "fired (not yet registered as incoming at %s when %s checked for room)" % (it[1], t, t, it[1]))
                elif believed > 0 and own and gave_up and info["room"] + n_own + unreg > 0:
                    # both at once: the own late ball MPF has given up on AND the other source firing in the same ms
                    add("pulse-while-own-late-ball-in-transit",
                        "coil of %s pulsed towards %s although a ball it ejected earlier is still on its way there "
                        "(MPF believes it returned or is lost) while another source fired in the same instant" %
                        (it[1], t))
                else:
                    add("pulse-towards-full-device", "coil of %s pulsed while its target %s has no room "
                        "(MPF's own numbers: capacity %d, counted %d, incoming %d)" %
                        (it[1], t, devs[t]["cap"], snap[t][0], snap[t][4] - own_reg))
            okstates = ("ejecting", "ball_left") if devs[it[1]]["kind"] == "entrance" else ("ejecting",)
            if info["state"] not in okstates:     # (an entrance counter assumes "left" 10 ms after the command,
                                                  #  the driver may delay the pulse up to eject_coil_max_wait_ms)
                add("pulse-outside-eject", "coil of %s pulsed in state %s" % (it[1], info["state"]))
    # supplement (clause of C05, same harness): a queued request is served once a ball for it is available
    fails += starved_requests(case, out)
    return fails
