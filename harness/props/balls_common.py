"""Shared harness for C04 / C05 (ball devices): generated topologies, a physical-world simulator that
drives the switches of a real MPF machine on the virtual clock, and an exact program-order recorder.

What is recorded (in exact program order; asyncio is single-threaded, so the order is the real order):
  ["W", obj, attr, old, new]   every assignment to BallDevice.available_balls / counted_balls / _state,
                               Playfield._balls / available_balls / num_balls_requested,
                               BallController.num_balls_known   (class-level __setattr__ wrappers, installed in the
                               worker process only; /repo is never edited)
  ["P", event, {args}]         every balldevice_* / playfield event at the moment it is POSTED
                               (wrappers around the four public EventManager.post* methods of the instance)
  ["H", event, snap]           the same events when they are DISPATCHED (a handler with very high priority);
                               snap = what any other handler of that event can observe
  ["C", device, snap]          eject coil of <device> pulsed at the virtual platform driver
  ["S", kind, ...]             a physical move made by the simulator (switch change)
  ["A", action, ...]           a game-level action issued by the script
  ["T", snap, rest]            after each simulator step (loop quiescent): snapshot + "rest point" flag + truth

A snapshot is {dev: [counted, balls, available, state, incoming]}, pf: [balls, available, requested], known.
"""
import heapq

TRACK_DEV = {"available_balls": "avail", "counted_balls": "count", "_state": "state"}
TRACK_PF = {"_balls": "balls", "available_balls": "avail", "num_balls_requested": "req"}

_REC = {"cur": None}
_PATCHED = {"done": False}

STATES = ["idle", "waiting_for_ball", "waiting_for_target_ready", "ejecting", "ball_left", "failed_confirm",
          "eject_broken"]


def install_hooks():
    """Class-level write hooks (once per worker process)."""
    if _PATCHED["done"]:
        return
    _PATCHED["done"] = True
    from mpf.devices.ball_device.ball_device import BallDevice
    from mpf.devices.playfield import Playfield
    from mpf.core.ball_controller import BallController

    def wrap(cls, table, kind):
        orig = cls.__setattr__

        def hooked(self, name, value):
            r = _REC["cur"]
            if r is not None and name in table:
                try:
                    old = getattr(self, name)
                except AttributeError:
                    old = None
                orig(self, name, value)
                r.write(kind, self, table[name], old, value)
            else:
                orig(self, name, value)
        cls.__setattr__ = hooked

    from mpf.core.events import EventManager

    def wrap_post(meth):
        orig = getattr(EventManager, meth)

        def wrapped(self, event, *a, **kw):
            r = _REC["cur"]
            if r is not None and r.rig is not None and self is r.rig.machine.events and event in r.names:
                r.log.append(["P", event, r.kw(kw)])
            return orig(self, event, *a, **kw)
        setattr(EventManager, meth, wrapped)
    for meth in ("post", "post_boolean", "post_queue", "post_relay"):
        wrap_post(meth)

    wrap(BallDevice, TRACK_DEV, "dev")
    wrap(Playfield, TRACK_PF, "pf")
    wrap(BallController, {"num_balls_known": "known"}, "bc")


# ------------------------------------------------------------------------------------------------
def make_config(topo):
    """Machine config (JSON-able) for a generated topology.

    topo = {"trough_n": 2..5, "balls": k <= trough_n, "lock_k": 0..2, "t_trough": ms, "t_plunger": ms, "t_lock": ms,
            "att_trough": n, "att_plunger": n, "att_lock": n, "loose": 0/1 (balls that start loose, unknown to MPF)}
    """
    sw = {"s_pf": {"number": "1", "tags": "playfield_active"}}
    coils = {"c_trough": {"number": "1"}, "c_plunger": {"number": "2"}}
    tsw = ["s_trough%d" % i for i in range(1, topo["trough_n"] + 1)]
    for i, s in enumerate(tsw):
        sw[s] = {"number": str(10 + i)}
    sw["s_plunger"] = {"number": "2"}
    bd = {
        "trough": {"ball_switches": ", ".join(tsw), "eject_coil": "c_trough", "tags": "trough, home, drain",
                   "eject_targets": "plunger", "eject_timeouts": "%dms" % topo["t_trough"],
                   "max_eject_attempts": topo.get("att_trough", 0)},
        "plunger": {"ball_switches": "s_plunger", "eject_coil": "c_plunger", "eject_targets": "playfield",
                    "eject_timeouts": "%dms" % topo["t_plunger"],
                    "max_eject_attempts": topo.get("att_plunger", 0)},
    }
    if topo.get("lock_k", 0):
        coils["c_lock"] = {"number": "3"}
        lsw = ["s_lock%d" % i for i in range(1, topo["lock_k"] + 1)]
        for i, s in enumerate(lsw):
            sw[s] = {"number": str(20 + i)}
        bd["lock"] = {"ball_switches": ", ".join(lsw), "eject_coil": "c_lock", "eject_targets": "playfield",
                      "eject_timeouts": "%dms" % topo["t_lock"], "max_eject_attempts": topo.get("att_lock", 0)}
    cfg = {
        "switches": sw, "coils": coils, "ball_devices": bd,
        "playfields": {"playfield": {"default_source_device": "plunger", "tags": "default"}},
        "virtual_platform_start_active_switches": ", ".join(tsw[:topo["balls"]]),
    }
    return cfg


def device_table(topo):
    """name -> dict(switches, cap, target, coil, timeout_ms, attempts) ; order fixes the numeric ids"""
    t = {
        "trough": {"sw": ["s_trough%d" % i for i in range(1, topo["trough_n"] + 1)], "target": "plunger",
                   "coil": "c_trough", "timeout": topo["t_trough"], "att": topo.get("att_trough", 0), "trough": True},
        "plunger": {"sw": ["s_plunger"], "target": "playfield", "coil": "c_plunger", "timeout": topo["t_plunger"],
                    "att": topo.get("att_plunger", 0), "trough": False},
    }
    if topo.get("lock_k", 0):
        t["lock"] = {"sw": ["s_lock%d" % i for i in range(1, topo["lock_k"] + 1)], "target": "playfield",
                     "coil": "c_lock", "timeout": topo["t_lock"], "att": topo.get("att_lock", 0), "trough": False}
    for d in t.values():
        d["cap"] = len(d["sw"])
    return t


DEV_ID = {"trough": 0, "plunger": 1, "lock": 2, "playfield": 9}


# ------------------------------------------------------------------------------------------------
class World:
    """Runs one case: real MPF machine + physical simulator + recorder."""

    EVENTS_SUFFIX = ["_ball_eject_attempt", "_ejecting_ball", "_ball_eject_success", "_ball_eject_failed",
                     "_ball_lost", "_ball_missing", "_ball_enter", "_ball_entered", "_ball_count_changed",
                     "_broken"]

    def __init__(self, case):
        self.case = case
        self.topo = case["topo"]
        self.devs = device_table(self.topo)
        self.log = []
        self.heap = []          # (time, seq, fn, args)
        self.seq = 0
        self.loose = self.topo.get("loose", 0)      # balls physically loose on the playfield
        self.transit = []       # [src, dst] balls physically on their way
        self.occ = {d: [False] * v["cap"] for d, v in self.devs.items()}
        for i in range(self.topo["balls"]):
            self.occ["trough"][i] = True
        self.total = self.topo["balls"] + self.loose
        self.faults = {d: list(case.get("faults", {}).get(d, [])) for d in self.devs}
        self.claim = list(case.get("claims", []))       # lock claim decisions, consumed per unclaimed ball
        self.last_phys = 0.0
        self.pulse_checks = []
        self.error = None
        self.delivered = {}     # target -> balls physically delivered
        self.rig = None
        self.names = set()

    # -- recording ----------------------------------------------------------------------------
    def write(self, kind, obj, attr, old, new):
        if self.rig is None or getattr(obj, "machine", None) is not self.rig.machine:
            return
        name = "bc" if kind == "bc" else obj.name
        self.log.append(["W", name, attr, old, new])

    def snap(self):
        m = self.rig.machine
        s = {}
        for d in self.devs:
            bd = m.ball_devices[d]
            s[d] = [bd.counted_balls, bd.balls, bd.available_balls, bd.state,
                    bd.incoming_balls_handler.get_num_incoming_balls(), bd.requested_balls]
        pf = m.playfield
        s["playfield"] = [pf.balls, pf.available_balls, pf.num_balls_requested]
        s["known"] = m.ball_controller.num_balls_known
        return s

    def truth(self):
        return {"dev": {d: sum(1 for x in o if x) for d, o in self.occ.items()}, "loose": self.loose,
                "transit": [list(x) for x in self.transit], "total": self.total}

    # -- boot ---------------------------------------------------------------------------------
    def boot(self):
        import rig as rigmod
        install_hooks()
        cfg = make_config(self.topo)
        self.rig = rigmod.Rig(cfg)
        _REC["cur"] = self
        self.rig.start()
        m = self.rig.machine
        ev = m.events
        names = set()
        for d in self.devs:
            for suf in self.EVENTS_SUFFIX:
                names.add("balldevice_" + d + suf)
        names |= {"balldevice_captured_from_playfield", "balldevice_balls_available", "balldevice_ball_missing",
                  "playfield_ball_count_change", "balldevice_playfield_ball_enter", "found_new_ball",
                  "sw_playfield_active", "playfield_active", "unexpected_ball_on_playfield"}
        self.names = names
        for n in sorted(names):
            ev.add_handler(n, self._mk_handler(n), priority=1000000)
        if "lock" in self.devs:
            ev.add_handler("balldevice_lock_ball_enter", self._claim_handler, priority=5)
        for d, v in self.devs.items():
            self._wrap_coil(d, m.coils[v["coil"]])
        self.rig.advance(1.0)
        self.log.append(["T", self.snap(), self.is_rest(), self.truth(), self.now_us()])

    @staticmethod
    def kw(kw):
        out = {}
        for k in ("balls", "retry", "num_attempts", "new_balls", "unclaimed_balls", "change", "mechanical_eject",
                  "new_available_balls", "name"):
            if k in kw:
                out[k] = kw[k]
        for k in ("target", "source", "device"):
            if k in kw and kw[k] is not None:
                out[k] = getattr(kw[k], "name", str(kw[k]))
        return out

    def _mk_handler(self, name):
        world = self

        def handler(**kwargs):
            world.log.append(["H", name, world.snap()])
        return handler

    def _claim_handler(self, unclaimed_balls, **kwargs):
        if unclaimed_balls and self.claim and self.claim.pop(0):
            self.log.append(["A", "claim", "lock"])
            return {"unclaimed_balls": unclaimed_balls - 1}
        return {"unclaimed_balls": unclaimed_balls}

    def _wrap_coil(self, d, coil):
        hw = coil.hw_driver
        orig = hw.pulse
        world = self

        def pulse(*a, **kw):
            world.on_pulse(d)
            return orig(*a, **kw)
        hw.pulse = pulse

    # -- physical world -----------------------------------------------------------------------
    def now(self):
        return self.rig.machine.clock.get_time()

    def now_us(self):
        return int(round(self.now() * 1e6))

    def at(self, delay_ms, fn, *args):
        self.seq += 1
        heapq.heappush(self.heap, (self.now() + delay_ms / 1000.0, self.seq, fn, args))

    def sw(self, name, state):
        self.last_phys = self.now()
        self.rig.machine.switch_controller.process_switch(name, state=state, logical=True)

    def count(self, d):
        return sum(1 for x in self.occ[d] if x)

    def on_pulse(self, d):
        v = self.devs[d]
        tgt = v["target"]
        room = None
        if tgt != "playfield":
            inbound = sum(1 for s, t in self.transit if t == tgt)
            room = self.devs[tgt]["cap"] - self.count(tgt) - inbound
        bd = self.rig.machine.ball_devices[d]
        self.log.append(["C", d, self.snap(), {"target": tgt, "room": room, "has_ball": self.count(d) > 0,
                                                "state": bd.state}])
        if self.count(d) == 0:
            return
        f = self.faults[d].pop(0) if self.faults[d] else ["ok", 50, 400, 300]
        kind = f[0]
        if kind == "stuck":
            self.log.append(["S", "stuck", d])
            return
        self.at(f[1], self.ball_leaves, d, tgt, f)

    def ball_leaves(self, d, tgt, f):
        if self.count(d) == 0:
            return
        # the ball in the highest occupied position leaves
        idx = max(i for i, x in enumerate(self.occ[d]) if x)
        self.occ[d][idx] = False
        kind = f[0]
        dst = d if kind == "fallback" else tgt
        self.log.append(["S", "leave", d, dst])
        if dst == "playfield":
            self.loose += 1
            self.delivered["playfield"] = self.delivered.get("playfield", 0) + 1
            self.sw(self.devs[d]["sw"][idx], 0)
            if len(f) > 3 and f[3] is not None and f[3] >= 0:
                self.at(f[3], self.pf_hit)
            return
        self.transit.append([d, dst])
        self.sw(self.devs[d]["sw"][idx], 0)
        self.at(f[2], self.ball_arrives, d, dst)

    def ball_arrives(self, src, dst):
        if [src, dst] in self.transit:
            self.transit.remove([src, dst])
        if dst == "playfield":
            self.loose += 1
            self.log.append(["S", "arrive", src, dst])
            return
        free = [i for i, x in enumerate(self.occ[dst]) if not x]
        if not free:
            # physically no room: the ball bounces back to the playfield
            self.loose += 1
            self.log.append(["S", "bounce", src, dst])
            return
        self.occ[dst][free[0]] = True
        self.log.append(["S", "arrive", src, dst])
        if src != dst:
            self.delivered[dst] = self.delivered.get(dst, 0) + 1
        self.sw(self.devs[dst]["sw"][free[0]], 1)

    def pf_hit(self):
        if self.loose <= 0:
            return
        self.log.append(["S", "pfhit"])
        self.sw("s_pf", 1)
        self.sw("s_pf", 0)

    def loose_to(self, dst, transit_ms):
        if self.loose <= 0 or dst not in self.devs:
            return
        inbound = sum(1 for s, t in self.transit if t == dst)
        if self.count(dst) + inbound >= self.devs[dst]["cap"]:
            return      # physically impossible: no room
        self.loose -= 1
        self.transit.append(["playfield", dst])
        self.log.append(["S", "leave", "playfield", dst])
        self.at(transit_ms, self.ball_arrives, "playfield", dst)

    # -- script -------------------------------------------------------------------------------
    def do_action(self, a):
        m = self.rig.machine
        k = a[0]
        if k == "add_ball":
            self.log.append(["A", "add_ball"])
            m.playfield.add_ball()
        elif k == "request":
            if a[1] in self.devs:
                self.log.append(["A", "request", a[1]])
                m.ball_devices[a[1]].request_ball()
        elif k == "eject":
            if a[1] in self.devs:
                self.log.append(["A", "eject", a[1]])
                m.ball_devices[a[1]].eject()
        elif k == "eject_all":
            if a[1] in self.devs:
                self.log.append(["A", "eject_all", a[1]])
                m.ball_devices[a[1]].eject_all()
        elif k == "collect":
            self.log.append(["A", "collect"])
            m.ball_controller.collect_balls()
        elif k == "drain":
            self.loose_to("trough", a[1])
        elif k == "lockshot":
            self.loose_to("lock", a[1])
        elif k == "pfhit":
            self.pf_hit()
        elif k == "wait":
            pass
        else:
            raise ValueError(k)

    def is_rest(self):
        m = self.rig.machine
        if self.heap_has_physical() or self.transit:
            return False
        if self.now() - self.last_phys < 1.2:
            return False
        for d in self.devs:
            bd = m.ball_devices[d]
            if bd.state != "idle" or bd.incoming_balls_handler.get_num_incoming_balls():
                return False
            if not bd.outgoing_balls_handler.is_idle:
                return False
        return True

    def heap_has_physical(self):
        return any(fn in (self.ball_leaves, self.ball_arrives) for _, _, fn, _ in self.heap)

    def step_to(self, t):
        """advance virtual time to t, executing the simulator's scheduled moves on the way"""
        while True:
            nxt = self.heap[0][0] if self.heap else None
            if nxt is not None and nxt <= t:
                dt = max(0.0, nxt - self.now())
                self.rig.advance(dt)
                while self.heap and self.heap[0][0] <= self.now() + 1e-9:
                    _, _, fn, args = heapq.heappop(self.heap)
                    fn(*args)
                self.rig.advance(0)
                self.tick()
            else:
                dt = t - self.now()
                if dt > 0:
                    self.rig.advance(dt)
                    self.tick()
                return

    def tick(self):
        exc = self.rig.exception()
        if exc and not self.error:
            self.error = repr(exc.get("exception", exc))[:300] if isinstance(exc, dict) else repr(exc)[:300]
        self.log.append(["T", self.snap(), self.is_rest(), self.truth(), self.now_us()])

    def run(self):
        try:
            self.boot()
            for a in self.case["script"]:
                self.step_to(self.now() + a[0] / 1000.0)
                self.do_action(a[1:])
                self.rig.advance(0)
                self.tick()
            # let the world come to rest
            end = self.now() + self.case.get("settle_s", 90)
            quiet = 0
            while self.now() < end:
                self.step_to(self.now() + 1.0)
                if self.is_rest():
                    quiet += 1
                    if quiet >= self.case.get("quiet_s", 3):
                        break
                else:
                    quiet = 0
            self.final_rest = self.is_rest()
        finally:
            _REC["cur"] = None
            if self.rig is not None:
                try:
                    exc = self.rig.exception()
                    if exc and not self.error:
                        self.error = repr(exc)[:300]
                    self.rig._exception = None
                except Exception:
                    pass
                self.rig.stop()
        return {"log": self.log, "error": self.error, "final_rest": getattr(self, "final_rest", False),
                "delivered": self.delivered}


def run_world(case):
    return World(case).run()
