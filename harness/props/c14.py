"""C14 — Serial links: framing, integrity and command flow control (OPP, FAST, PKONE)."""
import ast
import os

from vlib import Suite, zlist, zlit, coqlist, blit, opt

ID = "C14"
READY = False


# ------------------------------------------------------------------------------------------------
# (T) translation of the CRC table, CRC loop constants and command bytes from opp_rs232_intf.py
CRC_UPDATE_SHAPE = ("Assign(targets=[Name(id='crc8_byte', ctx=Store())], value=Subscript(value=Attribute(value=Name("
                    "id='OppRs232Intf', ctx=Load()), attr='CRC8_LOOKUP', ctx=Load()), slice=BinOp(left=Name("
                    "id='crc8_byte', ctx=Load()), op=BitXor(), right=Name(id='ind_int', ctx=Load())), ctx=Load()))")


def _crc_loop_facts(fn, what):
    """fail closed unless the function is `crc = <int>; loop: crc = TABLE[crc ^ byte]`; returns the initial value"""
    init = None
    updates = 0
    for n in ast.walk(fn):
        if isinstance(n, ast.Assign) and len(n.targets) == 1 and isinstance(n.targets[0], ast.Name) \
                and n.targets[0].id == "crc8_byte":
            if isinstance(n.value, ast.Constant) and isinstance(n.value.value, int):
                if init is not None:
                    raise ValueError("translate:opp_rs232_intf.py:%s: two initialisations" % what)
                init = n.value.value
            elif ast.dump(n) == CRC_UPDATE_SHAPE:
                updates += 1
            else:
                raise ValueError("translate:opp_rs232_intf.py:%s: unsupported crc8_byte assignment" % what)
    if init is None or updates != 1:
        raise ValueError("translate:opp_rs232_intf.py:%s: loop shape changed" % what)
    return init


def translate(repo, gendir):
    p = os.path.join(repo, "mpf/platforms/opp/opp_rs232_intf.py")
    tree = ast.parse(open(p).read())
    cls = [n for n in tree.body if isinstance(n, ast.ClassDef) and n.name == "OppRs232Intf"]
    if len(cls) != 1:
        raise ValueError("translate:opp_rs232_intf.py:OppRs232Intf missing")
    table, consts, funcs = None, {}, {}
    for n in cls[0].body:
        if isinstance(n, ast.Assign) and len(n.targets) == 1 and isinstance(n.targets[0], ast.Name):
            name = n.targets[0].id
            if name == "CRC8_LOOKUP":
                if not isinstance(n.value, ast.List):
                    raise ValueError("translate:opp_rs232_intf.py:CRC8_LOOKUP not a list literal")
                table = []
                for e in n.value.elts:
                    if not (isinstance(e, ast.Constant) and type(e.value) is int):
                        raise ValueError("translate:opp_rs232_intf.py:CRC8_LOOKUP non-literal element")
                    table.append(e.value)
            elif isinstance(n.value, ast.Constant) and isinstance(n.value.value, bytes) and len(n.value.value) == 1:
                consts[name] = n.value.value[0]
        if isinstance(n, ast.FunctionDef):
            funcs[n.name] = n
    if table is None or len(table) != 256:
        raise ValueError("translate:opp_rs232_intf.py:CRC8_LOOKUP must have 256 entries")
    for f in ("calc_crc8_whole_msg", "calc_crc8_part_msg"):
        if f not in funcs:
            raise ValueError("translate:opp_rs232_intf.py:%s missing" % f)
    i1 = _crc_loop_facts(funcs["calc_crc8_whole_msg"], "calc_crc8_whole_msg")
    i2 = _crc_loop_facts(funcs["calc_crc8_part_msg"], "calc_crc8_part_msg")
    if i1 != i2:
        raise ValueError("translate:opp_rs232_intf.py: the two CRC loops start from different values")
    for c in ("READ_GEN2_INP_CMD", "READ_MATRIX_INP", "EOM_CMD"):
        if c not in consts:
            raise ValueError("translate:opp_rs232_intf.py:%s missing" % c)
    os.makedirs(gendir, exist_ok=True)
    txt = ("(* GENERATED on every run by harness/props/c14.py::translate from mpf/platforms/opp/opp_rs232_intf.py *)\n"
           "From Common Require Import Prelude.\nOpen Scope Z_scope.\n"
           "Definition crc_table : list Z := %s.\n"
           "Definition crc_init : Z := %d.\n"
           "Definition cmd_read_gen2_inp : Z := %d.\n"
           "Definition cmd_read_matrix_inp : Z := %d.\n"
           "Definition cmd_eom : Z := %d.\n" % (zlist(table), i1, consts["READ_GEN2_INP_CMD"],
                                                 consts["READ_MATRIX_INP"], consts["EOM_CMD"]))
    path = os.path.join(gendir, "Crc.v")
    if not os.path.exists(path) or open(path).read() != txt:      # keep the timestamp when nothing changed
        with open(path, "w") as f:
            f.write(txt)


SUITES = []
